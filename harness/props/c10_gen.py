"""C10 — generator of real pulse-template forests (JSON-able descriptions) and their construction."""
import warnings

DURS = [4, 'd', 'd*2', 8]
MID = {4: 2, 'd': 'd/2', 'd*2': 'd', 8: 'd'}
VALS = [0, 1, -1, 0.5, 2.25, 0.30000000000000004, 0.3333333333333333, 'a', 'v', 'v*2', 'a+b', 'w/4', 'x', 'y', 'a*x', 'b-c', '1/3', 'Max(a, b)', 3]
CONSTRAINTS = ['a < b', 'b <= c', 'd > 0', 'n >= 0', 'a + b == c', 'v*2 >= w', 'c > a']
INTERP = ['hold', 'linear', 'jump', 'default']
COUNTS = [2, 'n', 1, 0, 'n*2', 3, 'k']
RANGES = [3, ['a', 'c'], [0, 'n', 1], ['c', 'a', -1], [0, 'k', 2], 'n', [2]]
BACKENDS = ['dict', 'fs', 'zip']


def _kw(n, *names):
    out = {}
    for k in names:
        v = n.get(k)
        if v:
            out[k] = [tuple(m) for m in v] if k == 'measurements' else list(v)
    return out


def _ch(c):
    return c


def build_node(n, objs):
    from qupulse.pulses import (TablePT, PointPT, FunctionPT, ConstantPT, SequencePT, RepetitionPT, ForLoopPT,
                                MappingPT, AtomicMultiChannelPT, ParallelChannelPT, ArithmeticPT,
                                ArithmeticAtomicPT, TimeReversalPT)
    from qupulse.pulses.abstract_pulse_template import AbstractPulseTemplate
    k, ident = n['k'], n.get('id')
    ch = lambda i: objs[i]
    if k == 'Table':
        return TablePT({c: [tuple(e) for e in es] for c, es in n['entries']}, identifier=ident,
                       **_kw(n, 'parameter_constraints', 'measurements'))
    if k == 'Point':
        return PointPT([tuple(tuple(x) if isinstance(x, list) else x for x in e) for e in n['points']], list(n['chans']),
                       identifier=ident, **_kw(n, 'parameter_constraints', 'measurements'))
    if k == 'Function':
        return FunctionPT(n['ex'], n['dur'], channel=n['ch'], identifier=ident,
                          **_kw(n, 'parameter_constraints', 'measurements'))
    if k == 'Constant':
        kw = _kw(n, 'measurements')
        if n.get('name') is not None:
            kw['name'] = n['name']
        return ConstantPT(n['dur'], {c: v for c, v in n['amps']}, identifier=ident, **kw)
    if k == 'Sequence':
        return SequencePT(*[ch(i) for i in n['subs']], identifier=ident, **_kw(n, 'parameter_constraints', 'measurements'))
    if k == 'Repetition':
        return RepetitionPT(ch(n['body']), n['count'], identifier=ident, **_kw(n, 'parameter_constraints', 'measurements'))
    if k == 'ForLoop':
        r = n['rng']
        return ForLoopPT(ch(n['body']), n['idx'], tuple(r) if isinstance(r, list) else r, identifier=ident,
                         **_kw(n, 'parameter_constraints', 'measurements'))
    if k == 'Mapping':
        kw = {}
        if n.get('pmap') is not None:
            kw['parameter_mapping'] = {a: b for a, b in n['pmap']}
        if n.get('mmap') is not None:
            kw['measurement_mapping'] = {a: b for a, b in n['mmap']}
        if n.get('cmap') is not None:
            kw['channel_mapping'] = {a: b for a, b in n['cmap']}
        return MappingPT(ch(n['tmpl']), identifier=ident, allow_partial_parameter_mapping=True,
                         **kw, **_kw(n, 'parameter_constraints'))
    if k == 'AtomicMulti':
        kw = _kw(n, 'parameter_constraints', 'measurements')
        if n.get('dur') is not None:
            kw['duration'] = n['dur']
        return AtomicMultiChannelPT(*[ch(i) for i in n['subs']], identifier=ident, **kw)
    if k == 'Parallel':
        return ParallelChannelPT(ch(n['tmpl']), {c: v for c, v in n['over']}, identifier=ident)
    if k == 'Arithmetic':
        def operand(o):
            if isinstance(o, dict) and 'pt' in o:
                return ch(o['pt'])
            if isinstance(o, dict):
                return {c: v for c, v in o['map']}
            return o
        return ArithmeticPT(operand(n['lhs']), n['op'], operand(n['rhs']), identifier=ident)
    if k == 'ArithmeticAtomic':
        return ArithmeticAtomicPT(ch(n['lhs']), n['op'], ch(n['rhs']), identifier=ident, silent_atomic=True,
                                  **_kw(n, 'measurements'))
    if k == 'TimeReversal':
        return TimeReversalPT(ch(n['inner']), identifier=ident)
    if k == 'Abstract':
        kw = {}
        for key in ('defined_channels', 'parameter_names', 'measurement_names'):
            if n.get(key) is not None:
                kw[key] = set(n[key])
        if n.get('integral') is not None:
            kw['integral'] = {c: v for c, v in n['integral']}
        if n.get('duration') is not None:
            kw['duration'] = n['duration']
        return AbstractPulseTemplate(ident, **kw)
    raise ValueError(k)


def build(nodes):
    objs = []
    with warnings.catch_warnings():
        warnings.simplefilter('ignore')
        for n in nodes:
            objs.append(build_node(n, objs))
    return objs


class Gen:
    def __init__(self, rng, int_mode=False, p_named=0.4, abstract=False, numeric=False):
        self.rng = rng
        self.nodes = []
        self.objs = []
        self.meta = []          # per node: (channels tuple, atomic bool, dur spec or None)
        self.p_named = p_named
        self.int_mode = int_mode
        self.abstract = abstract
        self.numeric = numeric      # parameter-free leaves: numbers only (templates without any parameter)
        self.counter = 0
        self.flags = set()

    # -- helpers
    def fresh_id(self):
        self.counter += 1
        return 'n%d' % self.counter

    def maybe_id(self, force=False):
        if force or self.rng.random() < self.p_named:
            return self.fresh_id()
        return None

    def add(self, node, chans, atomic, dur):
        with warnings.catch_warnings():
            warnings.simplefilter('ignore')
            obj = build_node(node, self.objs)
        self.nodes.append(node)
        self.objs.append(obj)
        self.meta.append((tuple(chans), atomic, dur))
        return len(self.nodes) - 1

    def val(self, need=None, t_ok=False):
        r = self.rng
        if need and r.random() < 0.7:
            return r.choice(['%s' % need, '%s*v' % need, '%s+a' % need, '%s/2' % need])
        if self.numeric:
            return r.choice([0, 1, -1, 0.5, 2.25, 3])
        if t_ok and r.random() < 0.3:
            return r.choice(['t*a', 'sin(t)', 't/4 + v'])
        return r.choice(VALS)

    def extras(self, dur, meas=True, cons=True):
        r = self.rng
        out = {}
        if self.numeric:
            if meas and r.random() < 0.6:
                out['measurements'] = r.choice([[['m', 0, 1]], [['k', 1, 1]], [['m', 0, 1], ['k', 2, 1]]])
            return out
        if meas and r.random() < 0.3:
            out['measurements'] = r.choice([[['m', 0, dur]], [['k', MID[dur], 1]], [['m', 0, 1], ['k', 'v', 'x']],
                                            [['m', 0.5, 'd/4']]])
        if cons and r.random() < 0.25:
            out['parameter_constraints'] = r.sample(CONSTRAINTS, r.choice([1, 1, 2]))
        return out

    def dur(self):
        return self.rng.choice([4, 8]) if self.numeric else self.rng.choice(DURS)

    def pooled(self, chans, atomic=None, dur=None):
        cands = [i for i, (c, a, d) in enumerate(self.meta)
                 if self.nodes[i].get('id') is not None and set(c) == set(chans)
                 and (atomic is None or (a and (dur is None or d == dur)))]
        if cands and self.rng.random() < 0.25:
            return self.rng.choice(cands)
        return None

    # -- atomic templates on exactly the channels `chans` with duration spec `dur`
    def atomic(self, chans, dur, depth, need=None, force_id=False):
        r = self.rng
        if need is None and not force_id:
            p = self.pooled(chans, atomic=True, dur=dur)
            if p is not None:
                self.flags.add('shared')
                return p
        kinds = ['Table', 'Table', 'Point', 'Constant', 'Constant']
        if len(chans) == 1:
            kinds += ['Function', 'Function']
        if depth > 0:
            if len(chans) >= 2:
                kinds += ['AtomicMulti', 'AtomicMulti', 'ParAtomic']
            kinds += ['ArithmeticAtomic', 'MapAtomic', 'ArithAtomic', 'RevAtomic']
        k = r.choice(kinds)
        ident = self.maybe_id(force_id)
        mid = MID[dur]
        if k == 'Table':
            entries = []
            for j, c in enumerate(chans):
                es = [[0, self.val(need if j == 0 else None)]]
                if r.random() < 0.5:
                    es.append([mid, self.val(), r.choice(INTERP)])
                es.append([dur, self.val(), r.choice(INTERP)] if r.random() < 0.8 else [dur, self.val()])
                entries.append([c, es])
            return self.add(dict(k='Table', id=ident, entries=entries, **self.extras(dur)), chans, True, dur)
        if k == 'Point':
            vec = len(chans) > 1 and r.random() < 0.5
            mk = (lambda nd=None: [self.val(nd) for _ in chans]) if vec else (lambda nd=None: self.val(nd))
            pts = [[0, mk(need) if not vec else [self.val(need)] + [self.val() for _ in chans[1:]]]]
            if r.random() < 0.5:
                pts.append([mid, mk(), r.choice(INTERP)])
            pts.append([dur, mk(), r.choice(INTERP)])
            return self.add(dict(k='Point', id=ident, points=pts, chans=list(chans), **self.extras(dur)), chans, True, dur)
        if k == 'Function':
            ex = self.val(need, t_ok=True)
            return self.add(dict(k='Function', id=ident, ex=ex, dur=dur, ch=chans[0], **self.extras(dur)), chans, True, dur)
        if k == 'Constant':
            amps = [[c, self.val(need if j == 0 else None)] for j, c in enumerate(chans)]
            name = r.choice([None, None, 'my_const'])
            return self.add(dict(k='Constant', id=ident, dur=dur, amps=amps, name=name, **self.extras(dur, cons=False)),
                            chans, True, dur)
        if k == 'AtomicMulti':
            cut = r.randint(1, len(chans) - 1)
            a = self.atomic(chans[:cut], dur, depth - 1, need)
            b = self.atomic(chans[cut:], dur, depth - 1)
            d = r.choice([None, None, dur, 'u'])
            if d is not None:
                self.flags.add('amc_duration')
            return self.add(dict(k='AtomicMulti', id=ident, subs=[a, b], dur=d, **self.extras(dur)), chans, True, dur)
        if k == 'ParAtomic':
            o = r.choice(chans)
            inner = self.atomic([c for c in chans if c != o], dur, depth - 1, need)
            return self.add(dict(k='Parallel', id=ident, tmpl=inner, over=[[o, self.val(t_ok=True)]]), chans, True, dur)
        if k == 'ArithmeticAtomic':
            a = self.atomic(chans, dur, depth - 1, need)
            sub_ch = chans if r.random() < 0.6 or len(chans) < 2 else chans[:1]
            b = self.atomic(sub_ch, dur, depth - 1)
            return self.add(dict(k='ArithmeticAtomic', id=ident, lhs=a, rhs=b, op=r.choice(['+', '-']),
                                 **self.extras(dur, cons=False)), chans, True, dur)
        if k == 'MapAtomic':
            return self.mapping(chans, depth, dur=dur, need=need, ident=ident)
        if k == 'ArithAtomic':
            inner = self.atomic(chans, dur, depth - 1, need)
            return self.arith(inner, chans, ident, True, dur)
        if k == 'RevAtomic':
            inner = self.atomic(chans, dur, depth - 1, need)
            return self.add(dict(k='TimeReversal', id=ident, inner=inner), chans, True, dur)
        raise ValueError(k)

    def arith(self, inner, chans, ident, atomic, dur):
        r = self.rng
        if r.random() < 0.4:
            sub = [c for c in chans if r.random() < 0.6] or [chans[0]]
            sc = {'map': [[c, self.val()] for c in sub]}
        else:
            sc = self.val(t_ok=atomic and r.random() < 0.3)
        if r.random() < 0.6:
            node = dict(k='Arithmetic', id=ident, lhs={'pt': inner}, op=r.choice(['+', '-', '*', '/']), rhs=sc)
        else:
            node = dict(k='Arithmetic', id=ident, lhs=sc, op=r.choice(['+', '-', '*']), rhs={'pt': inner})
        return self.add(node, chans, atomic, dur)

    def mapping(self, chans, depth, dur=None, need=None, ident=None):
        """MappingPT whose outer channels are `chans`; inner channels may be renamed / dropped"""
        r = self.rng
        inner_ch = list(chans)
        cmap = []
        mode = r.choice(['same', 'rename', 'drop', 'partial'])
        extra = 'Z' if not self.int_mode else r.choice(['Z', 9])
        if mode == 'rename':
            j = r.randrange(len(chans))
            inner_ch[j] = extra
            cmap.append([extra, chans[j]])
        elif mode == 'drop':
            inner_ch.append(extra)
            cmap.append([extra, None])
        elif mode == 'partial':
            cmap.append([chans[0], chans[0]])
        if dur is not None:
            inner = self.atomic(inner_ch, dur, depth - 1, need)
        else:
            inner = self.tree(inner_ch, depth - 1)
        obj = self.objs[inner]
        node = dict(k='Mapping', id=ident, tmpl=inner)
        if cmap or r.random() < 0.2:
            node['cmap'] = cmap
        params = sorted(p for p in obj.parameter_names)
        if params and r.random() < 0.6:
            chosen = r.sample(params, min(len(params), r.choice([1, 1, 2])))
            pm = []
            for p in chosen:
                if p == need:
                    pm.append([p, p])
                elif p in ('d', 'u'):
                    pm.append([p, r.choice(['d', 'u/2', 'd*1'])])
                elif p in ('n', 'k', 'i'):
                    pm.append([p, r.choice([p, 'n', 'n + 1', 2])])
                else:
                    pm.append([p, r.choice(['a', 'a+b', 'v*2', 0.5, p + '_ext', 'w', 3])])
            node['pmap'] = pm
        mnames = sorted(obj.measurement_names)
        if mnames and r.random() < (0.9 if self.numeric else 0.5):
            node['mmap'] = [[mnames[0], r.choice(['q', 'm', 'k2'])]]
        if r.random() < 0.15:
            node['parameter_constraints'] = [r.choice(CONSTRAINTS)]
        try:
            return self.add(node, chans, dur is not None, dur)
        except Exception:   # noqa   (e.g. two channels mapped to one target): fall back to the plain inner mapping
            node = dict(k='Mapping', id=ident, tmpl=inner, cmap=cmap)
            return self.add(node, chans, dur is not None, dur)

    # -- arbitrary templates on exactly `chans`
    def tree(self, chans, depth, force_id=False):
        r = self.rng
        chans = list(chans)
        if not force_id:
            p = self.pooled(chans)
            if p is not None:
                self.flags.add('shared')
                return p
        if depth <= 0:
            return self.atomic(chans, self.dur(), 0, force_id=force_id)
        kinds = ['atomic', 'atomic', 'Sequence', 'Sequence', 'Repetition', 'ForLoop', 'Mapping', 'Parallel',
                 'Arithmetic', 'TimeReversal']
        if self.abstract:
            kinds += ['Abstract', 'Abstract']
        k = r.choice(kinds)
        ident = self.maybe_id(force_id)
        if k == 'atomic':
            return self.atomic(chans, self.dur(), depth, force_id=force_id)
        if k == 'Sequence':
            subs = [self.tree(chans, depth - 1) for _ in range(r.choice([1, 2, 2, 3]))]
            return self.add(dict(k='Sequence', id=ident, subs=subs, **self.extras('d')), chans, False, None)
        if k == 'Repetition':
            body = self.tree(chans, depth - 1)
            return self.add(dict(k='Repetition', id=ident, body=body, count=r.choice(COUNTS), **self.extras('d')),
                            chans, False, None)
        if k == 'ForLoop':
            body = self.atomic(chans, self.dur(), depth - 1, need='i')
            if r.random() < 0.4:
                other = self.tree(chans, depth - 1)
                body = self.add(dict(k='Sequence', id=self.maybe_id(), subs=[body, other]), chans, False, None)
            return self.add(dict(k='ForLoop', id=ident, body=body, idx='i', rng=r.choice(RANGES), **self.extras('d')),
                            chans, False, None)
        if k == 'Mapping':
            return self.mapping(chans, depth, ident=ident)
        if k == 'Parallel':
            if len(chans) >= 2 and r.random() < 0.6:
                o = r.choice(chans)
                inner = self.tree([c for c in chans if c != o], depth - 1)
            else:
                o = r.choice(chans)
                inner = self.tree(chans, depth - 1)
            return self.add(dict(k='Parallel', id=ident, tmpl=inner, over=[[o, self.val()]]), chans, False, None)
        if k == 'Arithmetic':
            inner = self.tree(chans, depth - 1)
            return self.arith(inner, chans, ident, False, None)
        if k == 'TimeReversal':
            inner = self.tree(chans, depth - 1)
            return self.add(dict(k='TimeReversal', id=ident, inner=inner), chans, False, None)
        if k == 'Abstract':
            node = dict(k='Abstract', id=ident or self.fresh_id(), defined_channels=list(chans))
            if r.random() < 0.6:
                node['parameter_names'] = r.sample(['a', 'b', 'd', 'n'], 2)
            if r.random() < 0.4:
                node['measurement_names'] = ['m']
            if r.random() < 0.5:
                node['integral'] = [[c, self.val()] for c in chans]
                self.flags.add('abstract_integral')
            if r.random() < 0.6:
                node['duration'] = r.choice(['d', 4, 'a+b'])
            return self.add(node, chans, False, None)
        raise ValueError(k)


def gen_store_case(rng, idx, tier):
    int_mode = rng.random() < 0.14
    abstract = rng.random() < 0.08
    numeric = rng.random() < 0.12
    g = Gen(rng, int_mode=int_mode, p_named=rng.choice([0.15, 0.4, 0.4, 0.7]), abstract=abstract, numeric=numeric)
    if numeric:
        g.flags.add('numeric')
    if int_mode:
        pool = rng.choice([[0, 1], [0, 'A'], [1], [2, 0, 1]])
        g.flags.add('int_key')
    else:
        pool = rng.choice([['A'], ['A', 'B'], ['A', 'B'], ['A', 'B', 'C'], ['out']])
    depth = rng.choice([1, 2, 2, 3]) if tier == 'quick' else rng.choice([1, 2, 3, 3, 4])
    roots = [g.tree(pool, depth, force_id=True)]
    if rng.random() < 0.35:
        roots.append(g.tree(pool, rng.choice([1, 2]), force_id=True))
    named = [i for i, n in enumerate(g.nodes) if n.get('id') is not None and i not in roots]
    if named and rng.random() < 0.35:
        roots.append(rng.choice(named))
    # identifier clash between distinct objects (rare stream)
    if rng.random() < 0.06 and len(named) >= 1:
        victim = rng.choice(named)
        others = [i for i, n in enumerate(g.nodes) if i != victim and i not in roots and n.get('id') != g.nodes[victim]['id']]
        if others:
            o = rng.choice(others)
            g.nodes[o]['id'] = g.nodes[victim]['id']
            g.flags.add('dup_id')
    order = list(range(len(roots)))
    rng.shuffle(order)
    ops = [[1 if rng.random() < 0.1 else 0, k] for k in order]
    if rng.random() < 0.2:
        ops.append([1 if rng.random() < 0.2 else 0, rng.choice(order)])
    if any(w == 1 for w, _ in ops):
        g.flags.add('two_storages')
    return {'kind': 'store', 'nodes': g.nodes, 'roots': roots, 'ops': ops, 'backend': BACKENDS[idx % 3],
            'flags': sorted(g.flags)}


def _mutate_doc(x, rng, tag_of, applied):
    """spell a valid document differently: omit optional arguments that have their default value, use the short forms
    the constructors accept"""
    if isinstance(x, list):
        return [_mutate_doc(e, rng, tag_of, applied) for e in x]
    if not isinstance(x, dict):
        return x
    out = {}
    tag = tag_of.get(x.get('#type'), x.get('#type'))
    for k, v in x.items():
        if k == '#type':
            out[k] = tag
            continue
        if k in ('measurements', 'parameter_constraints') and v == [] and rng.random() < 0.7:
            applied.add('drop_empty' if rng.random() < 0.7 else 'null_list')
            if 'null_list' in applied and rng.random() < 0.5:
                out[k] = None
            continue
        if tag == 'Constant' and k == 'name' and v == 'constant_pulse' and rng.random() < 0.7:
            applied.add('drop_name')
            continue
        if tag == 'Function' and k == 'channel' and v == 'default' and rng.random() < 0.7:
            applied.add('drop_channel')
            continue
        if tag == 'ForLoop' and k == 'loop_range' and isinstance(v, list) and len(v) == 3 and v[2] == 1 and rng.random() < 0.8:
            applied.add('range_short')
            if v[0] == 0:
                out[k] = rng.choice([[v[1]], v[1], [0, v[1]]])
            else:
                out[k] = [v[0], v[1]]
            continue
        if k == 'entries' and isinstance(v, dict):
            out[k] = {c: [_mut_entry(e, rng, applied) for e in es] for c, es in v.items()}
            continue
        if k == 'time_point_tuple_list' and isinstance(v, list):
            out[k] = [_mut_entry(e, rng, applied) for e in v]
            continue
        out[k] = _mutate_doc(v, rng, tag_of, applied)
    return out


def _mut_entry(e, rng, applied):
    if isinstance(e, list) and len(e) == 3 and e[2] == 'hold':
        r = rng.random()
        if r < 0.4:
            applied.add('short_entry')
            return e[:2]
        if r < 0.7:
            applied.add('interp_default')
            return [e[0], e[1], 'default']
    return e


def gen_doc_case(rng, store_case):
    """documents produced by the implementation for a clean store case, re-spelled"""
    import json
    from qupulse.serialization import PulseStorage, DictBackend
    from props import c10
    tag_of = c10._tag_of_type()
    objs = build(store_case['nodes'])
    root = objs[store_case['roots'][0]]
    b = DictBackend()
    with warnings.catch_warnings():
        warnings.simplefilter('ignore')
        PulseStorage(b)[root.identifier] = root
    applied = set()
    docs = {k: _mutate_doc(json.loads(b[k]), rng, tag_of, applied) for k in sorted(b)}
    return {'kind': 'doc', 'docs': docs, 'load': root.identifier, 'mut': '+'.join(sorted(applied)) or 'none'}


SHAPES = [
    # shared leaf below two different parents
    [dict(k='Constant', dur='d', amps=[['A', 'a']], measurements=[['m', 0, 'd']]),
     dict(k='Repetition', body=0, count='n'), dict(k='TimeReversal', inner=0), dict(k='Sequence', subs=[1, 2, 0])],
    # mapping over a table inside a loop
    [dict(k='Table', entries=[['A', [[0, 'i'], ['d', 'v', 'linear']]]]),
     dict(k='Mapping', tmpl=0, pmap=[['v', 'w*2']], cmap=[['A', 'B']]),
     dict(k='ForLoop', body=1, idx='i', rng=[0, 'n', 1]), dict(k='Arithmetic', lhs={'pt': 2}, op='*', rhs='a')],
    # atomic composition
    [dict(k='Function', ex='a*t', dur=4, ch='A'), dict(k='Point', points=[[0, 'v'], [4, 1, 'linear']], chans=['B']),
     dict(k='AtomicMulti', subs=[0, 1], dur=4), dict(k='Parallel', tmpl=2, over=[['C', 'x']])],
]


def exhaustive_cases(tier):
    """every subset of identifiers on fixed 4-node shapes (root always named); thorough: all backends and both the
    root-only and the children-first store histories"""
    import copy
    out = []
    n = 0
    for si, shape in enumerate(SHAPES):
        for mask in range(8):
            nodes = copy.deepcopy(shape)
            for j in range(3):
                nodes[j]['id'] = ('e%d' % j) if mask >> j & 1 else None
            nodes[3]['id'] = 'root'
            named = [j for j in range(3) if mask >> j & 1]
            histories = [([3], [[0, 0]])]
            if tier != 'quick' and named:
                histories.append(([3] + named, [[0, k + 1] for k in range(len(named))] + [[0, 0]]))
            for roots, ops in histories:
                for b in (BACKENDS if tier != 'quick' else [BACKENDS[n % 3]]):
                    n += 1
                    out.append({'kind': 'store', 'nodes': copy.deepcopy(nodes), 'roots': roots, 'ops': ops, 'backend': b,
                                'flags': ['exhaustive']})
    return out


def gen_cases(rng, tier, n_store=None, n_doc=None):
    if n_store is None:
        n_store = 300 if tier == 'quick' else 3000
    cases = []
    tries = 0
    while len(cases) < n_store and tries < n_store * 4:
        tries += 1
        try:
            cases.append(gen_store_case(rng, len(cases), tier))
        except Exception:   # noqa  generator produced an invalid template (rejected by a constructor): skip
            continue
    if n_doc is None:
        n_doc = 90 if tier == 'quick' else 800
    docs = []
    for c in cases:
        if len(docs) >= n_doc:
            break
        if {'int_key', 'dup_id'} & set(c['flags']):
            continue
        try:
            docs.append(gen_doc_case(rng, c))
        except Exception:   # noqa
            continue
    return cases + docs + (exhaustive_cases(tier) if n_doc != 0 else [])
