"""C06 — translator step for qupulse.utils.numeric.smallest_factor_ge (the brute-force probe loop).

`pregen(ctx)` rewrites coq/C06/Gen_sfg.v from the tree under test (vlib.REPO, i.e. $VERIF_REPO or /repo) with the
fail-closed translator /verif/translate/py2gallina_c06.py.  coq/C06/Proofs_sfg.v proves the generated definition equal
to the hand-written model `Model.smallest_factor_ge` (for every fall-back function that meets the fall-back's contract)
and the probe loop correct; a change of the Python source either makes the translator refuse (obligation below not ok)
or changes the generated text so that Proofs_sfg.v no longer compiles.

Return convention as C20's pregen: a list of {'name', 'ok', 'detail'}.
"""
import os
import sys

import vlib

SRC_REL = 'qupulse/utils/numeric.py'
FUNC = 'smallest_factor_ge'
GEN_FILE = os.path.join(vlib.COQ, 'C06', 'Gen_sfg.v')
OBLIGATION = 'translate:%s::%s' % (SRC_REL, FUNC)
# Coq targets that depend on the generated file (to be listed in / reachable from TARGETS of c06.py)
SFG_TARGETS = ['C06/Proofs_sfg.vo']


def pregen(ctx):
    tdir = os.path.join(vlib.VERIF, 'translate')
    if tdir not in sys.path:
        sys.path.insert(0, tdir)
    import py2gallina_c06
    try:
        txt = py2gallina_c06.translate_function(os.path.join(vlib.REPO, SRC_REL), FUNC)
        txt = txt.replace(vlib.REPO, '/repo')       # the text must not depend on where the tree under test lives
        vlib.write_if_changed(GEN_FILE, txt + '\n')
        return [{'name': OBLIGATION, 'ok': True, 'detail': 'translated'}]
    except Exception as e:   # Unsupported, SyntaxError, OSError ...
        return [{'name': OBLIGATION, 'ok': False,
                 'detail': 'translator refused the current source: %s: %s' % (type(e).__name__, e)}]
