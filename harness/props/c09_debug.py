"""Development aid: show where the C09 model and the implementation first disagree on a case / replay file.
usage: /venv/bin/python harness/props/c09_debug.py <replay-or-case.json>"""
import json, os, sys
sys.path.insert(0, os.environ.get('VERIF_REPO', '/repo')); sys.path.insert(0, '/verif/harness'); sys.path.insert(0, '/verif/harness/props')
import vlib, c09


def main(path):
    rp = json.load(open(path))
    case = rp.get('case', rp)
    obs = c09.run_impl(case)
    term = c09.to_coq(case, obs)
    wd = os.path.join(vlib.BUILD, 'c09dbg.%d' % os.getpid())
    try:
        out = vlib.coq_eval(wd, ['QV.C09.Model', 'QV.C09.Corr'], 'debug_case %s' % term)
    finally:
        vlib.rmtree(wd)
    print('py_spec:', c09.py_spec(case, obs))
    print('MODEL at first bad step:\n', out[:6000])
    import re
    m = re.search(r'Some\s*\(\s*(\d+)', out)
    if m:
        i = int(m.group(1))
        s = obs['steps'][i]
        print('IMPL step', i, json.dumps(s['op']), s['out'], s['eq'])
        print(c09.g_otree(s['tree']))
        if i:
            print('PREV', json.dumps(obs['steps'][i - 1]['op']))
            print(c09.g_otree(obs['steps'][i - 1]['tree']))


if __name__ == '__main__':
    main(sys.argv[1])
