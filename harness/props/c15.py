"""C15 — updating volatile parameters equals re-instantiating with the new values."""
import itertools
import os
import sys
import warnings

import vlib
from vlib import gZ, gbool, glist, gnat

PID = 'C15'
COQ_DIRS = ['common', 'C15']
TARGETS = ['C15/Props.vo', 'C15/Corr.vo']
MODEL_TARGETS = ['C15/Corr.vo']
PROPS_FILE = 'C15/Props.v'
PROPS_MODULE = 'QV.C15.Props'
CORR_IMPORTS = ['QV.C15.Model', 'QV.C15.Spec', 'QV.C15.ModelQ', 'QV.C15.ModelMC', 'QV.C15.ModelF', 'QV.C15.Corr']
CHECK_CORR = 'check_corr'
CHECK_SPEC = 'check_spec'
SHARD = 60
RULE = ('templates: random trees over atoms (5 distinct waveforms), sequences, repetitions whose count is an integer '
        'polynomial over 1-2 parameters (x, x*y, 2*x+1, x*y-y+1 ...), optionally with a measurement, and parameter '
        'mappings (renaming / multiplying / shadowing / self-referential, 35 % of them NAMED so that the MappedScopes '
        'stack instead of being merged at construction); every subset choice of volatile parameters incl. none/all; '
        '1-3 successive updates (values 0..4 on purpose incl. 0 and 1, rarely negative; malformed stream: updates of '
        'non-volatile or unknown names, missing parameters); 25 % of the cases hand the update values over as '
        'numpy.int64/int32, float, numpy.float64 or TimeType; 25 % build the template once with structurally equal '
        'sub-templates as the SAME object and re-use it for every fresh instantiation.  Pipelines: none / cleanup / '
        'flatten_and_balance(0..3) / TaborProgram (mode None|SINGLE|ADVANCED, min_seq_len 1..4, max_seq_len 3..8, '
        'optional cleanup first).  Seven deterministic boundary families (the same shapes for every seed, x pipelines): '
        'zero_mid (parameter updated to 0 in the middle of a sequence while the count n+2 / 2n+1 / (m+1)*n / mapped '
        'offset stays positive), vol_neighbour_one (Tabor: volatile table whose count is exactly 1 or 2 at '
        'instantiation next to a fixed table shorter than min_seq_len, on either / both sides; volatile root), '
        'named_maps (count reaches the volatile parameter through 2-3 stacked MappedScopes, same name rebound on '
        'both levels), shared_before (Tabor: de-duplicated identical sequencer tables before the table with the '
        'volatile entry, the volatile table itself repeated), same_param_twice (one volatile parameter in sibling / '
        'nested counts, swap mapping {n: m, m: n}, n -> 2*n), internal_names (template parameters called '
        'parent_repetition_count / child_repetition_count), vol_fixed_twin (tables identical except that a count is '
        'volatile in one and a fixed number of the same value in the other; a volatile count exactly 1 on a loop '
        'that has to be unrolled).  Plus a stream of single volatile counts updated with '
        'dyadic non-integer values, a make_compatible stream (atoms of 96/192/384/576 samples, minimal waveform '
        'length 96..576, quantum 16/32/64/192; modelled in Coq) and a small duration stream (Loop.duration of the '
        'root after every update vs. a fresh instantiation; Python oracle, not modelled).  Round 4: family split_mixed '
        '(Tabor: ONE too short, non-mergeable sequencer table whose entries are every word of length 1..3 over {fixed '
        'repeated, volatile repeated, plain} with at least one volatile entry, min_seq_len = length + 1 / + 2, table '
        'count 1/2/3, alone / after / between full tables, cleanup or not: reaches _check_partial_unroll / '
        'Loop.split_one_child incl. the fall-back to a volatile entry), a float stream (kind float: ONE volatile count '
        'given as quotient / product / sum of DECIMAL parameter values - x/y, x*y, 100*x, x/y+1, x*z/y, (x+z)/y, x/y-z, '
        '2*x/y, also through a MappingPT - evaluated in binary64 as float or numpy.float64 or exactly as TimeType; '
        'values K*p/p for 14 decimal periods p so that the float result is just below, just above or exactly the '
        'integer K, the tolerance window K +- d for d around 1e-6, ties; also inexact at instantiation; observed: count '
        'and "no integer" warning after every update, count of a fresh instantiation, advanced + sequencer table '
        'after update_volatile_parameters vs. a fresh compilation), families for_loop (volatile counts inside a '
        'ForLoopPT: the model sees the unrolled sequence of index bindings; index called like a volatile parameter), '
        'meas_merge (measurements on a repetition and on its count-1 child), too_long (tables longer than max_seq_len '
        'in SINGLE / ADVANCED mode), pipeline cleanup(actions=(merge_single_child,)).  Round 5: family deep_merge (single-child chains of three / four nested repetitions with volatile counts, so that merged counts are merged again: inner parameters updated first, one level fixed / not volatile / mapped / the same parameter / parameters named like the merge operands; x cleanup, flatten, Tabor).  Thorough adds the full pipeline grids of the '
        'families and the exhaustive enumeration of all templates with <= 3 composite nodes (4 composite nodes over a '
        'further reduced alphabet) x all volatile subsets.  Non-trivial = some repetition count is volatile and some '
        'update changes its value.')
TRUSTED = [
    'Coq 8.16.1 kernel + vm_compute',
    'sympy: parsing/evaluation of the integer polynomial count expressions and its structural equality (used by the '
    'de-duplication of sequencer tables; the model compares polynomial normal forms, exact on the generated class); '
    'float stream: sympy prints the count expression as the Python operation tree the generator lists (checked by '
    'correspondence on every case), CPython / numpy binary64 arithmetic is IEEE-754 round-to-nearest-even',
    'harness: generators, observation of Loop trees / Tabor tables through repetition_count, volatile_repetition, '
    'get_sequencer_tables, get_advanced_sequencer_table, _parsed_program.volatile_parameter_positions',
    'waveform sampling/quantisation is not part of this property (atoms are constant waveforms of 192 samples; in the '
    'make_compatible stream 96/192/384/576 samples, a concatenated waveform is read back as the list of atoms it plays)',
]
ASSUMPTIONS = [
    'count expressions of the tree / Tabor / make_compatible streams are integer polynomials; non-integer parameter '
    'values in the rational stream (dyadic values, exact) and in the float stream (decimal values; binary64 rounding '
    'of every operation and the 1e-6 tolerance of is_integer / checked_int_cast ARE modelled, ModelF.v; normal range '
    'only: no overflow / subnormals; mixed float-TimeType arithmetic and numpy.float32 are outside the model)',
    'counts <= 64 (model bound for unrolling); measurements are modelled as a has-measurement flag only',
    'make_compatible: sample rate 1 and integer atom lengths (incompatible_fraction does not occur); to_waveform of a '
    'count-0 loop is outside the generated class (such loops are dropped at instantiation)',
    'the instrument upload path (hardware/awgs/tabor.py) is not importable offline and not covered',
]

NAMES = ['n', 'm', 'k', 'x', 'y', 'z']
NAME_ID = {n: i + 1 for i, n in enumerate(NAMES)}
NAME_ID['parent_repetition_count'] = 1000001
NAME_ID['child_repetition_count'] = 1000002
N_ATOMS = 5
AMPS = [i / 8 for i in range(N_ATOMS)]
CDUR = [192, 384, 96, 192, 576]      # atom lengths of the make_compatible stream (= AL in Corr.v)


# ---------------------------------------------------------------------------------------------------------------------
# expressions: JSON AST  ['c', 3] | ['v', 'n'] | ['+', a, b] | ['-', a, b] | ['*', a, b]
def e_str(e):
    k = e[0]
    if k == 'c':
        return str(e[1]) if e[1] >= 0 else '(%d)' % e[1]
    if k == 'v':
        return e[1]
    return '(%s %s %s)' % (e_str(e[1]), k, e_str(e[2]))


def e_vars(e):
    if e[0] == 'c':
        return []
    if e[0] == 'v':
        return [e[1]]
    return e_vars(e[1]) + e_vars(e[2])


def e_eval(e, env):
    k = e[0]
    if k == 'c':
        return e[1]
    if k == 'v':
        return env(e[1])
    a, b = e_eval(e[1], env), e_eval(e[2], env)
    return a + b if k == '+' else a - b if k == '-' else a * b


def e_coq(e):
    k = e[0]
    if k == 'c':
        return '(EConst %s)' % gZ(e[1])
    if k == 'v':
        return '(EVar %d%%N)' % NAME_ID[e[1]]
    return '(%s %s %s)' % ({'+': 'EAdd', '-': 'ESub', '*': 'EMul'}[k], e_coq(e[1]), e_coq(e[2]))


def V_(x):
    return ['v', x]


def C_(c):
    return ['c', c]


def expr_pool(rng, names):
    """an expression in expanded form over 1-2 distinct names (so that sympy keeps exactly these variables)"""
    x = rng.choice(names)
    others = [n for n in names if n != x]
    y = rng.choice(others) if others else None
    r = rng.random()
    if r < 0.30 or y is None and r < 0.6:
        return V_(x)
    if r < 0.40:
        return ['*', C_(2), V_(x)]
    if r < 0.50:
        return ['+', V_(x), C_(1)]
    if r < 0.56:
        return ['-', V_(x), C_(1)]
    if r < 0.62:
        return C_(rng.choice([1, 2, 3]))
    if y is None:
        return ['+', ['*', C_(2), V_(x)], C_(1)]
    if r < 0.74:
        return ['*', V_(x), V_(y)]
    if r < 0.84:
        return ['+', V_(x), V_(y)]
    if r < 0.92:
        return ['+', ['-', ['*', V_(x), V_(y)], V_(y)], C_(1)]      # x*y - y + 1: equals 1 at x = 1 for every y
    return ['-', ['+', V_(x), V_(y)], C_(1)]


# ---------------------------------------------------------------------------------------------------------------------
# templates: ['atom', w] | ['seq', [..]] | ['rep', expr, meas, body] | ['map', [[name, expr], ..], body]
def desugar1(p):
    """['for', index, k, body] (ForLoopPT over range(k)) = the sequence of the k bodies with the index bound to 0..k-1;
    this is what the Coq model and the reference walks see"""
    return ['seq', [['map', [[p[1], ['c', j]]], p[3]] for j in range(p[2])]]


def pt_free(p):
    k = p[0]
    if k == 'atom':
        return set()
    if k == 'for':
        return pt_free(p[3]) - {p[1]}
    if k == 'seq':
        return set().union(*[pt_free(q) for q in p[1]]) if p[1] else set()
    if k == 'rep':
        return set(e_vars(p[1])) | pt_free(p[3])
    inner = pt_free(p[2])
    mapped = {n for n, _ in p[1]}
    out = inner - mapped
    for n, e in p[1]:
        out |= set(e_vars(e))
    return out


def gen_pt(rng, depth, names):
    r = rng.random()
    if depth <= 0 or r < 0.18:
        return ['atom', rng.randrange(N_ATOMS)]
    if r < 0.42:
        return ['seq', [gen_pt(rng, depth - 1, names) for _ in range(rng.choice([2, 2, 3]))]]
    if r < 0.80:
        return ['rep', expr_pool(rng, names), rng.random() < 0.15, gen_pt(rng, depth - 1, names)]
    body = gen_pt(rng, depth - 1, names)
    free = sorted(pt_free(body))
    if not free:
        return body
    keys = [n for n in free if rng.random() < 0.6] or [rng.choice(free)]
    mp = [[n, expr_pool(rng, names)] for n in keys]
    # a named MappingPT is not merged into an enclosing MappingPT at construction: its MappedScope really stacks
    return ['map', mp, body, True] if rng.random() < 0.35 else ['map', mp, body]


def pt_coq(p):
    k = p[0]
    if k == 'for':
        return pt_coq(desugar1(p))
    if k == 'atom':
        return '(PAtom %d%%N)' % p[1]
    if k == 'seq':
        return '(PSeq %s)' % glist(pt_coq, p[1])
    if k == 'rep':
        return '(PRep %s %s %s)' % (e_coq(p[1]), gbool(p[2]), pt_coq(p[3]))
    return '(PMap %s %s)' % (glist(lambda ne: '(%d%%N, %s)' % (NAME_ID[ne[0]], e_coq(ne[1])), p[1]), pt_coq(p[2]))


def ref_inst(p, sigma, delta):
    """independent reference walk: list of (count, volatile?, children | waveform) ; used for sizing and classify"""
    k = p[0]
    if k == 'for':
        return ref_inst(desugar1(p), sigma, delta)
    if k == 'atom':
        return [(1, False, p[1])]
    if k == 'seq':
        out = []
        for q in p[1]:
            out += ref_inst(q, sigma, delta)
        return out
    if k == 'rep':
        v = e_eval(p[1], sigma)
        if v <= 0:
            return []
        ks = ref_inst(p[3], sigma, delta)
        return [(v, any(delta(x) for x in e_vars(p[1])), ks)] if ks else []
    mp = dict((n, e) for n, e in p[1])
    return ref_inst(p[2], lambda x: e_eval(mp[x], sigma) if x in mp else sigma(x),
                    lambda x: any(delta(y) for y in e_vars(mp[x])) if x in mp else delta(x))


def ref_size(nodes):
    tot, mx = 0, 0
    for c, _, ks in nodes:
        if isinstance(ks, int):
            tot += c
            mx = max(mx, c)
        else:
            t, m = ref_size(ks)
            tot += c * t
            mx = max(mx, c, m)
    return tot, mx


def ref_dropped_volatile(p, sigma, delta):
    """does the instantiation drop a repetition (count <= 0) whose count depends on a volatile parameter?"""
    k = p[0]
    if k == 'for':
        return ref_dropped_volatile(desugar1(p), sigma, delta)
    if k == 'atom':
        return False
    if k == 'seq':
        return any(ref_dropped_volatile(q, sigma, delta) for q in p[1])
    if k == 'rep':
        v = e_eval(p[1], sigma)
        if v <= 0:
            return any(delta(x) for x in e_vars(p[1]))
        return ref_dropped_volatile(p[3], sigma, delta)
    mp = dict((n, e) for n, e in p[1])
    return ref_dropped_volatile(p[2], lambda x: e_eval(mp[x], sigma) if x in mp else sigma(x),
                                lambda x: any(delta(y) for y in e_vars(mp[x])) if x in mp else delta(x))


def ref_negative_chain(p, sigma, delta, above=False):
    """is a volatile repetition with a negative raw count nested inside another such repetition?"""
    k = p[0]
    if k == 'for':
        return ref_negative_chain(desugar1(p), sigma, delta, above)
    if k == 'atom':
        return False
    if k == 'seq':
        return any(ref_negative_chain(q, sigma, delta, above) for q in p[1])
    if k == 'rep':
        neg = e_eval(p[1], sigma) < 0 and any(delta(x) for x in e_vars(p[1]))
        if neg and above:
            return True
        return ref_negative_chain(p[3], sigma, delta, above or neg)
    mp = dict((n, e) for n, e in p[1])
    return ref_negative_chain(p[2], lambda x: e_eval(mp[x], sigma) if x in mp else sigma(x),
                              lambda x: any(delta(y) for y in e_vars(mp[x])) if x in mp else delta(x), above)


def env_fn(vals):
    def f(x):
        if x not in vals:
            raise KeyError(x)
        return vals[x]
    return f


def sizes_ok(p, vals, V, ups):
    cur = dict(vals)
    seq = [dict(cur)]
    for us in ups:
        for k2, v in us.items():
            if k2 in cur:
                cur[k2] = v
        seq.append(dict(cur))
    for vs in seq:
        try:
            tot, mx = ref_size(ref_inst(p, env_fn(vs), lambda x: x in V))
        except KeyError:
            return True
        if tot > 60 or mx > 9:
            return False
    return True


# ---------------------------------------------------------------------------------------------------------------------
def gen_updates(rng, vals, V, malformed=False):
    ups = []
    names = sorted(V & set(vals)) or sorted(vals)
    for _ in range(rng.choice([1, 2, 2, 3])):
        us = {}
        for _ in range(rng.choice([1, 1, 2])):
            if not names:
                break
            us[rng.choice(names)] = rng.choice([0, 1, 1, 2, 3, 4, -1, -1, -2] if rng.random() < 0.25 else [1, 2, 3, 4])
        if malformed and rng.random() < 0.6:
            nv = sorted(set(vals) - V)
            us[rng.choice(nv) if nv and rng.random() < 0.7 else 'z'] = rng.choice([1, 2, 3])
        ups.append(us)
    return ups


def gen_tabor_shaped(rng, names):
    """sequence of repeated blocks whose entries are atoms / repeated atoms: lands in advanced sequence mode with
    volatile counts on both table levels, identical blocks (shared sequencer tables) on purpose"""
    import copy
    blocks = []
    for _ in range(rng.choice([1, 2, 2, 3, 3, 4])):
        if blocks and rng.random() < 0.35:
            blk = copy.deepcopy(rng.choice(blocks))
            fr = sorted(pt_free(blk))
            if fr and rng.random() < 0.5:
                blk = ['map', [[rng.choice(fr), rng.choice([C_(1), C_(2), C_(3), V_(rng.choice(names))])]], blk]
        else:
            entries = []
            for _ in range(rng.choice([1, 2, 2, 3])):
                a = ['atom', rng.randrange(N_ATOMS)]
                entries.append(['rep', expr_pool(rng, names), False, a] if rng.random() < 0.5 else a)
            body = ['seq', entries] if len(entries) > 1 else entries[0]
            blk = ['rep', expr_pool(rng, names) if rng.random() < 0.7 else C_(rng.choice([1, 2, 3])), False, body]
        blocks.append(blk)
    return ['seq', blocks] if len(blocks) > 1 else blocks[0]


def gen_one(rng, kind, depth):
    for _ in range(200):
        names = rng.sample(NAMES[:5], rng.choice([2, 3, 3, 4]))
        if kind == 'tabor' and rng.random() < 0.55:
            p = gen_tabor_shaped(rng, names)
        else:
            p = gen_pt(rng, depth, names)
        if p[0] == 'atom':
            continue
        free = sorted(pt_free(p))
        vals = {n: rng.choice([1, 1, 2, 2, 3]) for n in free}
        if rng.random() < 0.06 and free:
            vals[rng.choice(free)] = 0
        r = rng.random()
        if r < 0.1:
            V = set()
        elif r < 0.3:
            V = set(free)
        else:
            V = {n for n in free if rng.random() < 0.5}
        malformed = rng.random() < 0.08
        ups = gen_updates(rng, vals, V, malformed)
        if malformed and rng.random() < 0.3 and vals:
            del vals[rng.choice(sorted(vals))]
        if not sizes_ok(p, vals, V, ups):
            continue
        case = {'kind': kind, 'pt': p, 'vals': vals, 'V': sorted(V), 'ups': ups}
        if rng.random() < 0.25:
            case['vt'] = rng.choice(VTS[2:])
        if rng.random() < 0.25:
            case['alias'] = True
        if kind == 'tree':
            case['pl'] = rng.choice(['none', 'none', 'cleanup', 'cleanup', 'flat0', 'flat1', 'flat2', 'flat2', 'flat3'])
        else:
            case['cl'] = rng.random() < 0.4
            case['mode'] = rng.choice([None, None, None, 'single', 'advanced'])
            case['mn'] = rng.choice([1, 1, 2, 2, 3, 4])
            case['mx'] = rng.choice([3, 4, 5, 6, 8])
        return case
    raise RuntimeError('generator could not produce a case')



# ---------------------------------------------------------------------------------------------------------------------
# boundary families (round 3): input classes the random grammar reaches only by luck.  Every family is a fixed list of
# template shapes (deterministic for every seed) x pipelines; rng only varies atoms, value types and aliasing.
def A_(i):
    return ['atom', i % N_ATOMS]


def R_(e, body, meas=False):
    return ['rep', e, meas, body]


def S_(*l):
    return ['seq', list(l)]


def M_(mp, body, named=False):
    return ['map', [[n, e] for n, e in mp], body, True] if named else ['map', [[n, e] for n, e in mp], body]


def add_(a, b):
    return ['+', a, b]


def mul_(a, b):
    return ['*', a, b]


JPN, JCN = 'parent_repetition_count', 'child_repetition_count'
VTS = ['int', 'int', 'np', 'float', 'tt', 'npf', 'np32']
TREE_PLS = ['none', 'cleanup', 'flat1', 'flat2']


def fam_zero_mid():
    """a volatile parameter is updated to the boundary value 0 in the middle of a sequence of updates while the count
    that depends on it stays positive (count n+2, 2n+1, (m+1)*n after merging, a mapped offset)"""
    n, m, k = V_('n'), V_('m'), V_('k')
    seqs = [[{'n': 4}, {'n': 0}, {'n': 1}, {'n': 0}], [{'n': 0}], [{'n': 0}, {'n': 0}], [{'n': 3}, {}, {'n': 0}, {'n': 3}]]
    out = []
    shapes = [
        (R_(add_(n, C_(2)), A_(0)), {'n': 2}, ['n'], 'n'),
        (R_(add_(n, C_(1)), S_(A_(0), A_(1))), {'n': 2}, ['n'], 'n'),
        (R_(n, R_(add_(m, C_(1)), A_(0))), {'n': 2, 'm': 1}, ['n', 'm'], 'm'),
        (R_(add_(m, C_(1)), R_(n, A_(0))), {'n': 2, 'm': 1}, ['m'], 'm'),
        (M_([('k', add_(n, C_(1)))], R_(k, A_(0))), {'n': 2}, ['n'], 'n'),
        (M_([('k', add_(n, C_(1)))], R_(k, S_(A_(0), A_(2))), True), {'n': 2}, ['n'], 'n'),
        (S_(R_(add_(mul_(C_(2), n), C_(1)), A_(0)), R_(add_(n, m), A_(1))), {'n': 1, 'm': 1}, ['n'], 'n'),
        (R_(C_(2), S_(R_(add_(n, C_(1)), A_(0)), A_(1))), {'n': 1}, ['n'], 'n'),
        (S_(R_(add_(n, C_(1)), S_(A_(0), A_(1))), R_(C_(2), S_(A_(2), A_(3)))), {'n': 2}, ['n'], 'n'),
        (S_(R_(C_(2), S_(R_(add_(n, C_(2)), A_(0)), A_(1))), R_(add_(n, C_(1)), S_(A_(1), A_(0)))), {'n': 1}, ['n'], 'n'),
    ]
    for i, (pt, vals, V, var) in enumerate(shapes):
        for j, sq in enumerate(seqs):
            if (i + j) % 2 and j > 1:
                continue
            ups = [{var: list(us.values())[0]} if us else {} for us in sq]
            out.append((pt, vals, V, ups))
    return out


def fam_vol_neighbour_one():
    """Tabor, advanced mode: a sequencer table with a volatile count that is exactly 1 (or 2) at instantiation next
    to a fixed table shorter than min_seq_len; the short table first / last / on both sides; also the volatile table
    itself too short, and a volatile root"""
    n, m = V_('n'), V_('m')
    lefts = [[R_(C_(2), A_(0)), A_(1)], [A_(0), A_(1)], [R_(C_(3), A_(0))], [A_(4)], [R_(C_(2), S_(A_(0), A_(1)))]]
    exprs = [n, mul_(n, m), ['-', mul_(C_(2), n), C_(1)], add_(['-', mul_(n, m), m], C_(1))]
    out = []
    for li, left in enumerate(lefts):
        for vlen in (1, 2, 3):
            e = exprs[(li + vlen) % len(exprs)]
            vb = R_(e, S_(*[A_(2 + q) for q in range(vlen)]) if vlen > 1 else A_(2))
            for order in ('LV', 'VL', 'LVL', 'VLV'):
                if order == 'LV':
                    blocks = left + [vb]
                elif order == 'VL':
                    blocks = [vb] + left
                elif order == 'LVL':
                    blocks = left + [vb] + left
                else:
                    blocks = [vb] + left + [R_(add_(n, C_(1)), S_(A_(3), A_(1), A_(0)))]
                for n0 in (1, 2):
                    if n0 == 2 and (li + vlen) % 2:
                        continue
                    out.append((S_(*blocks), {'n': n0, 'm': 1}, ['n'], [{'n': 3}, {'n': 1}]))
    for vlen in (1, 2, 3):       # volatile root
        out.append((R_(n, S_(*[A_(q) for q in range(vlen)]) if vlen > 1 else A_(0)), {'n': 1}, ['n'], [{'n': 3}, {'n': 1}]))
        out.append((R_(n, R_(C_(2), S_(*[A_(q) for q in range(vlen + 1)]))), {'n': 1}, ['n'], [{'n': 2}]))
    return out


def fam_named_maps():
    """the count reaches the volatile parameter through two or three STACKED MappedScopes (inner MappingPT named, so
    the mappings are not collapsed at construction)"""
    n, k, x, y = V_('n'), V_('k'), V_('x'), V_('y')
    inner = lambda body, nm=True: M_([('n', add_(k, C_(1)))], body, nm)
    out = []
    bodies = [R_(n, A_(0)), R_(n, S_(A_(0), A_(1))), S_(R_(n, A_(0)), R_(add_(n, C_(1)), A_(1))), R_(C_(2), S_(R_(n, A_(0)), A_(1))),
              R_(n, R_(x, A_(2)))]
    for b in bodies:
        for nm_in, nm_out in ((True, False), (True, True), (False, True)):
            pt = M_([('k', mul_(C_(2), x))], inner(b, nm_in), nm_out)
            out.append((pt, {'x': 1}, ['x'], [{'x': 2}, {'x': 3}, {'x': 1}]))
        pt3 = M_([('x', add_(y, C_(1)))], M_([('k', mul_(C_(2), x))], inner(b), True), True)
        out.append((pt3, {'y': 1}, ['y'], [{'y': 2}, {'y': 0}]))
        # the same name rebound on both levels: n -> n + 1 inside n -> 2*n
        pt4 = M_([('n', mul_(C_(2), n))], M_([('n', add_(n, C_(1)))], b if b[0] != 'rep' or b[3][0] != 'rep' else bodies[0], True))
        out.append((pt4, {'n': 1}, ['n'], [{'n': 2}, {'n': 1}]))
    return out


def fam_shared_before():
    """Tabor, advanced mode: identical (de-duplicated) sequencer tables BEFORE the table that holds a volatile entry,
    so that advanced-sequencer index != sequencer-table index; also the volatile table itself repeated"""
    n = V_('n')
    B = R_(C_(2), S_(A_(0), A_(1)))
    B2 = R_(C_(3), S_(A_(1), A_(0)))
    Vt = R_(C_(2), S_(R_(n, A_(2)), A_(3)))
    Vt2 = R_(C_(2), S_(A_(3), R_(add_(n, C_(1)), A_(2))))
    Va = R_(n, S_(A_(2), A_(4)))
    T = R_(C_(3), S_(A_(3), A_(4)))
    shapes = [[B, B, Vt], [B, B, Vt, T], [B, B2, B, Vt, T], [B, B, B, Vt, Vt, T], [Vt, B, B, Vt], [B, B, Vt, Vt2, T],
              [B, B, Va, T], [B, B, Va, Vt, B], [B, B2, B2, B, Vt2, T], [T, T, T, Vt], [B, B, R_(C_(1), S_(R_(n, A_(2)), A_(3))), T]]
    out = []
    for sh in shapes:
        for n0, ups in ((1, [{'n': 3}]), (2, [{'n': 4}, {'n': 1}])):
            out.append((S_(*sh), {'n': n0}, ['n'], ups))
    return out


def fam_same_param_twice():
    """the same volatile parameter in two counts (siblings, nested -> merged product, under a mapping that rebinds the
    name to an expression of itself, under a swap mapping)"""
    n, m = V_('n'), V_('m')
    out = []
    shapes = [
        (S_(R_(n, A_(0)), R_(add_(n, C_(1)), A_(1))), {'n': 2}, ['n']),
        (R_(n, R_(n, A_(0))), {'n': 2}, ['n']),
        (R_(n, S_(R_(mul_(C_(2), n), A_(0)), A_(1))), {'n': 1}, ['n']),
        (S_(R_(n, A_(0)), M_([('n', add_(n, C_(1)))], R_(n, A_(1)))), {'n': 1}, ['n']),
        (S_(R_(n, A_(0)), M_([('n', add_(n, C_(1)))], R_(n, A_(1)), True)), {'n': 1}, ['n']),
        (M_([('n', mul_(C_(2), n))], R_(n, A_(0))), {'n': 1}, ['n']),
        (M_([('n', m), ('m', n)], S_(R_(n, A_(0)), R_(m, A_(1)))), {'n': 1, 'm': 2}, ['n']),
        (M_([('n', m), ('m', n)], R_(n, R_(m, A_(1))), True), {'n': 1, 'm': 2}, ['m']),
        (M_([('n', m), ('m', n)], R_(n, R_(m, A_(1)))), {'n': 1, 'm': 2}, ['n', 'm']),
        (R_(C_(2), S_(R_(n, A_(0)), R_(n, A_(1)), R_(n, A_(0)))), {'n': 1}, ['n']),
        (S_(R_(n, S_(A_(0), A_(1))), R_(n, S_(A_(0), A_(1))), R_(C_(2), S_(R_(n, A_(2)), A_(3)))), {'n': 2}, ['n']),
    ]
    for pt, vals, V in shapes:
        v = V[0]
        out.append((pt, vals, V, [{v: 3}, {v: 1}]))
        out.append((pt, vals, V, [{v: 2}, {v: 2}, {v: 0}]))
    return out


def fam_internal_names():
    """template parameters that are called like the operand names Loop._merge_single_child uses internally"""
    P, C = V_(JPN), V_(JCN)
    out = []
    for outer, inner_ in ((P, C), (C, P), (P, P), (C, C), (mul_(P, C), C), (C, add_(P, C))):
        for V in ([JPN], [JCN], [JPN, JCN]):
            pt = R_(outer, R_(inner_, A_(0)))
            used = sorted(set(e_vars(outer) + e_vars(inner_)))
            Vv = [v for v in V if v in used]
            if not Vv:
                continue
            out.append((pt, {u: 1 + (u == JCN) for u in used}, Vv, [{Vv[0]: 3}, {Vv[-1]: 1}]))
    return out


def fam_vol_fixed_twin():
    """Tabor: two sequencer tables (or two entries / two advanced entries) that are identical except that a count is
    volatile in one and a FIXED number with the same value in the other (value coincidence at instantiation); also a
    volatile count 1 that flatten_and_balance has to unroll (count exactly 1 at instantiation)"""
    n, m = V_('n'), V_('m')
    out = []
    for c0 in (1, 2, 3):
        twin_e = [R_(C_(2), S_(R_(n, A_(0)), A_(1))), R_(C_(2), S_(R_(C_(c0), A_(0)), A_(1)))]
        twin_t = [R_(n, S_(A_(0), A_(1))), R_(C_(c0), S_(A_(0), A_(1)))]
        twin_m = [R_(C_(2), S_(R_(n, A_(0)), A_(1))), R_(C_(2), S_(M_([('m', C_(c0))], R_(m, A_(0))), A_(1)))]
        for blocks in (twin_e, twin_e[::-1], twin_t, twin_t[::-1], twin_m, twin_e + [R_(C_(3), S_(A_(2), A_(3)))],
                       [R_(C_(3), S_(A_(2), A_(3)))] + twin_e[::-1]):
            out.append((S_(*blocks), {'n': c0}, ['n'], [{'n': c0 + 1}, {'n': 1}]))
    # volatile count exactly 1 on a loop that flatten_and_balance / the Tabor set-up has to unroll or merge
    for body in (S_(A_(0), R_(C_(2), S_(A_(1), A_(2)))), S_(R_(C_(2), A_(0)), R_(C_(2), S_(A_(1), R_(C_(2), A_(2))))),
                 R_(C_(2), S_(A_(0), R_(C_(2), A_(1))))):
        out.append((S_(R_(n, body), A_(3)), {'n': 1}, ['n'], [{'n': 2}, {'n': 1}]))
        out.append((R_(add_(n, C_(1)), body), {'n': 0}, ['n'], [{'n': 2}]))
    return out


def split_mixed_cases(rng, tier):
    """Tabor (round 4, seed C15-6): ONE sequencer table shorter than min_seq_len that cannot be merged with a
    neighbour (the table itself is repeated a fixed number of times, or its neighbours are full) and whose entries
    mix fixed repeated entries F (3 x a), volatile repeated entries V (n x b, n > 1 at instantiation) and plain
    entries P in EVERY order (all words of length 1..3 over {F, V, P} with at least one V): _check_partial_unroll /
    Loop.split_one_child must pick the last FIXED repeated entry and fall back to a volatile one only when there is
    no other; min_seq_len = length + 1 / + 2 (one split / several splits incl. the fall-back after the fixed entry is
    used up), with and without unroll_children first, with cleanup and without, alone and between other tables"""
    n = V_('n')
    words = [w for L in (1, 2, 3) for w in itertools.product('FVP', repeat=L) if 'V' in w]
    cases = []
    for wi, w in enumerate(words):
        entries = []
        for j, ch in enumerate(w):
            a = A_(j + wi)
            entries.append(R_(C_(3 if j % 2 == 0 else 2), a) if ch == 'F' else
                           R_(n if j % 2 == 0 or w.count('V') == 1 else add_(n, C_(1)), a) if ch == 'V' else a)
        body = S_(*entries) if len(entries) > 1 else entries[0]
        grid = [(c, dm, cl, md, ctx, n0) for c in (2, 3, 1) for dm in (1, 2) for cl in (True, False)
                for md in (None, 'advanced') for ctx in ('alone', 'between', 'after') for n0 in (4, 2, 1)]
        if tier == 'thorough':
            pick = grid
        else:
            pick = [(2, 1, True, None, 'alone', 4), (2, 1, False, 'advanced', 'between', 2),
                    grid[(wi * 37 + 11) % len(grid)], grid[(wi * 53 + 5) % len(grid)], (3, 2, True, None, 'after', 2)]
        for c, dm, cl, md, ctx, n0 in dict.fromkeys(pick):
            tab = R_(C_(c), body)
            full = R_(C_(2), S_(A_(wi + 1), A_(wi + 2), A_(wi + 3), A_(wi + 4)))
            blocks = [tab] if ctx == 'alone' else [full, tab, full] if ctx == 'between' else [full, tab]
            pt = S_(*blocks) if len(blocks) > 1 else tab
            ups = [{'n': 6 if n0 != 4 else 5}, {'n': 1}, {'n': 3}]
            if not sizes_ok(pt, {'n': n0}, {'n'}, ups):
                continue
            mn = len(w) + dm
            cases.append({'kind': 'tabor', 'pt': pt, 'vals': {'n': n0}, 'V': ['n'], 'ups': ups, 'fam': 'split_mixed',
                          'cl': cl, 'mode': md, 'mn': mn, 'mx': max(8, mn), 'vt': rng.choice(VTS),
                          'alias': rng.random() < 0.3})
    return cases


def F_(idx, k, body):
    return ['for', idx, k, body]


def fam_for_loop():
    """round 4 (coverage audit; ForLoopPT binds its index through a RangeScope around the volatile DictScope): volatile
    counts inside a ForLoopPT - the same count in every iteration, counts that depend on the loop index (n + k, n * k:
    zero in the first iteration), a loop index that is called like a volatile parameter (must NOT become volatile)"""
    n, k, x, m = V_('n'), V_('k'), V_('x'), V_('m')
    shapes = [
        (F_('k', 3, S_(R_(n, A_(0)), R_(add_(k, C_(1)), A_(1)))), {'n': 2}, ['n'], 'n'),
        (S_(F_('k', 3, R_(add_(k, C_(1)), A_(0))), R_(n, A_(1))), {'n': 2}, ['n'], 'n'),
        (F_('k', 3, R_(add_(n, k), A_(0))), {'n': 1}, ['n'], 'n'),
        (F_('k', 3, R_(mul_(n, k), A_(0))), {'n': 1}, ['n'], 'n'),
        (F_('k', 2, R_(n, S_(A_(0), R_(add_(k, C_(1)), A_(1))))), {'n': 2}, ['n'], 'n'),
        (R_(n, F_('k', 2, R_(add_(k, C_(1)), A_(0)))), {'n': 2}, ['n'], 'n'),
        (M_([('n', mul_(C_(2), x))], F_('k', 2, R_(add_(n, k), A_(0)))), {'x': 1}, ['x'], 'x'),
        (M_([('n', mul_(C_(2), x))], F_('k', 2, R_(add_(n, k), S_(A_(0), A_(1)))), True), {'x': 1}, ['x'], 'x'),
        (S_(R_(n, A_(1)), F_('n', 2, R_(add_(n, C_(1)), A_(0)))), {'n': 2}, ['n'], 'n'),
        (F_('n', 3, S_(A_(2), R_(add_(n, C_(1)), A_(0)))), {}, [], None),
        (R_(C_(2), F_('k', 2, S_(R_(n, A_(0)), R_(add_(k, C_(2)), A_(1))))), {'n': 2}, ['n'], 'n'),
        (F_('k', 2, F_('m', 2, R_(add_(add_(n, k), m), A_(0)))), {'n': 1}, ['n'], 'n'),
    ]
    out = []
    for pt, vals, V, v in shapes:
        out.append((pt, vals, V, [{v: 3}, {v: 1}] if v else [{'n': 3}]))
    return out


def fam_meas_merge():
    """round 4 (coverage audit): a repetition WITH measurements whose single child is a count-1 repetition with
    measurements as well (Loop._merge_single_child joins the two measurement lists), volatile / fixed outer count"""
    n, m = V_('n'), V_('m')
    shapes = [
        (R_(n, R_(C_(1), A_(0), True), True), {'n': 2}, ['n']),
        (R_(C_(2), R_(C_(1), S_(A_(0), R_(n, A_(1))), True), True), {'n': 2}, ['n']),
        (R_(n, R_(C_(1), R_(m, A_(0)), True), True), {'n': 2, 'm': 2}, ['n', 'm']),
        (R_(n, R_(m, A_(0), True), True), {'n': 2, 'm': 1}, ['n']),
        (S_(R_(n, R_(C_(1), A_(0), True), True), R_(C_(1), R_(n, A_(1), True), True)), {'n': 1}, ['n']),
        (R_(C_(1), R_(n, R_(C_(1), A_(2), True)), True), {'n': 3}, ['n']),
        # measurements go to the ENCLOSING loop: root (outer's) -> Loop(1) (inner's) -> Loop(n): the root merges its
        # count-1 child and joins the two measurement lists
        (R_(C_(1), R_(n, A_(0), True), True), {'n': 2}, ['n']),
        (R_(C_(1), R_(C_(1), R_(n, S_(A_(0), A_(1)), True), True), True), {'n': 2}, ['n']),
    ]
    return [(pt, vals, V, [{'n': 3}, {'n': 1}]) for pt, vals, V in shapes]


def too_long_cases(rng, tier):
    """round 4 (coverage audit): sequencer tables longer than max_seq_len - TaborException in SINGLE mode
    (setup_single_sequence_mode) and in ADVANCED mode (prepare_program_for_advanced_sequence_mode); exactly at the
    limit it compiles"""
    n = V_('n')
    five = [A_(i) for i in range(5)]
    shapes = [S_(*five), R_(n, S_(*five)), S_(R_(C_(2), S_(*five)), R_(n, S_(A_(0), A_(1)))),
              S_(R_(n, S_(A_(0), A_(1), A_(2))), R_(C_(2), S_(*five))), S_(R_(n, A_(0)), *five[:4])]
    cases = []
    for i, pt in enumerate(shapes):
        for mx in (4, 5):
            for md in (None, 'single', 'advanced'):
                if tier != 'thorough' and (i + mx + (0 if md is None else len(md))) % 2:
                    continue
                cases.append({'kind': 'tabor', 'pt': pt, 'vals': {'n': 2}, 'V': ['n'], 'ups': [{'n': 3}], 'fam': 'too_long',
                              'cl': i % 2 == 0, 'mode': md, 'mn': 1, 'mx': mx, 'vt': 'int', 'alias': False})
    return cases


def fam_deep_merge():
    """round 5 (seed C15-8): single-child chains of THREE or FOUR nested repetitions whose counts are volatile, so that
    Loop._merge_single_child applies VolatileRepetitionCount.operation to a count that is itself an operation result
    (a JointScope nested inside a JointScope, on the child side after cleanup, on either side after
    flatten_and_balance); every parameter is updated on its own, the INNER ones first; one level fixed / not volatile /
    reached through a mapping / all levels the same parameter / parameters called like the operand names of the
    merge; the chain alone, as one of several tables, with a sequence as its body"""
    n, m, k, x = V_('n'), V_('m'), V_('k'), V_('x')
    P, C = V_(JPN), V_(JCN)
    ch3 = lambda a, b, c, body: R_(a, R_(b, R_(c, body)))
    A01 = S_(A_(0), A_(1))
    inner_first = [{'k': 3}, {'m': 2}, {'n': 1}, {'k': 1, 'm': 3}]
    shapes = [
        (ch3(n, m, k, A_(0)), {'n': 2, 'm': 1, 'k': 2}, ['n', 'm', 'k'], inner_first),
        (ch3(n, m, k, A01), {'n': 1, 'm': 1, 'k': 1}, ['n', 'm', 'k'], [{'m': 2}, {'k': 2}, {'n': 2}, {'m': 1}]),
        (ch3(n, m, k, A_(2)), {'n': 2, 'm': 2, 'k': 2}, ['n', 'm', 'k'], [{'k': 1}, {'m': 1}, {'k': 3}, {'m': 0}, {'m': 1}]),
        (R_(n, ch3(m, k, x, A_(0))), {'n': 1, 'm': 2, 'k': 1, 'x': 2}, ['n', 'm', 'k', 'x'],
         [{'x': 1}, {'k': 2}, {'m': 1}, {'x': 3}, {'n': 2}]),
        (R_(n, ch3(m, k, x, A01)), {'n': 2, 'm': 1, 'k': 1, 'x': 1}, ['m', 'k', 'x'], [{'x': 2}, {'k': 2}, {'m': 2}]),
        (ch3(n, C_(2), k, A_(0)), {'n': 2, 'k': 1}, ['n', 'k'], [{'k': 3}, {'n': 1}, {'k': 2}]),
        (ch3(C_(2), m, k, A_(1)), {'m': 2, 'k': 1}, ['m', 'k'], [{'k': 3}, {'m': 1}]),
        (ch3(n, m, C_(2), A_(1)), {'n': 1, 'm': 2}, ['n', 'm'], [{'m': 3}, {'n': 2}, {'m': 1}]),
        (ch3(n, m, k, A_(0)), {'n': 2, 'm': 1, 'k': 2}, ['n', 'k'], [{'k': 3}, {'n': 1}]),
        (ch3(n, m, k, A_(0)), {'n': 2, 'm': 1, 'k': 2}, ['m', 'k'], [{'k': 3}, {'m': 2}, {'k': 1}]),
        (ch3(n, m, k, A_(3)), {'n': 2, 'm': 2, 'k': 2}, ['k'], [{'k': 1}, {'k': 3}]),
        (ch3(n, m, k, A_(3)), {'n': 2, 'm': 2, 'k': 2}, ['m'], [{'m': 1}, {'m': 3}]),
        (ch3(n, n, n, A_(0)), {'n': 1}, ['n'], [{'n': 2}, {'n': 1}, {'n': 0}, {'n': 2}]),
        (ch3(n, add_(n, C_(1)), mul_(C_(2), n), A_(4)), {'n': 1}, ['n'], [{'n': 2}, {'n': 1}]),
        (R_(n, M_([('m', add_(k, C_(1)))], R_(m, R_(k, A_(0))))), {'n': 1, 'k': 1}, ['n', 'k'], [{'k': 2}, {'n': 2}, {'k': 0}]),
        (R_(n, M_([('m', add_(k, C_(1)))], R_(m, R_(k, A01)), True)), {'n': 2, 'k': 1}, ['n', 'k'], [{'k': 2}, {'n': 1}]),
        (M_([('k', mul_(C_(2), x))], ch3(n, m, k, A_(1)), True), {'n': 1, 'm': 1, 'x': 1}, ['n', 'm', 'x'],
         [{'x': 2}, {'m': 2}, {'n': 2}]),
        (ch3(P, C, n, A_(0)), {JPN: 1, JCN: 2, 'n': 1}, [JPN, JCN, 'n'], [{'n': 2}, {JCN: 1}, {JPN: 2}, {'n': 3}]),
        (ch3(n, P, C, A_(0)), {JPN: 1, JCN: 2, 'n': 1}, [JPN, JCN, 'n'], [{JCN: 1}, {JPN: 3}, {'n': 2}]),
        (ch3(n, m, P, A01), {JPN: 2, 'n': 1, 'm': 1}, ['n', 'm', JPN], [{JPN: 1}, {'m': 2}, {JPN: 3}]),
        (S_(ch3(n, m, k, A01), R_(C_(2), S_(A_(2), A_(3)))), {'n': 1, 'm': 2, 'k': 1}, ['n', 'm', 'k'],
         [{'k': 2}, {'m': 1}, {'n': 2}]),
        (S_(R_(C_(2), S_(A_(2), A_(3))), ch3(n, m, k, S_(A_(0), R_(x, A_(1)))), A_(4)), {'n': 1, 'm': 1, 'k': 2, 'x': 2},
         ['n', 'm', 'k', 'x'], [{'k': 1}, {'m': 2}, {'x': 1}, {'n': 2}]),
        (R_(C_(2), S_(ch3(n, m, k, A_(0)), A_(1))), {'n': 1, 'm': 1, 'k': 2}, ['n', 'm', 'k'], [{'m': 2}, {'k': 1}, {'n': 2}]),
        (ch3(n, m, k, R_(C_(2), A01)), {'n': 1, 'm': 2, 'k': 1}, ['n', 'm', 'k'], [{'k': 2}, {'m': 1}, {'k': 1}]),
    ]
    return [(pt, vals, V, ups) for pt, vals, V, ups in shapes]


FAMILIES4 = [('for_loop', fam_for_loop), ('meas_merge', fam_meas_merge)]
FAMILIES5 = [('deep_merge', fam_deep_merge)]
FAMILIES = [('zero_mid', fam_zero_mid), ('vol_neighbour_one', fam_vol_neighbour_one), ('named_maps', fam_named_maps),
            ('shared_before', fam_shared_before), ('same_param_twice', fam_same_param_twice),
            ('internal_names', fam_internal_names), ('vol_fixed_twin', fam_vol_fixed_twin)]
TABOR_FAMS = {'vol_neighbour_one', 'shared_before'}


def family_cases(rng, tier, families=None):
    cases = []
    for fname, fn in (families or FAMILIES):
        for idx, (pt, vals, V, ups) in enumerate(fn()):
            if not sizes_ok(pt, vals, set(V), ups):
                raise RuntimeError('family %s shape %d too large' % (fname, idx))
            base = {'pt': pt, 'vals': dict(vals), 'V': sorted(V), 'ups': ups, 'fam': fname}
            variants = []
            if fname in TABOR_FAMS:
                grid = [(mn, mx, cl, md) for mn in (2, 3) for mx in (4, 6, 8) for cl in (True, False)
                        for md in (None, 'advanced')] if fname == 'vol_neighbour_one' else \
                       [(mn, mx, cl, md) for mn in (1, 2) for mx in (6, 8) for cl in (True, False) for md in (None, 'advanced')]
                pick = grid if tier == 'thorough' else [grid[(idx * 5 + j * 7) % len(grid)] for j in range(2)]
                for mn, mx, cl, md in pick:
                    variants.append({'kind': 'tabor', 'cl': cl, 'mode': md, 'mn': mn, 'mx': mx})
            else:
                pls = TREE_PLS + ['flat0', 'flat3'] if tier == 'thorough' else [TREE_PLS[idx % 4], TREE_PLS[(idx + 1 + idx // 4) % 4]]
                if fname in ('for_loop', 'meas_merge'):
                    pls = (pls if tier == 'thorough' else ['cleanup', TREE_PLS[idx % 4]]) + ['cleanupm']
                if fname == 'vol_fixed_twin' and tier != 'thorough':
                    pls = ['flat1', 'flat2', 'cleanup'] if idx >= 21 else [TREE_PLS[idx % 4]]
                if fname == 'deep_merge':
                    pls = TREE_PLS + ['flat0', 'flat3', 'cleanupm'] if tier == 'thorough' else \
                        ['cleanup', 'flat1' if idx % 2 else 'flat2'] + (['cleanupm'] if idx % 3 == 0 else [])
                for pl in dict.fromkeys(pls):
                    variants.append({'kind': 'tree', 'pl': pl})
                tg = [(mn, mx, cl, md) for mn in (1, 2, 3) for mx in (4, 8) for cl in (True, False) for md in (None, 'single', 'advanced')]
                pick = tg if tier == 'thorough' else [tg[(idx * 7 + 3) % len(tg)]]
                if fname == 'vol_fixed_twin' and tier != 'thorough':
                    pick = [(1, 8, False, None), (1, 8, True, 'advanced'), (2, 6, idx % 2 == 0, None)]
                if fname == 'deep_merge' and tier != 'thorough':
                    pick = [(1, 8, True, None), (1 + idx % 2, 8, idx % 2 == 0, 'advanced' if idx % 2 else 'single')]
                for mn, mx, cl, md in pick:
                    variants.append({'kind': 'tabor', 'cl': cl, 'mode': md, 'mn': mn, 'mx': mx})
            for v in variants:
                c = dict(base)
                c.update(v)
                c['vt'] = rng.choice(VTS)
                c['alias'] = rng.random() < 0.3
                cases.append(c)
    return cases


def compat_family(tier):
    """make_compatible: fixed shapes around a volatile count (kept next to a concatenated sibling; inside a concatenated
    sub-program; on the loop whose children are concatenated; nested volatile counts) x minimal length x quantum"""
    n, m = V_('n'), V_('m')
    shapes = [
        (R_(C_(3), R_(n, A_(0))), {'n': 1}, ['n'], [{'n': 2}]),
        (S_(R_(n, A_(1)), R_(C_(1), S_(A_(0), A_(3)))), {'n': 1}, ['n'], [{'n': 3}, {'n': 1}]),
        (R_(n, S_(A_(2), A_(2))), {'n': 2}, ['n'], [{'n': 3}]),
        (R_(C_(2), S_(R_(n, A_(2)), A_(2), A_(0))), {'n': 1}, ['n'], [{'n': 3}]),
        (S_(R_(n, A_(4)), A_(0)), {'n': 1}, ['n'], [{'n': 2}]),
        (S_(R_(n, A_(4)), R_(C_(2), A_(0)), A_(1)), {'n': 1}, ['n'], [{'n': 2}, {'n': 4}]),
        (R_(n, R_(m, A_(1))), {'n': 1, 'm': 2}, ['n', 'm'], [{'n': 2}, {'m': 1}]),
        (S_(R_(n, R_(C_(2), A_(0))), R_(C_(3), A_(2))), {'n': 2}, ['n'], [{'n': 1}, {'n': 3}]),
        (R_(C_(2), S_(R_(n, S_(A_(1), A_(3))), R_(C_(1), S_(A_(2), A_(2))))), {'n': 1}, ['n'], [{'n': 2}]),
    ]
    grid = [(mn, q) for mn in (96, 192, 384, 576) for q in (16, 64, 192)]
    out = []
    for i, (pt, vals, V, ups) in enumerate(shapes):
        pick = grid if tier == 'thorough' else [g for j, g in enumerate(grid) if (i + j) % 3 == 0 or g == (576, 16) or g == (384, 16)]
        for mn, q in pick:
            out.append({'kind': 'compat', 'pt': pt, 'vals': dict(vals), 'V': list(V), 'ups': ups, 'min_len': mn, 'q': q,
                        'fam': 'compat_shapes'})
    return out


FRAC_VALUES = ['1/2', '3/2', '5/2', '7/2', '-1/2', '-3/2', '5/4', '11/4', '2', '3', '1', '0', '4']


def gen_frac(rng):
    """one volatile repetition count, updated with dyadic non-integer (and integer-valued float) values"""
    for _ in range(100):
        names = rng.sample(NAMES[:4], rng.choice([1, 2, 2]))
        e = expr_pool(rng, names)
        used = sorted(set(e_vars(e)))
        if not used:
            continue
        vals = {n: rng.choice([1, 2, 3]) for n in used}
        if e_eval(e, env_fn(vals)) <= 0:
            continue
        ups = []
        for _ in range(rng.choice([1, 2, 3])):
            ups.append({rng.choice(used): rng.choice(FRAC_VALUES)})
        return {'kind': 'frac', 'expr': e, 'vals': vals, 'ups': ups}
    raise RuntimeError('generator could not produce a frac case')


# ---------------------------------------------------------------------------------------------------------------------
# float stream (round 4, seed C15-5): a single volatile count whose expression is a quotient / product of DECIMAL
# parameter values, evaluated in binary64 (or exactly, when the values are TimeType).  Values are decimal strings.
# every template: (expression handed to RepetitionPT, mapping handed to an enclosing MappingPT or None,
#                  operation tree in evaluation order = what sympy's lambdify prints)
def _fx(n):
    return ['v', n]


FLOAT_TEMPLATES = {
    'div': ('x / y', None, ['/', _fx('x'), _fx('y')]),
    'mul': ('x * y', None, ['*', _fx('x'), _fx('y')]),
    'mul100': ('100 * x', None, ['*', ['c', '100'], _fx('x')]),
    'div_plus': ('x / y + 1', None, ['+', ['/', _fx('x'), _fx('y')], ['c', '1']]),
    'muldiv': ('x * z / y', None, ['/', ['*', _fx('x'), _fx('z')], _fx('y')]),
    'sumdiv': ('(x + z) / y', None, ['/', ['+', _fx('x'), _fx('z')], _fx('y')]),
    'div_minus': ('x / y - z', None, ['-', ['/', _fx('x'), _fx('y')], _fx('z')]),
    'map_div': ('k', {'k': 'x / y'}, ['/', _fx('x'), _fx('y')]),
    'map_muldiv': ('k / y', {'k': 'x * z'}, ['/', ['*', _fx('x'), _fx('z')], _fx('y')]),
    'twodiv': ('2 * x / y', None, ['/', ['*', ['c', '2'], _fx('x')], _fx('y')]),
}


def fe_vars(fe):
    return [] if fe[0] == 'c' else [fe[1]] if fe[0] == 'v' else fe_vars(fe[1]) + fe_vars(fe[2])


def fe_coq(fe, conv):
    if fe[0] == 'c':
        return '(FConst %s)' % vlib.gQ(fractions_of(fe[1]))
    if fe[0] == 'v':
        return '(FVar %d%%N)' % NAME_ID[fe[1]]
    return '(%s %s %s)' % ({'+': 'FAdd', '-': 'FSub', '*': 'FMul', '/': 'FDiv'}[fe[0]], fe_coq(fe[1], conv), fe_coq(fe[2], conv))


def fractions_of(s):
    import fractions
    return fractions.Fraction(s)


def dec_mul(a, b):
    import decimal
    r = decimal.Decimal(a) * decimal.Decimal(b)
    return format(r.normalize(), 'f')


def fval_in(s, exact):
    """the number a decimal string becomes when it is handed to qupulse: the nearest double, or the exact rational"""
    import fractions
    return fractions.Fraction(s) if exact else fractions.Fraction(float(s))


def fe_eval_py(fe, env, exact):
    """independent reference evaluation with plain Python floats (Fractions when exact); used by classify/histogram"""
    import fractions
    k = fe[0]
    if k == 'c':
        return fractions.Fraction(fe[1]) if exact else int(fe[1])
    if k == 'v':
        return fractions.Fraction(env[fe[1]]) if exact else float(env[fe[1]])
    a, b = fe_eval_py(fe[1], env, exact), fe_eval_py(fe[2], env, exact)
    return a + b if k == '+' else a - b if k == '-' else a * b if k == '*' else a / b


PERIODS = ['0.1', '0.2', '0.3', '0.7', '0.05', '0.15', '1.1', '0.9', '3.3', '0.001', '0.6', '1.7', '0.007', '2.4']
OFFSETS = ['0.0000001', '0.00000099', '0.000001', '0.00000101', '0.000005', '0.0000009999999', '0.0000010000001']


def float_shapes():
    """deterministic family: (template, vals, V, ups).  Quotients K*p / p for decimal periods p (the float result is
    just below K, just above K or exactly K), products 0.57 * 100, the tolerance window K +- d / 1 around 1e-6"""
    out = []
    for pi, p in enumerate(PERIODS[:8]):
        ks = [3, 6, 7, 2, 9, 5, 12, 1, 4]
        ks = ks[pi % 3:] + ks[:pi % 3]
        ups = [{'x': dec_mul(str(k), p)} for k in ks[:5]]
        out.append(('div' if pi % 2 == 0 else 'map_div', {'x': dec_mul('2', p), 'y': p}, ['x'], ups))
        out.append(('div', {'x': dec_mul(str(ks[0]), p), 'y': p}, ['x', 'y'], ups[1:4]))        # inexact at instantiation
    out.append(('mul100', {'x': '0.02'}, ['x'], [{'x': v} for v in ('0.57', '0.58', '0.29', '0.07', '0.14', '0.55')]))
    out.append(('mul', {'x': '0.5', 'y': '4'}, ['x', 'y'], [{'x': '0.57', 'y': '100'}, {'x': '0.1', 'y': '30'}, {'x': '1.1', 'y': '10'}]))
    out.append(('div_plus', {'x': '0.2', 'y': '0.1'}, ['x'], [{'x': '0.3'}, {'x': '0.6'}, {'x': '0.7'}]))
    out.append(('muldiv', {'x': '0.1', 'y': '0.1', 'z': '2'}, ['x', 'z'], [{'x': '0.3'}, {'z': '3'}, {'x': '0.7', 'z': '1'}]))
    out.append(('map_muldiv', {'x': '0.1', 'y': '0.1', 'z': '2'}, ['x'], [{'x': '0.3'}, {'x': '0.6'}, {'x': '0.35'}]))
    out.append(('sumdiv', {'x': '0.1', 'y': '0.1', 'z': '0.1'}, ['x', 'z'], [{'x': '0.2'}, {'z': '0.4'}, {'x': '0.3', 'z': '0.3'}]))
    out.append(('div_minus', {'x': '0.5', 'y': '0.1', 'z': '1'}, ['x'], [{'x': '0.3'}, {'x': '0.7'}, {'x': '0.1'}]))
    out.append(('twodiv', {'x': '0.1', 'y': '0.1'}, ['x'], [{'x': '0.15'}, {'x': '0.35'}, {'x': '0.45'}]))
    # the tolerance window of is_integer (< 1e-6) / checked_int_cast (> 1e-6 raises): K +- d
    import decimal
    for i, d in enumerate(OFFSETS):
        ups = []
        for k, sg in ((3, -1), (3, 1), (1, -1), (7, 1)):
            ups.append({'x': format(decimal.Decimal(k) + sg * decimal.Decimal(d), 'f')})
        out.append(('div', {'x': '2', 'y': '1'}, ['x'], ups))
    out.append(('div', {'x': '2', 'y': '1'}, ['x'], [{'x': '2.5'}, {'x': '3.5'}, {'x': '-0.5'}, {'x': '-2.0000001'}, {'x': '0.0000001'}]))
    return out


def gen_float(rng):
    name = rng.choice(sorted(FLOAT_TEMPLATES))
    fe = FLOAT_TEMPLATES[name][2]
    used = sorted(set(fe_vars(fe)))
    p = rng.choice(PERIODS)

    def pick(k):
        # values for which the EXACT (decimal) result is the integer k
        if name in ('div', 'map_div'):
            return {'x': dec_mul(str(k), p), 'y': p}
        if name == 'div_plus':
            return {'x': dec_mul(str(max(k - 1, 0)), p), 'y': p}
        if name == 'twodiv':
            return {'x': dec_mul(str(k), p), 'y': dec_mul('2', p)}
        if name == 'mul100':
            return {'x': dec_mul(str(k), '0.01')}
        if name == 'mul':
            q = rng.choice(['0.01', '0.1', '0.001', '0.5'])
            return {'x': dec_mul(str(k), q), 'y': {'0.01': '100', '0.1': '10', '0.001': '1000', '0.5': '2'}[q]}
        if name in ('muldiv', 'map_muldiv'):
            z = rng.choice(['1', '2', '3'])
            return {'x': dec_mul(str(k), p), 'y': dec_mul(z, p), 'z': z}
        if name == 'sumdiv':
            a = rng.randrange(0, k + 1)
            return {'x': dec_mul(str(a), p), 'z': dec_mul(str(k - a), p), 'y': p}
        return {'x': dec_mul(str(k + 1), p), 'y': p, 'z': '1'}          # div_minus
    vals = pick(rng.choice([1, 2, 2, 3]))
    V = [n for n in used if n != 'y' or rng.random() < 0.3] or used
    ups = []
    cur = dict(vals)
    for _ in range(rng.choice([2, 3, 4])):
        new = pick(rng.choice([1, 2, 3, 4, 5, 6, 7, 9, 11, 13, 0]))
        us = {n: new[n] for n in V if new[n] != cur.get(n)} or {V[0]: new[V[0]]}
        if rng.random() < 0.08:
            import decimal
            us[V[0]] = format(decimal.Decimal(us.get(V[0], cur[V[0]])) + decimal.Decimal(rng.choice(OFFSETS)) * rng.choice([1, -1]), 'f')
        cur.update(us)
        ups.append(us)
    return {'kind': 'float', 'tmpl': name, 'vals': vals, 'V': V, 'ups': ups,
            'vt': rng.choice(['float', 'float', 'float', 'npf', 'tt'])}


def float_cases(rng, tier):
    cases = []
    for i, (name, vals, V, ups) in enumerate(float_shapes()):
        for vt in (['float', 'npf', 'tt'] if tier == 'thorough' else ['float', ['npf', 'tt'][i % 2]]):
            cases.append({'kind': 'float', 'tmpl': name, 'vals': dict(vals), 'V': list(V), 'ups': ups, 'vt': vt,
                          'fam': 'float_near_integer'})
    for _ in range(50 if tier == 'quick' else 1500):
        cases.append(gen_float(rng))
    if tier == 'thorough':          # small scope, exhaustive: K * p / p for K <= 30 and every period, c/100 * 100
        for p in PERIODS:
            for k0 in range(1, 31, 5):
                ups = [{'x': dec_mul(str(k), p)} for k in range(k0, k0 + 5)]
                for name in ('div', 'map_div'):
                    cases.append({'kind': 'float', 'tmpl': name, 'vals': {'x': dec_mul('2', p), 'y': p}, 'V': ['x'],
                                  'ups': ups, 'vt': 'float', 'fam': 'float_exhaustive'})
        for c0 in range(1, 100, 6):
            cases.append({'kind': 'float', 'tmpl': 'mul100', 'vals': {'x': '0.02'}, 'V': ['x'], 'vt': 'float',
                          'ups': [{'x': dec_mul(str(c), '0.01')} for c in range(c0, min(c0 + 6, 64))] or [{'x': '0.01'}],
                          'fam': 'float_exhaustive'})
    return cases


def float_classes(case):
    """per state (instantiation, then after every update): is the float value of the count expression exactly an
    integer / just below / just above an integer (within 1e-6) / outside the tolerance; plain Python arithmetic"""
    import fractions
    exact = case['vt'] == 'tt'
    fe = FLOAT_TEMPLATES[case['tmpl']][2]
    cur = dict(case['vals'])
    out = []
    for us in [{}] + list(case['ups']):
        cur.update({k: v for k, v in us.items() if k in cur})
        try:
            v = fractions.Fraction(fe_eval_py(fe, cur, exact))
        except ZeroDivisionError:
            out.append('division_by_zero')
            continue
        n = round(v)
        d = v - n
        out.append('exact' if d == 0 else 'outside_tolerance' if abs(d) > fractions.Fraction(1e-6) else
                   'boundary' if abs(d) == fractions.Fraction(1e-6) else 'below_integer' if d < 0 else 'above_integer')
    return out


def small_templates():
    """all templates with <= 3 composite nodes over a reduced alphabet, and all templates with exactly 4 composite
    nodes over a further reduced alphabet (thorough tier)"""
    def build(k, exprs, maps, atoms):
        if k == 0:
            for a in atoms:
                yield ['atom', a]
            return
        for body in build(k - 1, exprs, maps, atoms):
            for e in exprs:
                yield ['rep', e, False, body]
            fr = pt_free(body)
            for mp in maps:
                if all(n in fr for n, _ in mp):
                    yield ['map', mp, body]
        for a in range(k):
            b = k - 1 - a
            if a <= b:
                for x in build(a, exprs, maps, atoms):
                    for y in build(b, exprs, maps, atoms):
                        yield ['seq', [x, y]]
    exprs = [V_('n'), V_('m'), ['*', V_('n'), V_('m')], ['*', C_(2), V_('n')]]
    maps = [[['n', V_('m')]], [['n', ['*', C_(2), V_('x')]]], [['m', ['+', V_('n'), C_(1)]]], [['n', C_(2)]]]
    for k in (1, 2, 3):
        yield from build(k, exprs, maps, [0, 1])
    yield from build(4, [V_('n'), ['*', V_('n'), V_('m')]], [[['n', ['*', C_(2), V_('x')]]], [['m', ['+', V_('n'), C_(1)]]]], [0])


def gen_cases(rng, tier, ctx):
    cases = family_cases(rng, tier)
    n_tree, n_tab = (300, 200) if tier == 'quick' else (3000, 2400)
    for i in range(n_tree):
        cases.append(gen_one(rng, 'tree', rng.choice([2, 3, 3, 4])))
    for i in range(n_tab):
        cases.append(gen_one(rng, 'tabor', rng.choice([2, 3, 3, 4])))
    for i in range(40 if tier == 'quick' else 600):
        cases.append(gen_frac(rng))
    cases.extend(compat_family(tier))
    # durations reported after an update (spec-only stream, Python oracle): family shapes with the pre-read on / off
    for idx, (pt, vals, V, ups) in enumerate(fam_zero_mid() + fam_same_param_twice()):
        if tier == 'thorough' or idx % 3 == 0:
            cases.append({'kind': 'dur', 'pt': pt, 'vals': dict(vals), 'V': sorted(V), 'ups': ups, 'pre_read': idx % 2 == 0})
    for i in range(90 if tier == 'quick' else 1500):
        c = gen_one(rng, 'tree', rng.choice([2, 3, 3]))
        c['kind'] = 'compat'
        del c['pl']
        c['min_len'] = rng.choice([96, 192, 384, 384, 576])
        c['q'] = rng.choice([16, 16, 32, 64, 192])
        cases.append(c)
    cases.extend(split_mixed_cases(rng, tier))
    cases.extend(family_cases(rng, tier, FAMILIES4))
    cases.extend(too_long_cases(rng, tier))
    cases.extend(float_cases(rng, tier))
    cases.extend(family_cases(rng, tier, FAMILIES5))
    if tier == 'thorough':
        seen = set()
        for p in small_templates():
            key = vlib.canonical_hash(p)
            if key in seen:
                continue
            seen.add(key)
            free = sorted(pt_free(p))
            if not free:
                continue
            vals = {n: rng.choice([1, 2, 3]) for n in free}
            for r in range(len(free) + 1):
                for V in itertools.combinations(free, r):
                    ups = [{n: rng.choice([1, 2, 3, 4]) for n in (V or free[:1])}, {n: rng.choice([0, 1, 2]) for n in (V[:1] or free[:1])}]
                    if not sizes_ok(p, vals, set(V), ups):
                        continue
                    if rng.random() < 0.5:
                        cases.append({'kind': 'tree', 'pt': p, 'vals': vals, 'V': list(V), 'ups': ups,
                                      'pl': rng.choice(['none', 'cleanup', 'flat1', 'flat2'])})
                    else:
                        cases.append({'kind': 'tabor', 'pt': p, 'vals': vals, 'V': list(V), 'ups': ups, 'cl': rng.random() < 0.5,
                                      'mode': None, 'mn': rng.choice([1, 2, 3]), 'mx': rng.choice([4, 6, 8])})
    return cases


# ---------------------------------------------------------------------------------------------------------------------
# running the implementation
_ATOMS = None
_SEG_VALUE = None
EVENTS = []


_CATOMS = None


def _catoms():
    global _CATOMS
    if _CATOMS is None:
        from qupulse.pulses import ConstantPT
        _CATOMS = [ConstantPT(CDUR[i], {'A': AMPS[i]}) for i in range(N_ATOMS)]
    return _CATOMS


def _atoms():
    global _ATOMS
    if _ATOMS is None:
        from qupulse.pulses import ConstantPT
        _ATOMS = [ConstantPT(192, {'A': a}) for a in AMPS]
    return _ATOMS


_UID = [0]


def build_pt(p, memo=None, atoms=None):
    """memo (a dict) switches aliasing on: structurally identical sub-templates become the SAME template object"""
    from qupulse.pulses import SequencePT, RepetitionPT, MappingPT, ForLoopPT
    k = p[0]
    if k == 'atom':
        return (atoms or _atoms())[p[1]]
    key = None
    if memo is not None:
        key = vlib.canonical_hash(p)
        if key in memo:
            return memo[key]
    if k == 'seq':
        r = SequencePT(*[build_pt(q, memo, atoms) for q in p[1]])
    elif k == 'rep':
        r = RepetitionPT(build_pt(p[3], memo, atoms), e_str(p[1]), measurements=[('M', 0, 1)] if p[2] else None)
    elif k == 'for':
        r = ForLoopPT(build_pt(p[3], memo, atoms), p[1], p[2])
    else:
        ident = None
        if len(p) > 3 and p[3]:
            _UID[0] += 1
            ident = 'c15_map_%d' % _UID[0]
        r = MappingPT(build_pt(p[2], memo, atoms), parameter_mapping={n: e_str(e) for n, e in p[1]},
                      allow_partial_parameter_mapping=True, identifier=ident)
    if memo is not None:
        memo[key] = r
    return r


_CASE_PT = {}


def case_pt(case):
    """the template object of a case; with case['alias'] it is built once (shared sub-templates) and reused for the
    instantiation and for every fresh re-instantiation"""
    if not case.get('alias'):
        return build_pt(case['pt'])
    key = vlib.canonical_hash(case['pt'])
    if key not in _CASE_PT:
        _CASE_PT.clear()
        _CASE_PT[key] = build_pt(case['pt'], {})
    return _CASE_PT[key]


def typed(v, vt):
    """an integer value handed over as another numeric type (the value is the same number)"""
    if vt in (None, 'int') or not isinstance(v, int):
        return v
    if vt == 'np':
        import numpy as np
        return np.int64(v)
    if vt == 'np32':
        import numpy as np
        return np.int32(v)
    if vt == 'float':
        return float(v)
    if vt == 'npf':
        import numpy as np
        return np.float64(v)
    if vt == 'tt':
        from qupulse.utils.types import TimeType
        return TimeType.from_fraction(v, 1)
    raise ValueError(vt)


def typed_dict(d, vt):
    return {k: typed(v, vt) for k, v in d.items()}


def _wf_id(wf):
    v = wf.constant_value_dict()['A']
    return AMPS.index(float(v))


def obs_tree(loop):
    from qupulse.program.volatile import VolatileRepetitionCount
    vp = loop.volatile_repetition
    vol = None
    if vp is not None:
        vol = sorted(NAME_ID[k] for k in vp.dependencies.keys())
    elif isinstance(loop.repetition_definition, VolatileRepetitionCount):
        vol = ['?']
    return {'c': int(loop.repetition_count), 'vol': vol, 'wf': None if loop.waveform is None else _wf_id(loop.waveform),
            'ch': [obs_tree(c) for c in loop]}


def _named(vals):
    return dict(vals)


EXPECTED = None


def _expected():
    global EXPECTED
    if EXPECTED is None:
        from qupulse.parameter_scope import ParameterNotProvidedException
        from qupulse.expressions import ExpressionVariableMissingException
        from qupulse._program.tabor import TaborException
        EXPECTED = (ParameterNotProvidedException, ExpressionVariableMissingException, TaborException, AssertionError,
                    RuntimeError)
    return EXPECTED


def _update_tree(loop, us):
    from qupulse.program.volatile import VolatileRepetitionCount
    rd = loop.repetition_definition
    if isinstance(rd, VolatileRepetitionCount):
        snapshot = dict(us)
        rd.update_volatile_dependencies(us)
        if dict(us) != snapshot:                    # the callee must not edit the caller's mapping
            raise RuntimeError('update mapping changed by update_volatile_dependencies')
    for c in loop:
        _update_tree(c, us)


def _tree_pipeline(case, vals):
    """-> {'err'} | {'none'} | {'tree', 'warn'} and the program"""
    from qupulse.program.loop import VolatileModificationWarning
    pt = case_pt(case)
    with warnings.catch_warnings(record=True) as ws:
        warnings.simplefilter('always')
        try:
            if not case['V'] and case.get('alias'):
                prog = pt.create_program(parameters=_named(vals))          # volatile not declared at all
            else:
                prog = pt.create_program(parameters=_named(vals), volatile=set(case['V']))
            if prog is None:
                return {'none': True}, None
            pl = case['pl']
            if pl == 'cleanup':
                prog.cleanup()
            elif pl == 'cleanupm':
                prog.cleanup(actions=('merge_single_child',))     # nothing to remove in a program built by a template
            elif pl.startswith('flat'):
                prog.flatten_and_balance(int(pl[4:]))
        except _expected():
            return {'err': True}, None
    warn = any(issubclass(w.category, VolatileModificationWarning) for w in ws)
    return {'tree': obs_tree(prog), 'warn': warn}, prog


def _seg_value():
    global _SEG_VALUE
    if _SEG_VALUE is None:
        _SEG_VALUE = {}
        for i in range(N_ATOMS):
            prog = _atoms()[i].create_program()
            tp = _compile(prog, None, 1, 8)
            segs, _ = tp.get_sampled_segments()
            _SEG_VALUE[int(segs[0].ch_a[0])] = i
    return _SEG_VALUE


def _compile(prog, mode, mn, mx):
    from qupulse._program.tabor import TaborProgram, TaborSequencing
    from qupulse.utils.types import TimeType
    md = {None: None, 'single': TaborSequencing.SINGLE, 'advanced': TaborSequencing.ADVANCED}[mode]
    return TaborProgram(prog, {'chan_per_part': 2, 'min_seq_len': mn, 'max_seq_len': mx}, ('A', None), (None, None),
                        (1., 1.), (0., 0.), (lambda x: x, lambda x: x), TimeType.from_fraction(1, 1), md)


def obs_tabor(tp, warn):
    sv = _seg_value()
    segs, _ = tp.get_sampled_segments()
    pos = []
    for k in tp._parsed_program.volatile_parameter_positions.keys():
        pos.append([int(k)] if isinstance(k, int) else [int(k[0]), int(k[1])])
    return {'adv': [[int(e[0]), int(e[1])] for e in tp.get_advanced_sequencer_table()],
            'tabs': [[[int(d[0]), int(d[1]), v is not None] for d, v in t] for t in tp.get_sequencer_tables()],
            'wfs': [sv[int(s.ch_a[0])] for s in segs], 'pos': sorted(pos), 'warn': warn}


def _tabor_pipeline(case, vals):
    from qupulse.program.loop import VolatileModificationWarning
    from qupulse.program.volatile import VolatileRepetitionCount
    pt = case_pt(case)
    with warnings.catch_warnings(record=True) as ws:
        warnings.simplefilter('always')
        try:
            prog = pt.create_program(parameters=_named(vals), volatile=set(case['V']))
            if prog is None:
                return {'err': True}, None
            if case['cl']:
                prog.cleanup()
            tp = _compile(prog, case['mode'], case['mn'], case['mx'])
        except _expected():
            return {'err': True}, None
    warn = any(issubclass(w.category, VolatileModificationWarning) for w in ws)
    return obs_tabor(tp, warn), tp


def run_impl(case):
    del EVENTS[:]
    try:
        with vlib.time_limit(20):
            with warnings.catch_warnings():
                warnings.simplefilter('ignore')
                return _run(case)
    except vlib.Timeout:
        return {'hang': True}
    except Exception as e:
        return {'crash': '%s: %s' % (type(e).__name__, str(e)[:200])}


def _fval(sv):
    f = vlib.frac_parse(sv) if isinstance(sv, str) else sv
    return int(f) if f.denominator == 1 and not isinstance(sv, str) else float(f)


def _run_frac(case):
    from qupulse.pulses import RepetitionPT
    from qupulse.pulses.repetition_pulse_template import ParameterNotIntegerException
    pt = RepetitionPT(_atoms()[0], e_str(case['expr']))
    vals = dict(case['vals'])
    prog = pt.create_program(parameters=dict(vals), volatile=set(vals))
    rd = prog[0].repetition_definition
    after, fresh = [], []
    cur = dict(vals)
    for us in case['ups']:
        fus = {k: float(vlib.frac_parse(v)) for k, v in us.items()}
        cur.update(fus)
        after.append(int(rd.update_volatile_dependencies(fus)))
        try:
            f = pt.create_program(parameters=dict(cur), volatile=set(vals))
            fresh.append('none' if f is None else int(f[0].repetition_count))
        except ParameterNotIntegerException:
            fresh.append('nonint')
    return {'after': after, 'fresh': fresh}


def fl_typed(s, vt):
    if vt == 'tt':
        from qupulse.utils.types import TimeType
        f = fractions_of(s)
        return TimeType.from_fraction(f.numerator, f.denominator)
    if vt == 'npf':
        import numpy as np
        return np.float64(float(s))
    return float(s)


def _float_pt(case):
    from qupulse.pulses import RepetitionPT, MappingPT
    estr, mp, _ = FLOAT_TEMPLATES[case['tmpl']]
    pt = RepetitionPT(_atoms()[0], estr)
    if mp:
        pt = MappingPT(pt, parameter_mapping=dict(mp), allow_partial_parameter_mapping=True)
    return pt


def _vol_loops(loop):
    out = [loop] if loop.volatile_repetition is not None else []
    for c in loop:
        out += _vol_loops(c)
    return out


def _run_float(case):
    from qupulse.pulses.repetition_pulse_template import ParameterNotIntegerException
    pt = _float_pt(case)
    vt = case['vt']
    V = set(case['V'])
    cur = {k: fl_typed(v, vt) for k, v in case['vals'].items()}

    def inst(vals):
        try:
            prog = pt.create_program(parameters=dict(vals), volatile=V)
        except (ParameterNotIntegerException, AssertionError):
            return 'nonint', None
        if prog is None:
            return 'none', None
        loops = _vol_loops(prog)
        if len(loops) != 1:
            raise RuntimeError('expected exactly one volatile loop, found %d' % len(loops))
        return int(loops[0].repetition_count), prog

    before, prog = inst(cur)
    after, fresh, tab = [], [], []
    if prog is None:
        return {'before': before, 'after': after, 'fresh': fresh, 'tab': tab}
    loop = _vol_loops(prog)[0]
    tp = _compile(inst(cur)[1], None, 1, 8)
    for us in case['ups']:
        tus = {k: fl_typed(v, vt) for k, v in us.items()}
        cur.update({k: v for k, v in tus.items() if k in cur})
        with warnings.catch_warnings(record=True) as ws:
            warnings.simplefilter('always')
            c = int(loop.repetition_definition.update_volatile_dependencies(dict(tus)))
            if int(loop.repetition_count) != c:
                raise RuntimeError('update returned %d, the loop reports %d' % (c, int(loop.repetition_count)))
        after.append([c, any('no integer' in str(w.message) for w in ws)])
        f, fprog = inst(cur)
        fresh.append(f)
        tp.update_volatile_parameters(dict(tus))
        tabs = tp.get_sequencer_tables()
        if len(tabs) != 1:
            raise RuntimeError('expected one sequencer table')
        ftab = None
        if fprog is not None:
            ftp = _compile(fprog, None, 1, 8)
            ftab = [int(e[0]) for e in ftp.get_advanced_sequencer_table()] + [int(d[0]) for d, _ in ftp.get_sequencer_tables()[0]]
        tab.append([[int(e[0]) for e in tp.get_advanced_sequencer_table()] + [int(d[0]) for d, _ in tabs[0]], ftab])
    return {'before': before, 'after': after, 'fresh': fresh, 'tab': tab}


def _play(loop, out, budget):
    """sampled play-back (channel A, sample rate 1) as a run-length list [(amplitude fraction string, samples)]"""
    import numpy as np
    n = int(loop.repetition_count)
    if loop.is_leaf():
        wf = loop.waveform
        d = int(wf.duration)
        smp = wf.get_sampled('A', np.arange(d, dtype=float))
        one = []
        for v in smp:
            key = vlib.frac_json(float(v))
            if one and one[-1][0] == key:
                one[-1][1] += 1
            else:
                one.append([key, 1])
        body = one
    else:
        body = []
        for c in loop:
            _play(c, body, budget)
    for _ in range(n):
        for key, k in body:
            if out and out[-1][0] == key:
                out[-1][1] += k
            else:
                out.append([key, k])
        budget[0] -= 1
        if budget[0] < 0:
            raise RuntimeError('play-back too long')


def _wf_atoms(wf):
    """the atoms a (concatenated) waveform plays, read off its samples (amplitude identifies the atom)"""
    import numpy as np
    d = int(wf.duration)
    smp = wf.get_sampled('A', np.arange(d, dtype=float))
    runs = []
    for v in smp:
        a = AMPS.index(float(v))
        if runs and runs[-1][0] == a:
            runs[-1][1] += 1
        else:
            runs.append([a, 1])
    out = []
    for a, n in runs:
        if n % CDUR[a]:
            raise RuntimeError('run of %d samples of atom %d' % (n, a))
        out += [a] * (n // CDUR[a])
    return out


def obs_ctree(loop):
    return {'c': int(loop.repetition_count), 'vol': loop.volatile_repetition is not None,
            'wf': None if loop.waveform is None else _wf_atoms(loop.waveform), 'ch': [obs_ctree(c) for c in loop]}


def _compat_pipeline(case, vals):
    from qupulse.program.loop import VolatileModificationWarning, make_compatible
    from qupulse.utils.types import TimeType
    pt = build_pt(case['pt'], None, _catoms())
    with warnings.catch_warnings(record=True) as ws:
        warnings.simplefilter('always')
        try:
            prog = pt.create_program(parameters=_named(vals), volatile=set(case['V']))
            if prog is None:
                return {'none': True}, None
            nvol = _n_vol(prog)
            make_compatible(prog, case['min_len'], case.get('q', 16), TimeType.from_fraction(1, 1))
        except _expected() + (ValueError,):
            return {'err': True}, None
    warn = any(issubclass(w.category, VolatileModificationWarning) for w in ws)
    return {'ok': True, 'warn': warn, 'nvol_before': nvol, 'nvol_after': _n_vol(prog), 'tree': obs_ctree(prog)}, prog


def _has_vol_loop(loop):
    return loop.volatile_repetition is not None or any(_has_vol_loop(c) for c in loop)


def _n_vol(loop):
    return (1 if loop.volatile_repetition is not None else 0) + sum(_n_vol(c) for c in loop)


def _run_compat(case):
    vals = dict(case['vals'])
    before, prog = _compat_pipeline(case, vals)
    steps = []
    cur = dict(vals)
    if prog is not None:
        before['vol_left'] = _has_vol_loop(prog)
    for us in case['ups']:
        for k, v in us.items():
            if k in cur:
                cur[k] = v
        f, fprog = _compat_pipeline(case, cur)
        st = {'fresh': 'ok' if fprog is not None else ('none' if 'none' in f else 'err'),
              'ftree': f.get('tree'), 'fwarn': f.get('warn', False)}
        if prog is not None:
            _update_tree(prog, us)
            st['tree'] = obs_ctree(prog)
            a = []
            _play(prog, a, [4000])
            if fprog is not None:
                b = []
                _play(fprog, b, [4000])
                st['same'] = a == b
                st['fresh_warn'] = f['warn']
            else:
                st['silent'] = not a
        steps.append(st)
    return {'before': before, 'steps': steps}


def py_spec(case, obs):
    """make_compatible keeps volatility (no VolatileModificationWarning) => the updated program plays what a fresh
    instantiation + make_compatible with the new values plays"""
    if case['kind'] == 'dur':
        if 'steps' not in obs or not set().union(*[set(us) for us in case['ups']]) <= set(case['V']):
            return None
        V0 = set(case['V'])
        try:
            if ref_dropped_volatile(case['pt'], env_fn(dict(case['vals'])), lambda x: x in V0):
                return None                                     # other finding: zero count dropped
        except KeyError:
            return None
        for i, st in enumerate(obs['steps']):
            if st['fresh'] is not None and st['dur'] != st['fresh']:
                return 'update %d: the updated program reports duration %s, a fresh instantiation %s' % (i, st['dur'], st['fresh'])
        return None
    if case['kind'] != 'compat' or 'before' not in obs:
        return None
    b = obs['before']
    if 'ok' not in b or b['warn']:
        return None
    if not set().union(*[set(us) for us in case['ups']]) <= set(case['V']):
        return None
    for i, st in enumerate(obs['steps']):
        if 'tree' not in st:
            continue
        if st['fresh'] == 'ok' and not st['fresh_warn'] and not st['same']:
            return 'make_compatible without VolatileModificationWarning, update %d: updated program plays something else than a fresh instantiation' % i
        if st['fresh'] == 'none' and not st['silent']:
            return 'update %d: fresh instantiation is empty, updated program still plays' % i
    return None


def _run_dur(case):
    """Loop.duration of the root and of the first level after every update vs. a fresh instantiation"""
    pt = build_pt(case['pt'])
    vals = dict(case['vals'])
    try:
        prog = pt.create_program(parameters=dict(vals), volatile=set(case['V']))
    except _expected():
        return {'err': True}
    if prog is None:
        return {'none': True}
    pre = [str(prog.duration)] + [str(c.duration) for c in prog] if case.get('pre_read') else None
    cur = dict(vals)
    steps = []
    for us in case['ups']:
        for k, v in us.items():
            if k in cur:
                cur[k] = v
        _update_tree(prog, us)
        try:
            fresh = pt.create_program(parameters=dict(cur), volatile=set(case['V']))
        except _expected():
            fresh = None
        steps.append({'dur': str(prog.duration), 'kids': [str(c.duration) for c in prog],
                      'fresh': None if fresh is None else str(fresh.duration)})
    return {'pre': pre, 'steps': steps}


def _run(case):
    if case['kind'] == 'frac':
        return _run_frac(case)
    if case['kind'] == 'dur':
        return _run_dur(case)
    if case['kind'] == 'compat':
        return _run_compat(case)
    if case['kind'] == 'float':
        return _run_float(case)
    vals = dict(case['vals'])
    if case['kind'] == 'tree':
        before, prog = _tree_pipeline(case, vals)
        events = sorted(set(EVENTS))
        after, fresh = [], []
        cur = dict(vals)
        vt = case.get('vt')
        for us in case['ups']:
            for k, v in us.items():
                if k in cur:
                    cur[k] = typed(v, vt)
            if prog is not None:
                _update_tree(prog, typed_dict(us, vt))
                after.append(obs_tree(prog))
            fresh.append(_tree_pipeline(case, cur)[0])
        return {'before': before, 'after': after, 'fresh': fresh, 'events': events}
    before, tp = _tabor_pipeline(case, vals)
    events = sorted(set(EVENTS))
    after, fresh = [], []
    cur = dict(vals)
    vt = case.get('vt')
    for us in case['ups']:
        for k, v in us.items():
            if k in cur:
                cur[k] = typed(v, vt)
        if tp is not None:
            arg = typed_dict(us, vt)
            snapshot = dict(arg)
            mods = tp.update_volatile_parameters(arg)
            if dict(arg) != snapshot:
                raise RuntimeError('update mapping changed by update_volatile_parameters')
            ms = []
            for k, e in mods.items():
                if isinstance(k, int):
                    ms.append(['adv', int(k), int(e[0]), int(e[1])])
                else:
                    ms.append(['seq', int(k[0]), int(k[1]), int(e[0]), int(e[1])])
            after.append({'mods': sorted(ms), 'obs': obs_tabor(tp, before['warn'])})
        fresh.append(_tabor_pipeline(case, cur)[0])
    return {'before': before, 'after': after, 'fresh': fresh, 'events': events}


# ---------------------------------------------------------------------------------------------------------------------
# Gallina printers
def g_kv(vals):
    return glist(lambda kv: '(%d%%N, %s)' % (NAME_ID[kv[0]], gZ(kv[1])), sorted(vals.items()))


def g_names(ns):
    return glist(lambda n: '%d%%N' % NAME_ID[n], ns)


def g_otree(t):
    vol = 'None' if t['vol'] is None else '(Some %s)' % glist(lambda i: '%d%%N' % (0 if i == '?' else i), t['vol'])
    wf = 'None' if t['wf'] is None else '(Some %d%%N)' % t['wf']
    return '(ONode %s %s %s %s)' % (gZ(t['c']), vol, wf, glist(g_otree, t['ch']))


def g_cotree(t):
    wf = 'None' if t['wf'] is None else '(Some %s)' % glist(lambda i: '%d%%N' % i, t['wf'])
    return '(CO %s %s %s %s)' % (gZ(t['c']), gbool(t['vol']), wf, glist(g_cotree, t['ch']))


def g_tobs(o):
    if 'err' in o:
        return 'TErr'
    if 'none' in o:
        return 'TNone'
    return '(TTree %s %s)' % (g_otree(o['tree']), gbool(o['warn']))


def g_pos(k):
    return '(PAdv %s)' % gnat(k[0]) if len(k) == 1 else '(PSeqPos %s %s)' % (gnat(k[0]), gnat(k[1]))


def g_tab(o):
    if 'err' in o:
        return 'TbErr'
    return '(Tb %s %s %s %s %s)' % (
        glist(lambda e: '(%s, %s)' % (gZ(e[0]), gnat(e[1])), o['adv']),
        glist(lambda t: glist(lambda d: '(%s, %d%%N, %s)' % (gZ(d[0]), d[1], gbool(d[2])), t), o['tabs']),
        glist(lambda w: '%d%%N' % w, o['wfs']), glist(g_pos, o['pos']), gbool(o['warn']))


def g_mod(m):
    if m[0] == 'adv':
        return '(TMod (PAdv %s) %s %s)' % (gnat(m[1]), gZ(m[2]), gnat(m[3]))
    return '(TMod (PSeqPos %s %s) %s %s)' % (gnat(m[1]), gnat(m[2]), gZ(m[3]), gnat(m[4]))


def to_coq(case, obs):
    term = _to_coq(case, obs)
    if case.get('kind') in ('tree', 'tabor', 'compat') and term != 'CCrash':
        try:
            if _classify_input(case, obs) is not None:
                _PENDING[vlib.canonical_hash([case, obs])] = term          # see _model_agrees
        except Exception:
            pass
    return term


def _to_coq(case, obs):
    if 'crash' in obs or 'hang' in obs:
        return 'CCrash'
    if case['kind'] == 'dur':
        return 'CSpecOnly'
    if case['kind'] == 'compat':
        if 'before' not in obs:
            return 'CCrash'
        b = obs['before']
        gb = 'CoErr' if 'err' in b else 'CoNone' if 'none' in b else '(CoTree %s %s)' % (g_cotree(b['tree']), gbool(b['warn']))
        fr = []
        for st in obs['steps']:
            fr.append('CoErr' if st['fresh'] == 'err' else 'CoNone' if st['fresh'] == 'none' else
                      '(CoTree %s %s)' % (g_cotree(st['ftree']), gbool(st['fwarn'])))
        return '(CCompat %s %s %s %s %s %s %s %s %s)' % (
            pt_coq(case['pt']), g_kv(case['vals']), g_names(case['V']), gZ(case['min_len']), gZ(case.get('q', 16)),
            glist(g_kv, case['ups']), gb,
            glist(lambda st: g_cotree(st['tree']), [st for st in obs['steps'] if 'tree' in st]), glist(lambda x: x, fr))
    if case['kind'] == 'float':
        if 'before' not in obs:
            return 'CCrash'
        exact = case['vt'] == 'tt'
        gq = lambda kv: '(%d%%N, %s)' % (NAME_ID[kv[0]], vlib.gQ(fval_in(kv[1], exact)))
        gfr = lambda f: 'None' if f == 'nonint' else '(Some None)' if f == 'none' else '(Some (Some %s))' % gZ(f)
        return '(CFloat %s %s %s %s %s %s %s %s)' % (
            gbool(not exact), fe_coq(FLOAT_TEMPLATES[case['tmpl']][2], None), glist(gq, sorted(case['vals'].items())),
            glist(lambda us: glist(gq, sorted(us.items())), case['ups']), gfr(obs['before']),
            glist(lambda a: '(%s, %s)' % (gZ(a[0]), gbool(a[1])), obs['after']), glist(gfr, obs['fresh']),
            glist(lambda t: '(%s, %s)' % (glist(gZ, t[0]), 'None' if t[1] is None else '(Some %s)' % glist(gZ, t[1])), obs['tab']))
    if case['kind'] == 'frac':
        gq = lambda kv: '(%d%%N, %s)' % (NAME_ID[kv[0]], vlib.gQ(vlib.frac_parse(kv[1]) if isinstance(kv[1], str) else kv[1]))
        return '(CFrac %s %s %s %s %s)' % (
            e_coq(case['expr']), glist(gq, sorted(case['vals'].items())),
            glist(lambda us: glist(gq, sorted(us.items())), case['ups']),
            glist(gZ, obs['after']),
            glist(lambda f: 'None' if f == 'nonint' else '(Some None)' if f == 'none' else '(Some (Some %s))' % gZ(f),
                  obs['fresh']))
    ups = glist(g_kv, case['ups'])
    if case['kind'] == 'tree':
        pl = {'none': 'PLNone', 'cleanup': 'PLCleanup', 'cleanupm': 'PLCleanup'}.get(case['pl']) or '(PLFlatten %s)' % gZ(int(case['pl'][4:]))
        return '(CTree %s %s %s %s %s %s %s %s)' % (
            pt_coq(case['pt']), g_kv(case['vals']), g_names(case['V']), pl, ups, g_tobs(obs['before']),
            glist(g_otree, obs['after']), glist(g_tobs, obs['fresh']))
    mode = {None: 'None', 'single': '(Some MSingle)', 'advanced': '(Some MAdvanced)'}[case['mode']]
    return '(CTabor %s %s %s %s %s %s %s %s %s %s %s)' % (
        pt_coq(case['pt']), g_kv(case['vals']), g_names(case['V']), gbool(case['cl']), mode, gZ(case['mn']),
        gZ(case['mx']), ups, g_tab(obs['before']),
        glist(lambda a: '(%s, %s)' % (glist(g_mod, a['mods']), g_tab(a['obs'])), obs['after']),
        glist(g_tab, obs['fresh']))


# ---------------------------------------------------------------------------------------------------------------------
def _has_vol(t):
    return t['vol'] is not None or any(_has_vol(c) for c in t['ch'])


def nontrivial(case, obs):
    if case['kind'] == 'dur':
        return 'steps' in obs and len({st['fresh'] for st in obs['steps']}) > 1
    if case['kind'] == 'frac':
        return 'after' in obs and len(set(obs['after'])) > 0 and any(f == 'nonint' for f in obs['fresh'])
    if case['kind'] == 'float':
        # some update changes the count to a value whose float evaluation is not exactly an integer
        return 'after' in obs and len({a[0] for a in obs['after']}) > 1 and any(k != 'exact' for k in float_classes(case))
    if case['kind'] == 'compat':
        return 'before' in obs and obs['before'].get('vol_left', False) and any(st.get('same') for st in obs['steps'])
    if 'before' not in obs:
        return False
    b = obs['before']
    if case['kind'] == 'tree':
        if 'tree' not in b or not _has_vol(b['tree']):
            return False
        prev = b['tree']
        for a in obs['after']:
            if a != prev:
                return True
            prev = a
        return False
    if 'err' in b or not b['pos']:
        return False
    return any(a['mods'] for a in obs['after'])


def _has_named_map(p):
    k = p[0]
    if k == 'atom':
        return False
    if k == 'seq':
        return any(_has_named_map(q) for q in p[1])
    if k in ('rep', 'for'):
        return _has_named_map(p[3])
    return (len(p) > 3 and bool(p[3])) or _has_named_map(p[2])


def histogram_keys(case, obs):
    keys = [case['kind']]
    if case['kind'] == 'dur':
        keys.append('dur:pre_read=%s' % bool(case.get('pre_read')))
        if 'steps' not in obs:
            keys.append('dur:' + ('crash' if 'crash' in obs or 'hang' in obs else 'no_program'))
        return keys
    if case['kind'] == 'frac':
        for f in obs.get('fresh', []):
            keys.append('frac:fresh=%s' % (f if isinstance(f, str) else 'count'))
        if 'after' not in obs:
            keys.append('crash')
        return keys
    if case['kind'] == 'float':
        keys.append('float:template=' + case['tmpl'])
        keys.append('float:value_type=' + case['vt'])
        if case.get('fam'):
            keys.append('family:' + case['fam'])
        for k in sorted(set(float_classes(case))):
            keys.append('float:' + k)
        if 'before' not in obs:
            keys.append('crash')
        elif obs['before'] in ('nonint', 'none'):
            keys.append('float:no_program')
        if any(a[1] for a in obs.get('after', [])):
            keys.append('float:no_integer_warning')
        if nontrivial(case, obs):
            keys.append('nontrivial')
        return keys
    if case['kind'] == 'compat':
        b = obs.get('before', {})
        keys.append('compat:min_len=%d' % case['min_len'])
        keys.append('compat:quantum=%d' % case.get('q', 16))
        if case.get('fam'):
            keys.append('family:' + case['fam'])
        keys.append('compat:' + ('err' if 'err' in b else 'none' if 'none' in b else 'warn' if b.get('warn') else
                                 'volatile_kept' if b.get('vol_left') else 'no_volatile_left'))
        if nontrivial(case, obs):
            keys.append('nontrivial')
        return keys
    if case['kind'] == 'tree':
        keys.append('pipeline:' + case['pl'])
    else:
        keys.append('tabor:mode=%s' % case['mode'])
        keys.append('tabor:cleanup=%s' % case['cl'])
    keys.append('volatile:%d' % len(case['V']))
    keys.append('updates:%d' % len(case['ups']))
    if case.get('fam'):
        keys.append('family:' + case['fam'])
    if case.get('vt') not in (None, 'int'):
        keys.append('update_value_type:' + case['vt'])
    if case.get('alias'):
        keys.append('aliased_template_objects')
    if _has_named_map(case['pt']):
        keys.append('named_mapping')
    if any(v == 0 for us in case['ups'] for v in us.values()):
        keys.append('update_to_zero')
    if 'before' in obs:
        b = obs['before']
        keys.append('before:' + ('err' if 'err' in b else 'none' if 'none' in b else 'warn' if b.get('warn') else 'ok'))
        for ev in obs.get('events', []):
            keys.append('event:' + ev)
        if case['kind'] == 'tabor' and 'adv' in b:
            keys.append('tabor:single' if len(b['adv']) == 1 and len(b['tabs']) == 1 else 'tabor:advanced')
            keys.append('tabor:volatile_positions:%s' % min(len(b['pos']), 3))
            if any(a['mods'] for a in obs['after']):
                keys.append('tabor:update_changes_table')
        if nontrivial(case, obs):
            keys.append('nontrivial')
    else:
        keys.append('crash')
    return keys


def ref_dropped_returns(p, s0, s1, delta):
    """a repetition whose volatile count is <= 0 under the INITIAL values s0 (so it is dropped at instantiation) has a
    positive count under the values s1: only then can the finding zero-count-dropped explain a difference between the
    updated program and a fresh instantiation"""
    k = p[0]
    if k == 'for':
        return ref_dropped_returns(desugar1(p), s0, s1, delta)
    if k == 'atom':
        return False
    if k == 'seq':
        return any(ref_dropped_returns(q, s0, s1, delta) for q in p[1])
    if k == 'rep':
        v0 = e_eval(p[1], s0)
        if v0 <= 0:
            return any(delta(x) for x in e_vars(p[1])) and e_eval(p[1], s1) > 0 and bool(ref_inst(p[3], s1, delta))
        return ref_dropped_returns(p[3], s0, s1, delta)
    mp = dict((n, e) for n, e in p[1])
    m_ = lambda s: (lambda x: e_eval(mp[x], s) if x in mp else s(x))
    return ref_dropped_returns(p[2], m_(s0), m_(s1), lambda x: any(delta(y) for y in e_vars(mp[x])) if x in mp else delta(x))


def _dropped_comes_back(case):
    V = set(case['V'])
    cur = dict(case['vals'])
    s0 = env_fn(dict(cur))
    try:
        for us in case['ups']:
            for k2, v in us.items():
                if k2 in cur:
                    cur[k2] = v
            if ref_dropped_returns(case['pt'], s0, env_fn(dict(cur)), lambda x: x in V):
                return True
    except KeyError:
        pass
    return False


_MODEL_AGREES = {}
_PENDING = {}


def _model_agrees(case, obs):
    """round 5 (audit of the known-finding predicates): the Coq model reproduces every known finding, so a failing case
    is filed under a known finding only if the MODEL computes exactly the implementation's observation on it
    (check_corr, one coqc call per such case, memoised).  A change of the code that shows only inside the input class
    of a finding is then a violation instead of disappearing under the finding."""
    key = vlib.canonical_hash([case, obs])
    if key not in _MODEL_AGREES and _PENDING:
        # every case of the run that lies in the input class of a finding was registered by to_coq: one batch
        pend = list(_PENDING.items())
        _PENDING.clear()
        wd = os.path.join(vlib.BUILD, 'c15_classify_%d' % os.getpid())
        try:
            res = vlib.run_coq_cases(wd, CORR_IMPORTS, [CHECK_CORR], [t for _, t in pend], case_type='case', shard=SHARD,
                                     prelude='')
            bad = set(res[CHECK_CORR])
            for i, (k, _) in enumerate(pend):
                _MODEL_AGREES[k] = i not in bad
        except Exception:
            pass
        finally:
            vlib.rmtree(wd)
    if key not in _MODEL_AGREES:
        wd = os.path.join(vlib.BUILD, 'c15_classify_%d' % os.getpid())
        try:
            res = vlib.run_coq_cases(wd, CORR_IMPORTS, [CHECK_CORR], [to_coq(case, obs)], case_type='case', shard=SHARD,
                                     prelude='')
            _MODEL_AGREES[key] = not res[CHECK_CORR]
        except Exception:
            _MODEL_AGREES[key] = False
        finally:
            vlib.rmtree(wd)
    return _MODEL_AGREES[key]


def _py_round_clamp(v):
    return max(0, round(v))          # round() of a Fraction: nearest integer, ties to even


def _noninteger_as_predicted(case, obs):
    """the finding noninteger-update-rounds predicts every observation of a frac / float case exactly: after an update
    the count is the value of the expression rounded to the nearest integer (ties to even), clamped at 0; a fresh
    instantiation raises exactly where the value is farther than the tolerance from an integer and gives the same
    count elsewhere.  Independent re-evaluation (Fractions / plain Python floats)."""
    import fractions
    try:
        if case['kind'] == 'frac':
            cur = {k: vlib.frac_parse(str(v)) for k, v in case['vals'].items()}
            for us, a, f in zip(case['ups'], obs['after'], obs['fresh']):
                for k2, v in us.items():
                    cur[k2] = vlib.frac_parse(v)
                val = fractions.Fraction(e_eval(case['expr'], env_fn(cur)))
                want = _py_round_clamp(val)
                if a != want or f != ('nonint' if val.denominator != 1 else ('none' if want == 0 else want)):
                    return False
            return len(obs['after']) == len(case['ups'])
        exact = case['vt'] == 'tt'
        fe = FLOAT_TEMPLATES[case['tmpl']][2]
        cur = dict(case['vals'])
        cls = float_classes(case)
        if len(obs['after']) != len(case['ups']) or not isinstance(obs['before'], int):
            return False
        for i, (us, a, f) in enumerate(zip(case['ups'], obs['after'], obs['fresh'])):
            cur.update({k: v for k, v in us.items() if k in cur})
            val = fractions.Fraction(fe_eval_py(fe, cur, exact))
            want = _py_round_clamp(val)
            if a[0] != want:
                return False
            k = cls[i + 1]
            if k == 'outside_tolerance':
                if f != 'nonint':
                    return False
            elif k != 'boundary' and f != ('none' if want == 0 else want):
                return False
        return True
    except (KeyError, ZeroDivisionError, TypeError, ValueError):
        return False


def classify(case, obs, confirm=True):
    """id of the known finding a failing case belongs to (precise predicates on the input / recorded call sites).
    Round 5: every predicate is narrowed by a prediction of what the implementation shows UNDER the finding
    (confirm=False skips the model evaluation; used while shrinking)"""
    fid = _classify_input(case, obs)
    if fid is None or 'crash' in obs or 'hang' in obs:
        return None if ('crash' in obs or 'hang' in obs) else fid
    if fid == 'C15-noninteger-update-rounds':
        return fid if _noninteger_as_predicted(case, obs) else None
    if fid == 'C15-volatile-update-stale-duration':
        return fid if _stale_duration_as_predicted(case, obs) else None
    if confirm and case['kind'] in ('tree', 'tabor', 'compat'):
        return fid if _model_agrees(case, obs) else None
    return fid


def _stale_duration_as_predicted(case, obs):
    """stale-duration predicts: the root (count 1) answers with the body duration it cached at its FIRST read for ever
    after (= the right initial duration when it was read before the updates); the duration of every fresh
    instantiation is the reference duration of the template"""
    try:
        V0 = set(case['V'])
        cur = dict(case['vals'])
        ref = [ref_size(ref_inst(case['pt'], env_fn(dict(cur)), lambda x: x in V0))[0] * 192]
        for us in case['ups']:
            for k2, v in us.items():
                if k2 in cur:
                    cur[k2] = v
            ref.append(ref_size(ref_inst(case['pt'], env_fn(dict(cur)), lambda x: x in V0))[0] * 192)
        steps = obs['steps']
        num = lambda x: vlib.frac_parse(str(x))
        # the root answers with ONE value for ever (cached at its first read; below it, body durations cached while
        # the program was built may be mixed in, so the value itself is only predicted when it was read before)
        first = ref[0] if obs.get('pre') else (num(steps[0]['dur']) if steps else None)
        if obs.get('pre') and num(obs['pre'][0]) != ref[0]:
            return False
        for i, st in enumerate(steps):
            if num(st['dur']) != first:
                return False
            if st['fresh'] is not None and num(st['fresh']) != ref[i + 1]:
                return False
        return True
    except (KeyError, ValueError, TypeError, IndexError):
        return False


def _classify_input(case, obs):
    if case['kind'] == 'dur':
        # the reference duration of the template changes at some update (then a cached body duration above the
        # volatile count is out of date)
        V0 = set(case['V'])
        cur = dict(case['vals'])
        try:
            durs = [ref_size(ref_inst(case['pt'], env_fn(cur), lambda x: x in V0))[0]]
            for us in case['ups']:
                for k2, v in us.items():
                    if k2 in cur:
                        cur[k2] = v
                durs.append(ref_size(ref_inst(case['pt'], env_fn(cur), lambda x: x in V0))[0])
        except KeyError:
            return None
        if len(set(durs)) > 1:
            return 'C15-volatile-update-stale-duration'
        return None
    if case['kind'] == 'compat':
        b = obs.get('before', {})
        # (the finding make-compatible-bakes-volatile-child is FIXED in /repo 57d5a3e: a volatile count that vanishes
        # into a concatenated waveform without a VolatileModificationWarning is a violation again, no classification)
        V = set(case['V'])
        try:
            if ref_dropped_volatile(case['pt'], env_fn(dict(case['vals'])), lambda x: x in V) and _dropped_comes_back(case):
                return 'C15-zero-count-dropped'
        except KeyError:
            pass
        return None
    if case['kind'] == 'float':
        # independent re-evaluation with plain Python floats: some cumulative value of the count expression is
        # farther than 1e-6 from the nearest integer (then instantiation raises and update rounds)
        if any(k == 'outside_tolerance' for k in float_classes(case)[1:]):
            return 'C15-noninteger-update-rounds'
        return None
    if case['kind'] == 'frac':
        # some cumulative value of the count expression is not an integer
        cur = {k: vlib.frac_parse(str(v)) for k, v in case['vals'].items()}
        for us in case['ups']:
            for k2, v in us.items():
                cur[k2] = vlib.frac_parse(v)
            if e_eval(case['expr'], env_fn(cur)).denominator != 1:
                return 'C15-noninteger-update-rounds'
        return None
    if 'before' not in obs:
        return None
    V = set(case['V'])
    cur = dict(case['vals'])
    try:
        if ref_dropped_volatile(case['pt'], env_fn(cur), lambda x: x in V) and _dropped_comes_back(case):
            return 'C15-zero-count-dropped'
    except KeyError:
        pass
    if case['kind'] == 'tabor' or case.get('pl') != 'none':
        for us in case['ups']:
            for k2, v in us.items():
                if k2 in cur:
                    cur[k2] = v
            try:
                if ref_negative_chain(case['pt'], env_fn(cur), lambda x: x in V):
                    return 'C15-merged-negative-product'
            except KeyError:
                pass
    if case['kind'] == 'tabor':
        b = obs['before']
        if 'adv' in b:
            # two volatile positions of different advanced entries resolve to the same shared sequencer table
            tabs_of = {}
            for k in b['pos']:
                if len(k) == 2:
                    tabs_of.setdefault((b['adv'][k[0]][1], k[1]), set()).add(k[0])
            if any(len(s) > 1 for s in tabs_of.values()):
                # ... and a fresh compilation with the updated values does not share the tables in the same way (the
                # counts that were equal at instantiation differ now); when no fresh compilation exists the sharing
                # cannot be compared and the broad predicate stays
                pat = [e[1] for e in b['adv']]
                fr = [f for f in obs.get('fresh', []) if 'adv' in f]
                if not fr or any([e[1] for e in f['adv']] != pat for f in fr):
                    return 'C15-tabor-shared-volatile-table'
    return None


# ---------------------------------------------------------------------------------------------------------------------
def _one_step_reductions(case):
    out = []
    ups = case.get('ups', [])
    for i in range(len(ups)):
        if len(ups) > 1:
            out.append(dict(case, ups=ups[:i] + ups[i + 1:]))
        if isinstance(ups[i], dict) and len(ups[i]) > 1:
            for k in ups[i]:
                out.append(dict(case, ups=ups[:i] + [{a: b for a, b in ups[i].items() if a != k}] + ups[i + 1:]))
    for flag in ('alias', 'vt'):
        if case.get(flag) not in (None, False, 'int'):
            out.append({k: v for k, v in case.items() if k != flag})
    if 'pt' in case:
        def subs(p):
            k = p[0]
            res = []
            if k == 'seq':
                res += list(p[1])
                if len(p[1]) > 2:
                    res += [['seq', p[1][:i] + p[1][i + 1:]] for i in range(len(p[1]))]
                for i, q in enumerate(p[1]):
                    res += [['seq', p[1][:i] + [v] + p[1][i + 1:]] for v in subs(q)]
            elif k == 'rep':
                res.append(p[3])
                res += [['rep', p[1], p[2], v] for v in subs(p[3])]
                if p[2]:
                    res.append(['rep', p[1], False, p[3]])
            elif k == 'for':
                res.append(desugar1(p))
                res += [['for', p[1], p[2], v] for v in subs(p[3])]
            elif k == 'map':
                res += [['map', p[1], v] + p[3:] for v in subs(p[2])]
                if len(p) > 3 and p[3]:
                    res.append(['map', p[1], p[2]])
            return res
        for v in subs(case['pt']):
            if v[0] == 'atom':
                continue
            fr = pt_free(v)
            if not fr <= set(case['vals']) | {k for us in ups if isinstance(us, dict) for k in us}:
                continue
            out.append(dict(case, pt=v, V=[x for x in case['V'] if x in fr] or case['V']))
    return out


def shrink(case, obs, ctx):
    """greedy shrinking of a case on which the specification fails: every round runs all one-step reductions (fewer
    updates, smaller template, no aliasing / plain ints) on the implementation and lets the Coq specification (and
    py_spec) judge them in one coqc call; a reduction is kept only if it fails with the same classification"""
    if case.get('kind') == 'float':
        return _shrink_float(case, obs)
    if case.get('kind') not in ('tree', 'tabor', 'compat'):
        return case, obs
    wd = os.path.join(ctx['workdir'], 'shrink')
    want = classify(case, obs, confirm=False)
    for _ in range(8):
        cands = _one_step_reductions(case)[:60]
        if not cands:
            break
        cobs = [run_impl(c) for c in cands]
        try:
            res = vlib.run_coq_cases(wd, CORR_IMPORTS, [CHECK_SPEC], [to_coq(c, o) for c, o in zip(cands, cobs)],
                                     case_type='case', shard=SHARD, prelude='')
        except Exception:
            break
        bad = set(res[CHECK_SPEC]) | {i for i, (c, o) in enumerate(zip(cands, cobs)) if py_spec(c, o)}
        pick = [i for i in sorted(bad) if 'crash' not in cobs[i] and 'hang' not in cobs[i] and classify(cands[i], cobs[i], confirm=False) == want]
        if not pick:
            break
        case, obs = cands[pick[0]], cobs[pick[0]]
    return case, obs


def _float_fails(case, obs):
    """Python rendering of check_spec for the float stream (used for shrinking only)"""
    if 'before' not in obs or not isinstance(obs['before'], int):
        return True
    for a, f, t in zip(obs['after'], obs['fresh'], obs['tab']):
        if f == 'nonint' or a[0] != (0 if f == 'none' else f) or (t[1] is not None and t[0] != t[1]):
            return True
    return False


def _shrink_float(case, obs):
    want = classify(case, obs)
    for _ in range(6):
        ups = case['ups']
        cands = [dict(case, ups=ups[:i] + ups[i + 1:]) for i in range(len(ups)) if len(ups) > 1]
        if case['vt'] != 'float':
            cands.append(dict(case, vt='float'))
        for c in cands:
            o = run_impl(c)
            if 'crash' not in o and 'hang' not in o and _float_fails(c, o) and classify(c, o) == want:
                case, obs = c, o
                break
        else:
            break
    return case, obs


def search_failing(ctx, broken):
    """model and implementation disagree on ctx['near'] while the specification accepts the observation there: look
    for an input close to it (more / other update values incl. 0 and 1, every volatile name, the other pipelines) on
    which the property itself fails (specification oracle on the implementation; known findings are skipped)"""
    near = ctx.get('near')
    if not near or near.get('kind') not in ('tree', 'tabor', 'compat') or 'pt' not in near:
        return None
    names = sorted(set(near.get('V', [])) & set(near.get('vals', {}))) or sorted(near.get('vals', {}))
    seqs = []
    for v in names:
        seqs += [[{v: 0}], [{v: 1}], [{v: 3}], [{v: 2}, {v: 0}, {v: 2}], [{v: 4}, {v: 1}]]
    if len(names) > 1:
        seqs.append([{v: 2 for v in names}, {v: 1 for v in names}])
    cands = []
    for sq in seqs:
        for ups in (near['ups'] + sq, sq):
            base = dict(near, ups=ups, V=sorted(set(near.get('V', [])) | set(names)))
            if not sizes_ok(base['pt'], base['vals'], set(base['V']), ups):
                continue
            cands.append(base)
            if near['kind'] == 'tree':
                cands += [dict(base, pl=pl) for pl in ('none', 'cleanup', 'flat2') if pl != near.get('pl')]
            elif near['kind'] == 'tabor':
                cands += [dict(base, cl=not near.get('cl', False))]
    cands = cands[:90]
    if not cands:
        return None
    cobs = [run_impl(c) for c in cands]
    try:
        res = vlib.run_coq_cases(os.path.join(ctx['workdir'], 'search'), CORR_IMPORTS, [CHECK_SPEC],
                                 [to_coq(c, o) for c, o in zip(cands, cobs)], case_type='case', shard=SHARD, prelude='')
    except Exception:
        return None
    bad = sorted(set(res[CHECK_SPEC]) | {i for i, (c, o) in enumerate(zip(cands, cobs)) if py_spec(c, o)})
    for i in bad:
        if classify(cands[i], cobs[i]) is None:
            return cands[i], cobs[i], 'specification oracle (check_spec) rejects the implementation on an input next to the disagreeing one'
    return None


MANIFEST = {
    'level_text': 'Proof (Coq, unbounded in template shape, mappings, volatile set and update history) for the model of '
                  'instantiation / update / merge / cleanup on program trees: a count is marked volatile iff it depends '
                  'on a volatile parameter through the enclosing mappings (C15_marked: model = scope-free specification), '
                  'updating equals re-instantiating and the updated tree is the tree the specification describes for the '
                  'new values (C15_update_meets_spec; guard: no count <= 0, refuted without: known finding), and after '
                  'cleanup every played waveform lies under a changeable count iff the specification says so '
                  '(C15_cleanup_marks, C15_cleanup_update_marks); merged counts of single-child chains of any length '
                  '(C15_merge_chain_count).  Conditional results: flatten_and_balance, '
                  'prepare_program_for_advanced_sequence_mode, the Tabor compilation end to end and make_compatible '
                  'commute with ONE update when no VolatileModificationWarning is raised and the second run takes the '
                  'same decisions (and shares the same sequencer tables) - these are hypotheses about the second run; '
                  'input-level conditions are proved for SINGLE mode (unconditional, and for EVERY sequence of updates: '
                  'C15_tabor_single_mode_sequence), skip-only compilations, tables that are long enough, and fixed '
                  'capacity in the splitting loop.  Recorded positions of compiled tables (round 6): the parser records '
                  'exactly the volatile counts of the sequence tables it is handed (C15_tabor_positions, '
                  'C15_tabor_parser_marks, no hypothesis); in SINGLE mode, per played waveform, "a count is recorded as '
                  'changeable" is exactly the mark of the scope-free specification (C15_tabor_single_marks, '
                  'unconditional); in advanced mode only the parser half is proved '
                  '(C15_tabor_advanced_positions_partial).  TaborProgram.update_volatile_parameters is '
                  'proved at the level of table cells (new values written, nothing else changes, exactly the changed '
                  'entries reported) under the guard that positions sharing a cell agree on the new value (refuted '
                  'without it: known finding shared table).  Counts evaluated in binary64 (ModelF.v): for every value a '
                  'fresh instantiation accepts the update path yields the same count; error analysis for quotients / '
                  'products K < 2^20.  NOT proved, tested only (see notes, clause map): that in ADVANCED sequence mode '
                  'the preparation (flatten_and_balance, prepare_program_for_advanced_sequence_mode) hands the parser '
                  'tables whose volatile counts are exactly the dependent counts of the specification, that the tables '
                  'play the denotation of the template, sequences of updates on Tabor programs in advanced mode, '
                  'ForLoopPT.',
    'level_note': 'Trusted: Coq kernel, sympy (expression evaluation / structural equality / printed operation order), '
                  'IEEE-754 arithmetic of CPython and numpy, harness observation of Loop trees and Tabor tables.  The '
                  'decision lists of prepare / tabor_compile / make_compatible are ghost outputs of the model.  '
                  'check_spec uses Spec.v only (plus eval / vars / lookup / mem of Model.v: expression arithmetic).  '
                  'guard_C15_zero_count is wider than the finding it is named after (it also excludes fixed counts <= 0 '
                  'and updates to 0).  Known findings: zero count dropped, merged negative product, shared volatile '
                  'table, non-integer update rounds, stale cached durations after an update (Python-side oracle only); a '
                  'failing case is filed under a known finding only if the model (tree / Tabor / make_compatible cases) '
                  'or an exact prediction (non-integer, duration cases) reproduces the observation - anything else '
                  'inside the input class of a finding is a violation.  Fixed in /repo: 1ee1549, 25f27a3, 86f493f, '
                  'db69ac0 (Tabor), 57d5a3e (make_compatible).',
    'technique': 'Coq proof over a hand-written model + exact correspondence check against qupulse',
    'design_ref': 'DESIGN.md §5 C15',
}
