"""C13 — parameter scopes behave as the mapping they denote, including volatility.

A case = a stack of scope layers (DictScope root(s), MappedScope / RangeScope / JointScope layers) + a history of
operations executed on ONE object graph (so that the memoisation fields accumulate) + the observation after every
operation.  The Coq side (coq/C13/Corr.v) re-runs the history on the model (check_corr) and evaluates the
specification (denote_scope / domain / depends_on_volatile / rebuild) on the observations (check_spec).
"""
import fractions
import itertools
import os
import warnings

import vlib
from vlib import gZ, gQ, gbool, gN

F = fractions.Fraction
PID = 'C13'
COQ_DIRS = ['common', 'C13']
TARGETS = ['C13/Props.vo', 'C13/Corr.vo']
MODEL_TARGETS = ['C13/Corr.vo']
PROPS_FILE = 'C13/Props.v'
PROPS_MODULE = 'QV.C13.Props'
CORR_IMPORTS = ['QV.C13.Model', 'QV.C13.Pure', 'QV.C13.Spec', 'QV.C13.Heap', 'QV.C13.TEq', 'QV.C13.Corr']
CHECK_CORR = 'check_corr'
CHECK_SPEC = 'check_spec'
SHARD = 200
RULE = ('scope stacks: DictScope root (values = small integers / dyadic rationals as int / float / TimeType / numpy scalars, '
        'zero in every type, volatile subset, sometimes a volatile '
        'name that is not a key), then up to 6 layers of MappedScope (1-3 expressions over + - x /const /expression Min Max '
        '(divisor values +-2^k or 0), mostly '
        'over available names, sometimes a missing one; 10 % expressions whose value does not depend on a variable they '
        'mention: 0*x, x-x (sympy cancels x), (x+1)(x-1)-x*x, Min+Max-x (sympy keeps x)), RangeScope (fresh index / index '
        'shadowing a constant / a volatile name / a mapped name) and JointScope (1-3 entries over independently '
        'generated sub-stacks, sometimes sharing one object); histories of 4-14 operations from {get, in, iter, len, '
        'keys, items, as_dict, get_volatile_parameters keys, get_volatile_parameters expressions evaluated at the '
        'current and at changed constants, change_constants, Scope.overwrite, ==/hash against a variant (identical / '
        'permuted insertion orders / ints as floats / different)} on one object graph; plus a deterministic family: 3 '
        'roots (1 / 2 / 3 volatile constants, zeros of three number types) x all stacks of <= 2 layers (quick: thinned by a '
        'fixed rule; thorough: all, and 3 layers over the second root) out of 25 name-coincidence layers (a->a+1, v->7, '
        'v->0, v->a, swaps, cycle, variable overwritten by the same mapping, divisions by volatile / constant names, loop '
        'index = constant / volatile / mapped name, one object under two names) with a fixed ~40-op history (proper-subset '
        'change_constants three times in a row to 0 / 0.0 / TimeType(0), two overwrites each followed by the volatile '
        'queries, == against permuted and retyped twins); thorough '
        'adds all stacks of <= 3 layers over 3 names (complete for the 4 roots with a volatile constant, 25 % of the '
        '3-layer stacks for the 2 roots without) with a fixed full history.  Non-trivial = at least two layers and at '
        'least one layer that is not a DictScope; distinct = distinct canonical JSON.  Round 4, deterministic: JointScope '
        'entries over sub scopes with DIFFERENT roots (each entry as root / MappedScope / RangeScope over MappedScope, '
        'change_constants touching the root at one lookup position only / two / none, bare and below a MappedScope / '
        'RangeScope); a loop index named like a (volatile or plain) constant from which a layer BELOW the loop derives a '
        'parameter, with change_constants of that constant; joint scopes built by the real '
        'VolatileRepetitionCount.operation; == / != / hash cases (kind eqt) between a scope and a twin (same, permuted, '
        'DictScope constants / index values as float / TimeType / numpy scalars, exact mapping constants as TimeType / '
        'numpy.int64: must be equal), a copy with one / all mapping constants turned into floats, a scope of ANOTHER '
        'class with the same mapping (inner scope, empty MappedScope layer, JointScope of all names, RangeScope with a '
        'no-op index, DictScope of the denotation), and value / volatile / index / expression / dropped-entry variants; '
        'plus 60 random stacks x 4 such variants.  DictScope roots come from DictScope(), from_mapping and from_kwargs.  '
        'Round 5, deterministic: JointScope that takes a name n from a sub scope in which n is NOT volatile while another '
        'sub scope of the same joint scope has a volatile parameter called n (constant marked volatile there / derived from '
        'one / loop index), both insertion orders, bare / below a MappedScope / built by VolatileValue.operation, with '
        'change_constants on either root.  Round 6, deterministic (family6, 81 cases): stacks that do NOT denote a whole '
        'mapping (an expression over a name nobody provides / a division by a constant of value 0) below, above and between '
        'name-coincidence layers (swaps, cycle, a->a+1, v->7, loop index = constant / volatile name), views before any '
        'lookup, lookups of every name, one name overwritten twice, change_constants; returned values are judged by '
        'check_spec against the value of the single name.  Must-be-equal twins inside histories are judged by py_spec.')
TRUSTED = [
    'Coq 8.16.1 kernel + vm_compute (no native_compute)',
    'sympy / qupulse.expressions evaluate + - x /const Min Max over small integers and dyadic rationals exactly; '
    'Expression.variables are the free symbols of the tree sympy holds (checked on every expression; when sympy '
    'cancels a variable while building the object the model receives the tree sympy holds, value-checked against the '
    'source expression); recursive_substitution (evaluate_symbolic) preserves values',
    'frozendict behaves as an immutable dict',
    'harness: generators, scope builder and its sharing rule (s_labels: identical sub-scopes inside one joint scope are '
    'one object; checked for consistency by lab_okb), sym_to_json / sym_to_json_typed (sympy\'s canonical tree of an '
    'expression text, value-checked at three points), exact number conversion (as_integer_ratio), Gallina printers; '
    'exactness filter for divisions (divisor values +-2^k, evaluated on the tree sympy holds, environments as the '
    'implementation evaluates them) and, only for cases with a division by an expression, replacement of a case whose '
    'observation contains a rounded float by the empty history (counted as dropped:inexact-float-division)',
]
ASSUMPTIONS = [
    'expressions are restricted to + - x, division (by a constant or by an expression; a divisor of value 0 = the scope '
    'does not denote), Min, Max over rationals',
    '"depends on a volatile parameter" is read as syntactic dependence on the variables of the expression object '
    '(what the code computes); proved to over-approximate semantic dependence (C13_unreported_is_constant), the '
    'converse is refuted (C13_semantic_dependence_refuted)',
    'the dependency-expression theorem is stated for environments that extend every DictScope root (roots of a joint '
    'scope that disagree on a shared name have no such environment)',
    'scopes of different classes are unequal (all four __eq__ answer NotImplemented for a foreign class since the '
    'round-4 repair of JointScope.__eq__); the model says false, the correspondence compares',
    'KeyError and ParameterNotProvidedException are the same observable error kind (JointScope raises a plain KeyError)',
    'hash VALUES are not compared: eq => equal hash is proved for the modelled __hash__ structure under every string / '
    'tuple hash, every number hash that respects == and every order-independent frozenset combiner (CPython\'s is one), '
    'and observed on the implementation in every change / == operation (incl. permuted and retyped twins)',
    'Expression.__eq__ of the code is structural in sympy (Expression(1) != Expression(1.0)): TEq.v carries the kind '
    '(exact / Float) of every expression constant and is compared with the code on the TYPED TREE SYMPY HOLDS for each '
    'expression (sympy\'s canonicalisation of an expression text is trusted, value-checked at three points); the '
    'histories (Model.v) compare constants by value and never meet mapping constants that differ only in kind',
    'the explicit heap (shared objects, allocation on change_constants / overwrite) is run in check_corr from the object '
    'identities of the harness\'s scope builder (admission test lab_okb, proved sufficient: C13_heap_admission); only '
    'values are observed, never the identity of a scope returned by change_constants (returning self or a copy is the '
    'implementation\'s choice)',
    'on a scope that does not denote a whole mapping (some mapping expression has no value) check_spec judges a lookup '
    'that returns and every entry of a returned dictionary view against the value of that single name '
    '(SpecLazy.value_at, C13_lookup_partial), one-sided: where the name has no value in the model the code may return '
    'one (sympy cancels a zero divisor out of (p*p)/p); which call raises there is not judged',
    'values(), Mapping.get, VolatileValue.volatile_property and int(VolatileRepetitionCount) are cross-checked on the '
    'harness side only (a disagreement is reported as a crashed case)',
]

NAMES = ['p%d' % i for i in range(8)]
NIDX = {n: i for i, n in enumerate(NAMES)}
MAXNUM = 2 ** 36
MAXDEN = 2 ** 10


# ---------------------------------------------------------------------------------------------------------------------
# JSON scopes / expressions:
#   expr  = ['c', 'num/den'] | ['v', name] | ['+', a, b] | ['-', a, b] | ['*', a, b]
#         | ['/', a, 'q'] (division by the non-zero constant q) | ['min', a, b] | ['max', a, b]
#         | ['div', a, b] (division by any expression; a divisor of value 0 cannot be evaluated)
#   scope = {'t':'dict','vals':[[name,'q'],..],'vol':[names]} | {'t':'mapped','o':scope,'m':[[name,expr],..]}
#         | {'t':'range','i':scope,'n':name,'v':'q'} | {'t':'joint','l':[[name,scope],..]}

def V(v):
    """exact value of a value string 'num[/den][@type]' (type tag: how the Python number is built, see _py_value)"""
    return F(v.split('@')[0])


def e_vars(e):
    if e[0] == 'c':
        return []
    if e[0] == 'v':
        return [e[1]]
    if e[0] == '/':
        return e_vars(e[1])
    return e_vars(e[1]) + e_vars(e[2])


def _pow2(q):
    n, d = abs(q.numerator), q.denominator
    return (n == 1 and d & (d - 1) == 0) or (d == 1 and n & (n - 1) == 0)


def e_eval(e, env, strict=True):
    """exact evaluation; None if a variable is missing or a divisor is 0; strict: raises OverflowError if a magnitude
    bound is exceeded or a divisor expression has a value that is not +-2^k (the implementation divides in binary
    floating point: only then every quotient, also of sympy's rewritten form a * b**-1, is exact)"""
    if not strict:
        try:
            return _e_eval(e, env, False)
        except ZeroDivisionError:
            return None
    return _e_eval(e, env, True)


def _e_eval(e, env, strict):
    if e[0] == 'c':
        return V(e[1])
    if e[0] == 'v':
        x = env.get(e[1])
        return V(x) if isinstance(x, str) else x
    if e[0] == '/':
        a = _e_eval(e[1], env, strict)
        if a is None:
            return None
        r = a / F(e[2])
        if strict and (abs(r.numerator) > MAXNUM or r.denominator > MAXDEN):
            raise OverflowError
        return r
    a, b = _e_eval(e[1], env, strict), _e_eval(e[2], env, strict)
    if a is None or b is None:
        return None
    if e[0] == 'div':
        if b == 0:
            return None
        if strict and not _pow2(b):
            raise OverflowError
        r = a / b
        if strict and (abs(r.numerator) > MAXNUM or r.denominator > MAXDEN):
            raise OverflowError
        return r
    r = {'+': lambda: a + b, '-': lambda: a - b, '*': lambda: a * b, 'min': lambda: min(a, b),
         'max': lambda: max(a, b)}[e[0]]()
    if strict and (abs(r.numerator) > MAXNUM or r.denominator > MAXDEN):
        raise OverflowError
    return r


def c_float(v):
    """the constant is a sympy Float inside an expression (built from a Python / numpy float)"""
    return '@' in v and v.split('@')[1] in ('f', 'n')


def e_str(e):
    if e[0] == 'c':
        f = V(e[1])
        if c_float(e[1]):
            return '(%r)' % float(f)                  # a float literal: sympy holds a Float
        return '(%d)' % f.numerator if f.denominator == 1 else '(%d/%d)' % (f.numerator, f.denominator)
    if e[0] == 'v':
        return e[1]
    if e[0] == '/':
        return '(%s / %s)' % (e_str(e[1]), e_str(['c', e[2]]))
    if e[0] in ('min', 'max'):
        return '%s(%s, %s)' % (e[0].capitalize(), e_str(e[1]), e_str(e[2]))
    if e[0] == 'div':
        return '(%s / %s)' % (e_str(e[1]), e_str(e[2]))
    return '(%s %s %s)' % (e_str(e[1]), e[0], e_str(e[2]))


def e_ops(e):
    if e[0] in ('c', 'v'):
        return set()
    if e[0] == '/':
        return {'/'} | e_ops(e[1])
    return {e[0]} | e_ops(e[1]) | e_ops(e[2])


def s_denote(s):
    """harness-side exact denotation (dict) or None when some evaluation fails; used for magnitude control and
    histogram only (the specification oracle is the Coq one)"""
    t = s['t']
    if t == 'dict':
        return {k: V(v) for k, v in s['vals']}
    if t == 'mapped':
        d = s_denote(s['o'])
        if d is None:
            return None
        out = dict(d)
        for k, e in s['m']:
            v = e_eval(canon(e), d)
            if v is None:
                return None
            out[k] = v
        return out
    if t == 'range':
        d = s_denote(s['i'])
        if d is None:
            return None
        d = dict(d)
        d[s['n']] = V(s['v'])
        return d
    out = {}
    for k, sub in s['l']:
        d = s_denote(sub)
        if d is None or k not in d:
            return None
        out[k] = d[k]
    return out


def s_domain(s):
    t = s['t']
    if t == 'dict':
        return [k for k, _ in s['vals']]
    if t == 'mapped':
        d = [k for k, _ in s['m']]
        return d + [k for k in s_domain(s['o']) if k not in d]
    if t == 'range':
        d = s_domain(s['i'])
        return d if s['n'] in d else d + [s['n']]
    return [k for k, _ in s['l']]


def s_exprs(s):
    t = s['t']
    if t == 'dict':
        return []
    if t == 'mapped':
        return [e for _, e in s['m']] + s_exprs(s['o'])
    if t == 'range':
        return s_exprs(s['i'])
    return [e for _, sub in s['l'] for e in s_exprs(sub)]


def s_roots(s):
    t = s['t']
    if t == 'dict':
        return [s]
    if t == 'mapped':
        return s_roots(s['o'])
    if t == 'range':
        return s_roots(s['i'])
    return [r for _, sub in s['l'] for r in s_roots(sub)]


def s_depth(s):
    t = s['t']
    if t == 'dict':
        return 1
    if t == 'mapped':
        return 1 + s_depth(s['o'])
    if t == 'range':
        return 1 + s_depth(s['i'])
    return 1 + max([s_depth(sub) for _, sub in s['l']] or [0])


def s_kinds(s):
    t = s['t']
    if t == 'dict':
        return {'dict'}
    if t == 'mapped':
        return {'mapped'} | s_kinds(s['o'])
    if t == 'range':
        return {'range'} | s_kinds(s['i'])
    out = {'joint'}
    for _, sub in s['l']:
        out |= s_kinds(sub)
    return out


def s_rebuild(s, nc):
    t = s['t']
    if t == 'dict':
        return {'t': 'dict', 'vals': [[k, nc.get(k, v)] for k, v in s['vals']], 'vol': list(s['vol'])}
    if t == 'mapped':
        return {'t': 'mapped', 'o': s_rebuild(s['o'], nc), 'm': s['m']}
    if t == 'range':
        return {'t': 'range', 'i': s_rebuild(s['i'], nc), 'n': s['n'], 'v': s['v']}
    return {'t': 'joint', 'l': [[k, s_rebuild(sub, nc)] for k, sub in s['l']]}


def ov_const(v):
    """the JSON constant expression Scope.overwrite builds for the value string v (Expression(value): an int stays a
    sympy Integer, every other number type is tagged so that the harness builds the very same Expression)"""
    if '@' not in v and V(v).denominator != 1:
        v = v + '@f'
    return ['c', v]


def s_overwrite(s, kv):
    return {'t': 'mapped', 'o': s, 'm': [[k, ov_const(v)] for k, v in kv]}


# ---------------------------------------------------------------------------------------------------------------------
# generators

def rnd_value(rng):
    r = rng.random()
    if r < 0.7:
        return F(rng.randint(-6, 9))
    if r < 0.8:
        return F(0)
    return F(rng.randint(-12, 12), rng.choice([2, 4, 8]))


def rnd_tagged(rng):
    """a value string for a constant of a DictScope / change_constants / overwrite / an environment: 20 % carry a
    number type on purpose (float, TimeType, numpy scalars), zero in every type"""
    v = rnd_value(rng)
    r = rng.random()
    if r < 0.80:
        return str(v)
    if r < 0.88:
        return str(v) + '@f'
    if r < 0.96:
        return str(v) + '@t'
    return str(v) + ('@i' if v.denominator == 1 and r < 0.98 else '@n')


def rnd_expr(rng, avail, missing_ok):
    """expression in which every variable occurs at most once"""
    pool = list(avail)
    rng.shuffle(pool)
    if missing_ok and rng.random() < 0.5:
        extra = [n for n in NAMES if n not in avail]
        if extra:
            pool.insert(0, rng.choice(extra))

    def leaf():
        if pool and rng.random() < 0.72:
            return ['v', pool.pop(0)]
        v = rnd_value(rng)
        if v == 0 and rng.random() < 0.7:
            v = F(1)
        return ['c', str(v)]

    def node(d):
        if d == 0 or rng.random() < 0.35:
            return leaf()
        op = rng.choice(['+', '+', '+', '-', '-', '-', '*', '*', '/', 'min', 'max', 'div'])
        if op == '/':
            return ['/', node(d - 1), rng.choice(['2', '2', '4', '-2', '8', '1/2'])]
        if op == 'div':
            # divisor: mostly a variable (cases whose divisor value is not +-2^k are discarded by `bounded`; value 0 =
            # the scope does not denote), sometimes clamped into [1, 2], sometimes any sub-expression
            q = rng.random()
            if q < 0.55 and pool:
                dv = ['v', pool.pop(0)]
            elif q < 0.75 and pool:
                dv = ['min', ['max', ['v', pool.pop(0)], ['c', '1']], ['c', '2']]
            elif q < 0.85:
                dv = ['c', rng.choice(['2', '4', '-2', '1/2'])]
            else:
                dv = node(d - 1)
            return ['div', node(d - 1), dv]
        a, b = node(d - 1), node(d - 1)
        if op == '*':
            # no multiplication by the constant 0 (sympy would cancel the variables)
            for x in (a, b):
                if x[0] == 'c' and F(x[1]) == 0:
                    x[1] = '2'
        return [op, a, b]
    if avail and rng.random() < 0.10:
        return rnd_indep_expr(rng, avail)
    for _ in range(50):
        e = node(rng.choice([0, 1, 1, 2, 2]))
        if not e_cancels(e):
            return e
        pool = list(avail)
        rng.shuffle(pool)
    return ['c', '1']


def rnd_indep_expr(rng, avail):
    """expressions whose VALUE does not depend on the variable x although x occurs in the source text:
    sympy cancels x when the expression object is built (0*x, x - x: then x is not among Expression.variables and the
    model receives the expression sympy holds) or keeps it ((x+1)*(x-1) - x*x, Min(x,y)+Max(x,y)-x: syntactic
    dependence without semantic dependence)"""
    x = ['v', rng.choice(avail)]
    y = ['v', rng.choice(avail)] if rng.random() < 0.7 else ['c', str(rnd_value(rng))]
    k = rng.choice(['zero', 'zero', 'minus', 'minus', 'poly', 'minmax', 'ratio'])
    if k == 'ratio':
        return ['div', ['*', x, y], x]         # sympy cancels x (the source text has no value at x = 0, sympy's tree has)
    if k == 'zero':
        return ['+', ['*', ['c', '0'], x], y]
    if k == 'minus':
        return ['+', ['-', x, x], y]
    if k == 'poly':
        return ['+', ['-', ['*', ['+', x, ['c', '1']], ['-', x, ['c', '1']]], ['*', x, x]], y]
    return ['-', ['+', ['min', x, y], ['max', x, y]], x]


def e_cancels(e):
    """a product with a variable-free factor of value 0: sympy drops the other factor's variables"""
    if e[0] in ('c', 'v'):
        return False
    if e[0] == '*':
        for x in (e[1], e[2]):
            if not e_vars(x) and e_eval(x, {}, strict=False) == 0:
                return True
    if e[0] == '/':
        return e_cancels(e[1])
    return e_cancels(e[1]) or e_cancels(e[2])


def rnd_root(rng):
    k = rng.choice([0, 1, 2, 2, 3, 3, 4, 5])
    keys = rng.sample(NAMES[:6], k)
    vals = [[n, rnd_tagged(rng)] for n in keys]
    r = rng.random()
    if r < 0.2:
        vol = []
    elif r < 0.3:
        vol = list(keys)
    else:
        vol = [n for n in keys if rng.random() < 0.45]
    if rng.random() < 0.06:
        vol.append(rng.choice(NAMES))     # a volatile name that is not a key (DictScope does not check)
        vol = sorted(set(vol))
    return {'t': 'dict', 'vals': vals, 'vol': vol}


def rnd_vol_names(s):
    return sorted({n for r in s_roots(s) for n in r['vol']})


def rnd_layer(rng, s, malformed, allow_joint=True, depth_left=3):
    dom = s_domain(s)
    r = rng.random()
    if r < 0.55:
        n = rng.choice([1, 1, 2, 2, 3])
        targets = []
        for _ in range(n):
            q = rng.random()
            if q < 0.45 and dom:
                targets.append(rng.choice(dom))              # overwrite an existing name
            else:
                targets.append(rng.choice(NAMES[:7]))
        seen, m = set(), []
        for t in targets:
            if t in seen:
                continue
            seen.add(t)
            m.append([t, rnd_expr(rng, dom, malformed and rng.random() < 0.5)])
        return {'t': 'mapped', 'o': s, 'm': m}
    if r < 0.9 or not allow_joint:
        vol = rnd_vol_names(s)
        q = rng.random()
        if q < 0.3 and vol:
            n = rng.choice(vol)                                   # index shadows a volatile name
        elif q < 0.55 and dom:
            n = rng.choice(dom)                                   # index shadows some name
        else:
            n = rng.choice(NAMES)
        return {'t': 'range', 'i': s, 'n': n, 'v': str(rng.randint(-3, 7))}
    # joint scope over 1-3 entries
    k = rng.choice([1, 2, 2, 3])
    subs = [s] + [rnd_stack(rng, rng.randint(0, max(0, depth_left - 1)), malformed, allow_joint=False)
                  for _ in range(k - 1)]
    names, l = set(), []
    for _ in range(k):
        sub = rng.choice(subs)
        d = s_domain(sub)
        cand = [n for n in (d if (d and rng.random() < 0.93) else NAMES) if n not in names]
        if not cand:
            continue
        n = rng.choice(cand)
        names.add(n)
        if rng.random() < 0.5:
            # the shape VolatileValue.operation builds: MappedScope(operand_scope, {name: expr})
            sub = {'t': 'mapped', 'o': sub, 'm': [[n, rnd_expr(rng, d, False)]]}
        l.append([n, sub])
    return {'t': 'joint', 'l': l}


def rnd_stack(rng, layers, malformed, allow_joint=True):
    s = rnd_root(rng)
    for k in range(layers):
        s = rnd_layer(rng, s, malformed, allow_joint, depth_left=layers - k)
    return s


def s_partial(s):
    """every parameter value the implementation can compute, also when the scope as a whole does not denote (some other
    mapping expression has a missing variable / a zero divisor); raises OverflowError when one of them leaves the
    exactness bounds"""
    t = s['t']
    if t == 'dict':
        return {k: V(v) for k, v in s['vals']}
    if t == 'mapped':
        d = s_partial(s['o'])
        out = {k: v for k, v in d.items() if k not in {n for n, _ in s['m']}}
        for k, e in s['m']:
            v = e_eval(canon(e), d)      # the tree sympy holds: 0*x + y or (x*y)/x have a value where x has none / is 0
            if v is not None:
                out[k] = v
        return out
    if t == 'range':
        d = dict(s_partial(s['i']))
        d[s['n']] = V(s['v'])
        return d
    out = {}
    for k, sub in s['l']:
        d = s_partial(sub)
        if k in d:
            out[k] = d[k]
    return out


def bounded(s):
    """within the exactness bounds, and every expression has a tree the model can receive (sympy turns e.g. x / (y - y)
    into zoo*x or nan when the expression object is built: such stacks are discarded)"""
    try:
        for e in s_exprs(s):
            canon(e)
        s_partial(s)
        return True
    except (OverflowError, ValueError, RuntimeError):
        return False


def s_permuted(s, shuffle):
    """the same scope with every dictionary / set given in another order (== and hash must not see it)"""
    t = s['t']
    if t == 'dict':
        vals, vol = [list(x) for x in s['vals']], list(s['vol'])
        shuffle(vals)
        shuffle(vol)
        return {'t': 'dict', 'vals': vals, 'vol': vol}
    if t == 'mapped':
        m = list(s['m'])
        shuffle(m)
        return {'t': 'mapped', 'o': s_permuted(s['o'], shuffle), 'm': m}
    if t == 'range':
        return {'t': 'range', 'i': s_permuted(s['i'], shuffle), 'n': s['n'], 'v': s['v']}
    l = [[k, s_permuted(sub, shuffle)] for k, sub in s['l']]
    shuffle(l)
    return {'t': 'joint', 'l': l}


def s_retyped(s):
    """the same scope with every untagged integral constant / index value given as a float (1 == 1.0, equal hash)"""
    def rt(v):
        return v + '@f' if '@' not in v and V(v).denominator == 1 else v
    t = s['t']
    if t == 'dict':
        return {'t': 'dict', 'vals': [[k, rt(v)] for k, v in s['vals']], 'vol': list(s['vol'])}
    if t == 'mapped':
        return {'t': 'mapped', 'o': s_retyped(s['o']), 'm': s['m']}
    if t == 'range':
        return {'t': 'range', 'i': s_retyped(s['i']), 'n': s['n'], 'v': rt(s['v'])}
    return {'t': 'joint', 'l': [[k, s_retyped(sub)] for k, sub in s['l']]}


def s_variant(rng, s):
    """a scope with the same class skeleton whose (in)equality with s is robust (identical / clearly different)"""
    import copy
    o = copy.deepcopy(s)
    kind = rng.choice(['same', 'perm', 'numty', 'val', 'vol', 'idx', 'expr', 'drop'])
    if kind == 'same':
        return o, kind
    if kind == 'perm':
        return s_permuted(o, lambda l: rng.shuffle(l)), kind
    if kind == 'numty':
        return s_retyped(o), kind
    # walk to a random node
    path = [o]
    while True:
        cur = path[-1]
        if cur['t'] == 'mapped':
            path.append(cur['o'])
        elif cur['t'] == 'range':
            path.append(cur['i'])
        elif cur['t'] == 'joint' and cur['l']:
            path.append(rng.choice(cur['l'])[1])
        else:
            break
    rng.shuffle(path)
    for node in path:
        if kind == 'val' and node['t'] == 'dict' and node['vals']:
            e = rng.choice(node['vals'])
            e[1] = str(V(e[1]) + 1)
            return o, kind
        if kind == 'vol' and node['t'] == 'dict' and node['vals']:
            n = rng.choice(node['vals'])[0]
            node['vol'] = sorted(set(node['vol']) ^ {n})
            return o, kind
        if kind == 'idx' and node['t'] == 'range':
            if rng.random() < 0.5:
                node['v'] = str(V(node['v']) + 1)
            else:
                node['n'] = rng.choice([n for n in NAMES if n != node['n']])
            return o, kind
        if kind == 'expr' and node['t'] == 'mapped' and node['m']:
            e = rng.choice(node['m'])
            e[1] = ['+', e[1], ['c', '1']]
            return o, kind
        if kind == 'drop' and node['t'] == 'mapped' and len(node['m']) > 1:
            node['m'].pop(rng.randrange(len(node['m'])))
            return o, kind
    return o, 'same'


def rnd_ops(rng, s, n_ops):
    ops = []
    cur = s
    for _ in range(n_ops):
        dom = s_domain(cur)
        r = rng.random()
        if r < 0.3:
            n = rng.choice(dom) if dom and rng.random() < 0.85 else rng.choice(NAMES)
            ops.append(['get', n])
        elif r < 0.38:
            ops.append(['in', rng.choice(dom) if dom and rng.random() < 0.6 else rng.choice(NAMES)])
        elif r < 0.44:
            ops.append(['iter'])
        elif r < 0.50:
            ops.append(['len'])
        elif r < 0.56:
            ops.append(['keys'])
        elif r < 0.62:
            ops.append(['items'])
        elif r < 0.70:
            ops.append(['as_dict'])
        elif r < 0.76:
            ops.append(['vol'])
        elif r < 0.82:
            ops.append(['volx', rnd_envs(rng, cur)])
        elif r < 0.93:
            roots = s_roots(cur)
            vol = sorted({n for rt in roots for n in rt['vol']})
            consts = sorted({k for rt in roots for k, _ in rt['vals']})
            q = rng.random()
            if q < 0.6 and vol:
                names = rng.sample(vol, rng.randint(1, len(vol)))
            elif q < 0.8 and consts:
                names = rng.sample(consts, rng.randint(1, min(2, len(consts))))     # may hit non-volatile constants
            elif q < 0.9:
                names = [rng.choice(NAMES)]                                           # possibly no constant at all
            else:
                names = []
            nc = {n: rnd_tagged(rng) for n in names}
            nxt = s_rebuild(cur, nc)
            if not bounded(nxt):
                continue
            ops.append(['change', sorted(nc.items())])
            cur = nxt
            if rng.random() < 0.2:
                ops.append(['change', sorted(nc.items())])       # the same call again, on the result (idempotent)
        elif r < 0.955:
            # Scope.overwrite: a volatile name / some name of the scope / any name, 1-2 of them, constants of every type
            vol = sorted({n for rt in s_roots(cur) for n in rt['vol']})
            names = []
            for _k in range(rng.choice([1, 1, 2])):
                q = rng.random()
                names.append(rng.choice(vol) if q < 0.4 and vol else rng.choice(dom) if q < 0.7 and dom
                             else rng.choice(NAMES[:7]))
            kv = [[n, rnd_tagged(rng)] for n in sorted(set(names))]
            if rng.random() < 0.06:
                kv = []                                            # overwrite({}) : an empty mapping layer
            nxt = s_overwrite(cur, kv)
            if s_depth(nxt) > 9:
                continue
            ops.append(['overwrite', kv])
            cur = nxt
        else:
            other, kind = s_variant(rng, cur)
            ops.append(['eq', other, kind])
    return ops


def merged_roots(s):
    """the constants of all roots (first root wins on a name clash)"""
    env = {}
    for rt in s_roots(s):
        for k, v in rt['vals']:
            env.setdefault(k, v)
    return env


def roots_agree(s):
    """all DictScope roots give a shared name the same value and the same volatility"""
    seen = {}
    for rt in s_roots(s):
        for k, v in rt['vals']:
            x = (V(v), k in rt['vol'])
            if seen.setdefault(k, x) != x:
                return False
    return True


def rnd_envs(rng, cur):
    """environments of constants in which the dependency expressions are evaluated: the current constants, then the
    current constants with some volatile constants changed (occasionally also a non-volatile one / a missing name)"""
    base = merged_roots(cur)
    if not roots_agree(cur) and any('div' in e_ops(e) for e in s_exprs(cur)):
        # one name stands for two constants (or is volatile in one root only): a dependency expression is then evaluated
        # with values no rebuilt scope has, and a divisor expression may leave the exactness bounds unnoticed: keys only
        return []
    vol = sorted({n for rt in s_roots(cur) for n in rt['vol']})
    # (roots of a joint scope may disagree on a name: read as a change, the merged constants rewrite the other root, so
    # the base environment has to pass the exactness bounds like every other one)
    envs = [dict(base)] if bounded(s_rebuild(cur, base)) else []
    for _ in range(rng.choice([1, 2, 2, 3])):
        env = dict(base)
        names = [n for n in vol if rng.random() < 0.7] or vol[:1]
        if rng.random() < 0.08 and base:
            names = names + [rng.choice(sorted(base))]
        nc = {n: rnd_tagged(rng) for n in names}
        env.update(nc)
        if rng.random() < 0.05 and env:
            env.pop(rng.choice(sorted(env)))
        try:
            # the WHOLE environment is what the dependency expressions are evaluated in (when roots disagree on a name
            # the merged constants differ from the constants of some root, also for names that were not changed)
            # ... restricted to the volatile names: a dependency expression holds the CURRENT value of every other constant
            if not bounded(s_rebuild(cur, {n: v for n, v in env.items() if n in vol})):
                continue
        except Exception:
            continue
        envs.append(env)
    return [sorted(e.items()) for e in envs]


# ---------------------------------------------------------------------------------------------------------------------
# deterministic families (no randomness): the name-coincidence and repeated-call classes

def _v(n):
    return ['v', n]


def fam_roots():
    """three roots over a=p0 b=p1 v=p2 w=p3: one volatile constant; two; three with the value zero in three number types"""
    return [
        {'t': 'dict', 'vals': [['p0', '1'], ['p1', '2'], ['p2', '3']], 'vol': ['p2']},
        {'t': 'dict', 'vals': [['p0', '1'], ['p1', '2'], ['p2', '3'], ['p3', '5']], 'vol': ['p2', 'p3']},
        {'t': 'dict', 'vals': [['p0', '0'], ['p1', '4'], ['p2', '0@f'], ['p3', '0@t']], 'vol': ['p0', 'p2', 'p3']},
    ]


def fam_layers():
    """layers in which a name plays two roles; a=p0 b=p1 v=p2 (volatile in every root) w=p3 x=p5 (fresh)"""
    a, b, v, w, x, y = 'p0', 'p1', 'p2', 'p3', 'p5', 'p6'
    M = lambda *kv: ('mapped', [list(p) for p in kv])
    R = lambda n, val: ('range', n, val)
    return [
        M((a, ['+', _v(a), ['c', '1']])),                       # key = variable of its own expression
        M((v, ['+', _v(v), ['c', '1']])),                       # ... on a volatile name
        M((v, ['c', '7'])),                                     # volatile name overwritten by a constant
        M((v, ['c', '0'])),                                     # ... by the constant 0
        M((v, _v(a))),                                          # ... by an expression that does not mention it
        M((v, ['*', _v(a), _v(b)])),
        M((a, _v(v))),                                          # a constant name bound to the volatile one
        M((a, _v(a))), M((v, _v(v))),                           # identity bindings
        M((a, _v(b)), (b, _v(a))),                              # swap
        M((a, _v(v)), (v, _v(a))),                              # swap through the volatile name
        M((a, _v(b)), (b, _v(v)), (v, _v(a))),                  # 3-cycle
        M((a, ['+', _v(v), _v(b)]), (b, ['c', '7'])),           # variable overwritten by the same mapping
        M((x, ['*', _v(v), _v(a)])),                            # fresh name derived from the volatile one
        M((x, _v(w)), (w, ['c', '2'])),                         # second volatile name (if any) renamed and overwritten
        M((y, ['+', _v(x), _v(v)])),                            # refers to a name that only another layer provides
        M((a, ['min', _v(a), _v(v)])),
        M((x, ['div', _v(v), _v(b)])),                          # volatile dividend, divisor a plain constant name
        M((x, ['div', _v(a), ['min', ['max', _v(v), ['c', '1']], ['c', '2']]])),   # volatile divisor (clamped to [1, 2])
        R(a, '0'), R(v, '4'), R(w, '0'), R(x, '2'),             # index = constant / volatile / (maybe) mapped / fresh name
        ('joint2',), ('jointop',),                              # one object under two names; VolatileValue.operation shape
    ]


def fam_apply(s, layer):
    if layer[0] == 'mapped':
        return {'t': 'mapped', 'o': s, 'm': layer[1]}
    if layer[0] == 'range':
        return {'t': 'range', 'i': s, 'n': layer[1], 'v': layer[2]}
    dom = s_domain(s)
    if layer[0] == 'joint2':                                    # the same object under (up to) three of its names
        return {'t': 'joint', 'l': [[n, s] for n in ('p2', 'p0', 'p5') if n in dom]}
    sub = {'t': 'mapped', 'o': s, 'm': [['p7', ['+', _v('p2'), ['c', '1']]]]}
    return {'t': 'joint', 'l': [['p7', sub]] + [[n, s] for n in ('p2', 'p1') if n in dom]}


def fam_history(s):
    """a fixed history: every view, volatile keys and expressions (at the current constants, with a proper subset of the
    volatile constants changed, with all of them changed to zero of three number types), change_constants on a proper
    subset of the volatile constants twice in a row (second time another subset), to zero, Scope.overwrite of a
    volatile name / a non-volatile name / a fresh name followed by the volatile queries, == against a permuted twin"""
    vol = sorted({n for rt in s_roots(s) for n in rt['vol']})
    base = merged_roots(s)
    zeros = ['0', '0@f', '0@t']
    env0 = sorted(base.items())
    env1 = sorted(dict(base, **{vol[0]: '-2'}).items())
    env2 = sorted(dict(base, **{n: zeros[i % 3] for i, n in enumerate(vol)}).items())
    env3 = sorted(dict(base, **{vol[-1]: '6@t'}).items())
    ops = [['volx', [env0, env1, env2, env3]], ['vol']]
    ops += [['get', n] for n in ('p0', 'p2', 'p5')] + [['in', 'p5'], ['in', 'p2'], ['in', 'p0'], ['len'], ['iter'],
                                                      ['as_dict'], ['get', 'p1'],
                                                      ['get', 'p3'], ['keys'], ['items'], ['vol']]
    cur = s
    c1 = [[vol[0], '0']]                                         # a proper subset when there are several volatile constants
    c2 = [[vol[-1], '0@f']]                                      # then another one
    c3 = sorted(dict([[vol[0], '9'], [vol[len(vol) // 2], '0@t']]).items())      # (one entry when there is one name)
    c3 = [list(x) for x in c3]
    for c in (c1, c2, c3):
        ops += [['change', c]]
        cur = s_rebuild(cur, dict(c))
        ops += [['vol'], ['as_dict'], ['volx', [sorted(merged_roots(cur).items())]]]
    ops += [['eq', s_permuted(cur, lambda l: l.reverse()), 'perm'], ['eq', s_retyped(cur), 'numty']]
    for kv in ([['p2', '7']], [['p0', '0@f'], ['p5', '0']]):
        ops += [['overwrite', kv]]
        cur = s_overwrite(cur, kv)
        ops += [['vol'], ['volx', [sorted(merged_roots(cur).items()), env2]], ['as_dict'], ['get', 'p2']]
    ops += [['change', [[vol[-1], '1/2']]]]
    cur = s_rebuild(cur, {vol[-1]: '1/2'})
    ops += [['vol'], ['as_dict'], ['eq', s_permuted(cur, lambda l: l.reverse()), 'perm']]
    return ops


def family_names(max_depth, third=None, thin=1):
    """every stack of <= max_depth layers of fam_layers over every root of fam_roots, with fam_history; `third` restricts
    the layers used at depth 3; thin > 1 (quick tier): the two-layer stacks over the first and the third root are
    thinned to every (2*thin)-th combination, those over the root with two volatile constants to every thin-th one (fixed,
    not random); cases that leave the exactness bounds (a divisor value that is not +-2^k) are dropped"""
    layers = fam_layers()
    out = []
    for ri, root in enumerate(fam_roots()):
        for depth in range(0, max_depth + 1):
            for ci, combo in enumerate(itertools.product(*[(layers if (k < 2 or third is None) else third)
                                                           for k in range(depth)])):
                if thin > 1 and depth == 2 and (ci % (2 * thin) != ri if ri != 1 else ci % thin != 0):
                    continue
                if depth == 3 and ri != 1:
                    continue        # three-layer stacks only over the root with two volatile constants
                s = root
                for layer in combo:
                    s = fam_apply(s, layer)
                ops = fam_history(s)
                if history_bounded(s, ops):
                    out.append({'kind': 'hist', 'scope': s, 'ops': ops, 'src': 'family'})
    return out


def history_bounded(s, ops):
    """every scope of the history and every environment of a volatile query is within the exactness bounds"""
    cur = s
    for op in ops:
        if op[0] == 'change':
            cur = s_rebuild(cur, dict(op[1]))
        elif op[0] == 'overwrite':
            cur = s_overwrite(cur, op[1])
        elif op[0] == 'volx':
            if not all(bounded(s_rebuild(cur, dict(env))) for env in op[1]):
                return False
        if not bounded(cur):
            return False
    return True


# ---- round 4: change_constants through JointScope entries over DIFFERENT roots / through a loop index that shadows the
# changed constant (deterministic; the classes of seeds C13-5 and C13-6)

def r4_history(s, changes):
    """views and volatile queries, then every change of `changes` in turn, each followed by lookups of every name, the
    dictionary views, the volatile queries and == / hash against the permuted twin of the rebuilt scope"""
    dom = s_domain(s)
    gets = [['get', n] for n in dom[:5]] + [['get', 'p7']]
    base = merged_roots(s)
    envs = [sorted(base.items())] + [sorted(dict(base, **dict(c)).items()) for c in changes[:2]]
    ops = [['items']] + gets + [['as_dict'], ['vol'], ['volx', envs], ['items']]
    cur = s
    for c in changes:
        ops.append(['change', [list(x) for x in c]])
        cur = s_rebuild(cur, dict(c))
        ops += gets + [['as_dict'], ['items'], ['vol'], ['volx', [sorted(merged_roots(cur).items())]],
                       ['eq', s_permuted(cur, lambda l: l.reverse()), 'perm']]
    ops += [['len'], ['iter'], ['keys']]
    return ops


def fam_joint_roots(full):
    """JointScope entries over sub scopes with DIFFERENT DictScope roots (each root has its own volatile constants; p1 is
    a shared non-volatile name with one value), every entry in three forms (the root itself / a MappedScope over it / a
    RangeScope over a MappedScope over it), change_constants touching only the constants of the root at ONE position
    of the lookup (first / middle / last), of none, of two; also two entries over one root next to an entry over another
    root, and the joint scope below a MappedScope / RangeScope"""
    A = {'t': 'dict', 'vals': [['p0', '1'], ['p1', '2']], 'vol': ['p0']}
    B = {'t': 'dict', 'vals': [['p2', '3'], ['p1', '2']], 'vol': ['p2']}
    C = {'t': 'dict', 'vals': [['p3', '5'], ['p4', '0@f']], 'vol': ['p3', 'p4']}

    def forms(root, v, fresh):
        m = {'t': 'mapped', 'o': root, 'm': [[fresh, ['+', ['*', ['c', '10'], _v(v)], _v(root['vals'][1][0])]]]}
        return [(v, root), (fresh, m), (fresh, {'t': 'range', 'i': m, 'n': 'p7', 'v': '1'})]
    fa, fb, fc = forms(A, 'p0', 'p5'), forms(B, 'p2', 'p6'), forms(C, 'p3', 'p4')[:2]
    ca, cb, cc_ = [['p0', '7']], [['p2', '0@f']], [['p3', '9@t'], ['p4', '1/2']]
    out = []

    def add(entries, changes, wrap=None):
        s = {'t': 'joint', 'l': [[n, sub] for n, sub in entries]}
        if wrap == 'mapped':
            s = {'t': 'mapped', 'o': s, 'm': [['p7', ['+', _v(entries[0][0]), _v(entries[-1][0])]]]}
        elif wrap == 'range':
            s = {'t': 'range', 'i': s, 'n': entries[0][0], 'v': '4'}
        ops = r4_history(s, changes)
        if history_bounded(s, ops):
            out.append({'kind': 'hist', 'scope': s, 'ops': ops, 'src': 'family4'})
    none = [['p7', '1']]
    for i, ea in enumerate(fa):
        for j, eb in enumerate(fb):
            for wrap in (None, 'mapped', 'range'):
                if wrap and not full and (i + j) % 2:
                    continue
                add([ea, eb], [ca, cb], wrap)            # first only, then last only
                add([ea, eb], [cb, none, ca], wrap)      # last only, nothing, first only
                add([eb, ea], [cb, ca + cb], wrap)       # the other insertion order
            for l, ec in enumerate(fc):
                if not full and (i + j + l) % 2:
                    continue
                add([ea, eb, ec], [ca, cb, cc_])         # first / middle / last only
                add([ea, eb, ec], [cb, ca + cb, none])   # middle only, first two, nothing
                add([ec, ea, eb], [cc_, ca])             # rotated order
    # two entries over ONE root (one object, or a mapped layer over it) next to an entry over another root
    for eb in fb:
        add([fa[0], fa[1], eb], [ca, cb])
        add([eb, fa[1], fa[0]], [cb, ca])
        add([fa[0], eb, fa[2]], [ca, none, cb])
    return out


def fam_shadow_change(full):
    """a loop index named like a (volatile / plain) constant from which a MappedScope layer BELOW the loop derives a
    parameter; change_constants of that constant (alone / with others / to zero of another number type), of other
    constants, of nothing"""
    root = {'t': 'dict', 'vals': [['p0', '1'], ['p1', '2'], ['p2', '3']], 'vol': ['p0', 'p2']}
    M = lambda o, *kv: {'t': 'mapped', 'o': o, 'm': [list(p) for p in kv]}
    R = lambda i, n, v: {'t': 'range', 'i': i, 'n': n, 'v': v}
    x10 = ['+', ['*', ['c', '10'], _v('p0')], _v('p1')]
    m1 = M(root, ('p5', x10))
    stacks = [
        R(m1, 'p0', '4'),
        M(R(m1, 'p0', '4'), ('p6', ['+', _v('p5'), _v('p0')])),
        R(R(m1, 'p0', '4'), 'p0', '6'),
        R(M(root, ('p5', ['*', _v('p1'), ['c', '2']])), 'p1', '4'),                 # index = a NON-volatile constant
        R(M(R(M(root, ('p5', ['+', _v('p0'), ['c', '1']])), 'p0', '2'), ('p6', ['+', _v('p5'), _v('p0')])), 'p0', '3'),
        R({'t': 'joint', 'l': [['p5', m1], ['p0', root]]}, 'p0', '4'),
        R(M(root, ('p0', ['+', _v('p0'), ['c', '1']]), ('p5', ['*', _v('p0'), ['c', '2']])), 'p0', '4'),
        R(M(R(root, 'p0', '5'), ('p5', x10)), 'p2', '4'),                           # shadowed BELOW the mapping: no dependence
    ]
    changes = [
        [[['p0', '7']], [['p2', '9']]],
        [[['p0', '7'], ['p2', '9']], [['p0', '0@f']]],
        [[['p2', '9']], [['p0', '7']], [['p0', '7']]],
        [[['p0', '0@t']], [['p7', '1']], [['p0', '-2'], ['p2', '0']]],
    ]
    if full:
        changes += [[[['p1', '8']], [['p0', '7']]], [[['p0', '7'], ['p1', '8']]]]    # a non-volatile constant (warns)
    else:
        changes[3] = changes[3] + [[['p1', '8'], ['p0', '3']]]
    out = []
    for s in stacks:
        for ch in changes:
            ops = r4_history(s, ch)
            if history_bounded(s, ops):
                out.append({'kind': 'hist', 'scope': s, 'ops': ops, 'src': 'family4'})
    return out


# ---- round 4: `==` / hash with the number KIND of constants, and between scopes of different classes

def e_nconsts(e):
    if e[0] == 'c':
        return 1
    if e[0] == 'v':
        return 0
    if e[0] == '/':
        return e_nconsts(e[1]) + 1
    return e_nconsts(e[1]) + e_nconsts(e[2])


def _retag(v, tag):
    base = v.split('@')[0]
    if tag == 'i' and V(v).denominator != 1:
        tag = 't'                    # numpy.int64 only for integral values; TimeType is exact as well
    return base + ('@' + tag if tag else '')


def e_retype(e, k, tag):
    """e with its k-th constant (pre-order, the divisor of a `/` node last; k = None: every constant) given the tag"""
    ctr = [0]

    def hit():
        ctr[0] += 1
        return k is None or ctr[0] - 1 == k

    def walk(x):
        if x[0] == 'c':
            return ['c', _retag(x[1], tag)] if hit() else x
        if x[0] == 'v':
            return x
        if x[0] == '/':
            a = walk(x[1])
            return ['/', a, _retag(x[2], tag) if hit() else x[2]]
        a = walk(x[1])
        return [x[0], a, walk(x[2])]
    return walk(e)


def s_nmapconsts(s):
    return sum(e_nconsts(e) for e in s_exprs(s))


def s_retype_map(s, k, tag, only_toplevel=False):
    """the scope with the k-th constant of its mapping expressions (order of s_exprs; None = all) given the tag;
    only_toplevel: count only expressions that ARE a constant (those can be a TimeType / numpy integer)"""
    ctr = [0]

    def ex(e):
        if only_toplevel:
            if e[0] != 'c' or c_float(e[1]):
                return e
            ctr[0] += 1
            return ['c', _retag(e[1], tag)] if (k is None or ctr[0] - 1 == k) else e
        n = e_nconsts(e)
        lo = ctr[0]
        ctr[0] += n
        if k is None:
            return e_retype(e, None, tag)
        return e_retype(e, k - lo, tag) if lo <= k < lo + n else e

    def walk(x):
        t = x['t']
        if t == 'dict':
            return x
        if t == 'mapped':
            m = [[n, ex(e)] for n, e in x['m']]            # s_exprs order: this layer first, then below
            return {'t': 'mapped', 'o': walk(x['o']), 'm': m}
        if t == 'range':
            return {'t': 'range', 'i': walk(x['i']), 'n': x['n'], 'v': x['v']}
        return {'t': 'joint', 'l': [[n, walk(sub)] for n, sub in x['l']]}
    return walk(s)


def s_retyped_consts(s, shift=0):
    """the same scope with every DictScope constant / loop index value given in another number type (float, TimeType,
    numpy.float64, numpy.int64 in turn): Python compares them by value"""
    tags = ['f', 't', 'n', 'i']
    ctr = [shift]

    def rt(v):
        ctr[0] += 1
        return _retag(v, tags[ctr[0] % 4])

    def walk(x):
        t = x['t']
        if t == 'dict':
            return {'t': 'dict', 'vals': [[k, rt(v)] for k, v in x['vals']], 'vol': list(x['vol'])}
        if t == 'mapped':
            return {'t': 'mapped', 'o': walk(x['o']), 'm': x['m']}
        if t == 'range':
            return {'t': 'range', 'i': walk(x['i']), 'n': x['n'], 'v': rt(x['v'])}
        return {'t': 'joint', 'l': [[k, walk(sub)] for k, sub in x['l']]}
    return walk(s)


def s_xclass(s):
    """scopes of ANOTHER class that are as close to s as possible"""
    out = []
    if s['t'] == 'mapped':
        out.append(s['o'])
    if s['t'] == 'range':
        out.append(s['i'])
    if s['t'] == 'joint' and s['l']:
        out.append(s['l'][0][1])
    if s['t'] != 'mapped':
        out.append({'t': 'mapped', 'o': s, 'm': []})                         # the same mapping, one empty layer more
    dom = s_domain(s)
    if s['t'] != 'joint' and dom:
        out.append({'t': 'joint', 'l': [[n, s] for n in dom]})                # the same mapping as a joint scope
    if s['t'] != 'range' and dom:
        d = s_partial(s)
        if dom[0] in d:
            out.append({'t': 'range', 'i': s, 'n': dom[0], 'v': str(d[dom[0]])})    # ... with an index that changes nothing
    try:
        d = s_denote(s)
    except OverflowError:
        d = None
    if s['t'] != 'dict' and d is not None:
        out.append({'t': 'dict', 'vals': [[k, str(v)] for k, v in sorted(d.items())], 'vol': []})
    return out


def eqt_ok(s):
    try:
        for e in s_exprs(s):
            tcanon(e)
        return True
    except (ValueError, RuntimeError, OverflowError):
        return False


def eqt_variants(s, rng, src):
    """(variant name, other scope, must be equal)"""
    import copy
    out = [('same', copy.deepcopy(s), True),
           ('perm', s_permuted(copy.deepcopy(s), lambda l: l.reverse()), True),
           ('dictty', s_retyped_consts(s, 0), True), ('dictty', s_retyped_consts(s, 1), True)]
    n_top = sum(1 for e in s_exprs(s) if e[0] == 'c' and not c_float(e[1]))
    if n_top:
        out.append(('mapty-exact', s_retype_map(s, None, 't', only_toplevel=True), True))
        out.append(('mapty-exact', s_retype_map(s, rng.randrange(n_top), 'i', only_toplevel=True), True))
    n = s_nmapconsts(s)
    if n:
        out.append(('mapty-float', s_retype_map(s, 0, 'f'), False))
        out.append(('mapty-float', s_retype_map(s, rng.randrange(n), 'f'), False))
        out.append(('mapty-float-all', s_retype_map(s, None, 'f'), False))
    for o in s_xclass(s):
        out.append(('xclass', o, False))
    for _ in range(3):
        o, kind = s_variant(rng, s)
        if kind not in ('same', 'perm', 'numty'):
            out.append((kind, o, False))
    cases = []
    for name, o, must in out:
        if eqt_ok(o) and bounded(o):
            cases.append({'kind': 'eqt', 'a': s, 'b': o, 'must': must, 'variant': name, 'src': src})
    return cases


def rnd_eqt_cases(rng, count):
    out = []
    for _ in range(count):
        for _try in range(20):
            s = rnd_stack(rng, rng.choice([0, 1, 1, 2, 2, 3, 4]), False)
            if bounded(s) and eqt_ok(s):
                break
        else:
            continue
        vs = eqt_variants(s, rng, 'random-eq')
        out.extend(rng.sample(vs, min(4, len(vs))))
    return out


def fam_eqt(full):
    """deterministic: the second family root under every name-coincidence layer, a few two-layer stacks, joint scopes
    over different roots, scopes after Scope.overwrite with constants of every number type; every variant of each"""
    import random
    rng = random.Random(20261001)                   # fixed: the family does not depend on the run's seed
    root = fam_roots()[1]
    scopes = [root, {'t': 'dict', 'vals': [], 'vol': []}]
    layers = fam_layers()
    for la in layers:
        scopes.append(fam_apply(root, la))
    for i, j in ((0, 19), (13, 20), (12, 23), (17, 2), (23, 13), (24, 0)) + (((3, 22), (9, 24), (18, 21)) if full else ()):
        scopes.append(fam_apply(fam_apply(root, layers[i]), layers[j]))
    for c in fam_joint_roots(False)[::(7 if full else 23)]:
        scopes.append(c['scope'])
    scopes.append(s_overwrite(s_overwrite(root, [['p2', '7'], ['p5', '1/2@f']]), [['p0', '0@t'], ['p6', '3@n'], ['p7', '2@i']]))
    scopes.append({'t': 'mapped', 'o': root, 'm': [['p5', ['+', ['/', _v('p2'), '2'], ['c', '1/2']]],
                                                  ['p6', ['min', ['*', _v('p0'), ['c', '3']], ['c', '4']]]]})
    out = []
    for s in scopes:
        if eqt_ok(s) and bounded(s):
            out.extend(eqt_variants(s, rng, 'family-eq'))
    # values whose Python hashes collide (hash(-1) == hash(-2)): unequal scopes with equal hashes
    D = lambda v: {'t': 'dict', 'vals': [['p0', v], ['p1', '3']], 'vol': ['p0']}
    Mp = lambda d, c: {'t': 'mapped', 'o': d, 'm': [['p2', ['c', c]], ['p3', ['+', _v('p0'), ['c', c]]]]}
    Rg = lambda d, v: {'t': 'range', 'i': d, 'n': 'p4', 'v': v}
    for a, b in ((D('-2'), D('-1')), (D('-2'), D('-1@f')), (Mp(D('-2'), '-2'), Mp(D('-1'), '-2')),
                 (Mp(D('-2'), '-2'), Mp(D('-2'), '-1')), (Rg(D('3'), '-2'), Rg(D('3'), '-1')),
                 (Rg(Mp(D('-1'), '5'), '-1'), Rg(Mp(D('-2'), '5'), '-1')),
                 ({'t': 'joint', 'l': [['p0', D('-2')]]}, {'t': 'joint', 'l': [['p0', D('-1')]]})):
        out.append({'kind': 'eqt', 'a': a, 'b': b, 'must': False, 'variant': 'hash-collision', 'src': 'family-eq'})
    return out


def fam_volop():
    """joint scopes built by the real VolatileRepetitionCount.operation from operand scopes over one shared root / two
    roots / a loop scope; histories with change_constants on either root"""
    A = {'t': 'dict', 'vals': [['p0', '1'], ['p1', '2']], 'vol': ['p0']}
    B = {'t': 'dict', 'vals': [['p2', '3'], ['p1', '2']], 'vol': ['p2']}
    x10 = ['+', ['*', ['c', '10'], _v('p0')], _v('p1')]
    loopA = {'t': 'range', 'i': {'t': 'mapped', 'o': A, 'm': [['p5', x10]]}, 'n': 'p0', 'v': '4'}
    W = lambda n, o, e: [n, {'t': 'mapped', 'o': o, 'm': [[n, e]]}]
    e5, e6 = W('p5', A, x10), W('p6', A, ['*', _v('p1'), ['c', '2']])
    e7, e4 = W('p7', B, ['+', _v('p2'), _v('p1')]), W('p4', loopA, ['+', _v('p5'), _v('p0')])
    e3 = W('p3', A, _v('p0'))
    ca, cb = [['p0', '7']], [['p2', '0@f']]
    out = []
    for entries in ([e5, e6], [e5, e7], [e7, e5], [e5, e6, e7], [e4, e5], [e4, e7, e6], [e3], [e3, e5, e7]):
        for changes in ([ca, cb], [cb, [['p7', '1']], ca + cb]):
            s = {'t': 'joint', 'l': entries}
            ops = r4_history(s, changes)
            if history_bounded(s, ops):
                out.append({'kind': 'hist', 'scope': s, 'ops': ops, 'src': 'family4', 'via': 'op'})
    return out


def fam_joint_foreign_volatile():
    """round 5 (class of seed C13-8, until now reached by the random stream only): a JointScope takes the name n from a
    sub scope in which n is NOT volatile while ANOTHER sub scope of the same joint scope has a volatile parameter that is
    also called n (a constant marked volatile there / a parameter derived from a volatile constant there); both insertion
    orders, bare / below a MappedScope / as built by VolatileValue.operation; change_constants on either root"""
    A = {'t': 'dict', 'vals': [['p0', '1'], ['p1', '2']], 'vol': ['p0']}
    B = {'t': 'dict', 'vals': [['p1', '2'], ['p2', '3']], 'vol': ['p1', 'p2']}
    M = lambda o, *kv: {'t': 'mapped', 'o': o, 'm': [list(q) for q in kv]}
    mA = M(A, ('p5', ['*', _v('p1'), ['c', '2']]))                       # p5 = 2 * p1: not volatile over A
    mB = M(B, ('p5', _v('p1')), ('p6', ['+', _v('p2'), ['c', '1']]))     # p5 = p1: volatile over B
    loopB = {'t': 'range', 'i': B, 'n': 'p0', 'v': '4'}                  # p0 not volatile (index), p1 / p2 volatile
    W = lambda n, o, e: [n, M(o, (n, e))]
    shapes = [
        [['p1', A], ['p2', B]],                      # p1 from A (plain constant); B marks p1 volatile
        [['p2', B], ['p1', A]],
        [['p1', A], ['p0', A], ['p2', B]],           # ... next to a name that IS volatile in the sub scope it comes from
        [['p5', mA], ['p6', mB]],                    # p5 from mA (not volatile); mB has a volatile p5
        [['p6', mB], ['p5', mA]],
        [['p5', mA], ['p6', mB], ['p1', B]],
        [['p0', loopB], ['p2', B], ['p1', A]],       # p0 from the loop (index); A marks p0 volatile but provides p1 only
        [['p1', A], ['p0', loopB]],
    ]
    opshapes = [
        [W('p5', A, ['*', _v('p1'), ['c', '2']]), W('p6', mB, ['+', _v('p2'), _v('p5')])],
        [W('p6', mB, ['+', _v('p2'), _v('p5')]), W('p5', A, ['*', _v('p1'), ['c', '2']])],
        [W('p1', A, ['+', _v('p1'), ['c', '1']]), W('p7', B, ['+', _v('p1'), _v('p2')])],
    ]
    changes = [[[['p0', '7']], [['p2', '0@f']]], [[['p2', '9']], [['p7', '1']], [['p0', '0'], ['p2', '4@t']]]]
    out = []
    for l in shapes:
        for ch in changes:
            for wrap in (None, 'mapped'):
                s = {'t': 'joint', 'l': l}
                if wrap:
                    s = M(s, ('p7', ['+', _v(l[0][0]), _v(l[-1][0])]))
                ops = r4_history(s, ch)
                if history_bounded(s, ops):
                    out.append({'kind': 'hist', 'scope': s, 'ops': ops, 'src': 'family5'})
    for l in opshapes:
        for ch in changes:
            s = {'t': 'joint', 'l': l}
            ops = r4_history(s, ch)
            if history_bounded(s, ops):
                out.append({'kind': 'hist', 'scope': s, 'ops': ops, 'src': 'family5', 'via': 'op'})
    return out


def fam_partial():
    """round 6: stacks that do NOT denote a whole mapping (one mapping expression reads a name nobody provides, or divides
    by a constant whose value is 0) combined with the name-coincidence layers (swap, swap through the volatile name,
    3-cycle, a -> a+1, v -> 7, variable overwritten by the same mapping, loop index = constant / volatile name), broken
    layer below / above / between; every view first (as_dict / items before any lookup), lookups of every name, the views
    again, overwrite of one name twice with different values, change_constants, lookups and views again.  The values the
    code returns here are judged by check_spec against SpecLazy.value_at (C13_lookup_partial)"""
    a, b, v, x, y = 'p0', 'p1', 'p2', 'p5', 'p6'
    M = lambda *kv: ('mapped', [list(p) for p in kv])
    R = lambda n, val: ('range', n, val)
    broken = [M((y, ['+', _v('p7'), _v(v)])),                          # p7 is provided by nobody
              M((y, ['+', _v('p7'), _v(v)]), (x, ['+', _v(a), _v(b)])),  # ... next to an entry that has a value
              M((y, ['div', _v(b), _v('p4')]))]                         # p4 = 0 in the root below
    coin = [M((a, _v(b)), (b, _v(a))), M((b, _v(a)), (a, _v(b))), M((a, _v(v)), (v, _v(a))),
            M((a, _v(b)), (b, _v(v)), (v, _v(a))), M((a, ['+', _v(a), ['c', '1']])), M((v, ['c', '7'])),
            M((a, ['+', _v(v), _v(b)]), (b, ['c', '7'])), R(a, '0'), R(v, '4')]
    roots = [{'t': 'dict', 'vals': [['p0', '1'], ['p1', '2'], ['p2', '3'], ['p4', '0']], 'vol': ['p2']},
             {'t': 'dict', 'vals': [['p0', '1'], ['p1', '2'], ['p2', '3'], ['p3', '5'], ['p4', '0@f']], 'vol': ['p2', 'p3']}]
    names = ['p0', 'p1', 'p2', 'p4', 'p5', 'p6', 'p7']
    gets = [['get', n] for n in names]
    views = [['as_dict'], ['items'], ['len'], ['iter'], ['keys'], ['in', 'p6'], ['in', 'p7'], ['vol']]
    out = []
    for ri, root in enumerate(roots):
        for ci, c in enumerate(coin):
            for bi, br in enumerate(broken):
                if (ci + bi + ri) % 2:          # fixed thinning: 27 of the 54 (coin, broken) pairs per order
                    continue
                for stack in ([br, c], [c, br], [c, br, coin[(ci + 3) % len(coin)]]):
                    s = root
                    for layer in stack:
                        s = fam_apply(s, layer)
                    ops = views[:2] + gets + views + [['overwrite', [['p1', '5']]], ['overwrite', [['p1', '6'], ['p6', '0']]]] \
                        + gets + views[:2] + [['change', [['p2', '0']]]] + gets + views[:2]
                    if history_bounded(s, ops):
                        out.append({'kind': 'hist', 'scope': s, 'ops': ops, 'src': 'family6'})
    return out


def r4_cases(full):
    return fam_joint_roots(full) + fam_shadow_change(full) + fam_volop() + fam_eqt(full) + fam_joint_foreign_volatile() \
        + fam_partial()


def exhaustive_small(rng, frac):
    """all stacks of <= 3 layers over 3 names (fixed values), fixed full history"""
    names = NAMES[:3]
    roots = []
    for keys, vols in ((names[:2], [[], [names[0]], names[:2]]), (names, [[], [names[1]], [names[0], names[2]]])):
        for vol in vols:
            roots.append({'t': 'dict', 'vals': [[n, str(i + 1)] for i, n in enumerate(keys)], 'vol': list(vol)})
    exprs = [['c', '5']] + [['v', n] for n in names] + \
            [['+', ['v', a], ['v', b]] for a, b in itertools.combinations(names, 2)]
    layers = [('mapped', n, e) for n in names for e in exprs] + [('range', n, None) for n in names]
    out = []
    for root in roots:
        for depth in range(0, 4):
            for combo in itertools.product(layers, repeat=depth):
                if depth == 3 and (frac <= 0.0 or (not root['vol'] and rng.random() > frac)):
                    continue        # thorough: ALL 3-layer stacks over the roots with a volatile constant, a sample
                                    # over the two roots without one (volatility is trivially empty there)
                s = root
                for kind, n, e in combo:
                    s = {'t': 'mapped', 'o': s, 'm': [[n, e]]} if kind == 'mapped' else \
                        {'t': 'range', 'i': s, 'n': n, 'v': '7'}
                vol = root['vol']
                base = dict(root['vals'])
                envs = [sorted(base.items()), sorted(dict(base, **{n: '4' for n in vol}).items()),
                        sorted(dict(base, **{n: str(-3 - 2 * i) for i, n in enumerate(vol)}).items())]
                ops = [['volx', envs], ['get', names[0]], ['get', names[2]], ['in', names[2]], ['len'], ['iter'],
                       ['as_dict'], ['get', names[1]], ['keys'], ['items'], ['vol'],
                       ['change', [[n, '11'] for n in (vol or names[:1])]], ['vol'], ['as_dict'],
                       ['volx', [sorted(dict(base, **{n: '11' for n in (vol or names[:1])}).items())]]]
                out.append({'kind': 'hist', 'scope': s, 'ops': ops, 'src': 'exh'})
    return out


def gen_cases(rng, tier, ctx):
    n = {'quick': 1, 'thorough': 6}[tier]
    cases = []
    # fixed boundary cases
    d0 = {'t': 'dict', 'vals': [], 'vol': []}
    full = [['vol'], ['len'], ['iter'], ['keys'], ['items'], ['as_dict'], ['get', 'p0'], ['in', 'p0'],
            ['change', [['p0', '4']]], ['vol'], ['as_dict'], ['eq', d0, 'same']]
    cases.append({'kind': 'hist', 'scope': d0, 'ops': full, 'src': 'fixed'})
    cases.append({'kind': 'hist', 'scope': {'t': 'joint', 'l': []}, 'ops': full[:-1], 'src': 'fixed'})
    cases.append({'kind': 'hist', 'scope': {'t': 'mapped', 'o': d0, 'm': []}, 'ops': full[:-1], 'src': 'fixed'})
    # the witness of the repaired defect: volatile query of a joint scope as built by VolatileValue.operation
    da = {'t': 'dict', 'vals': [['p0', '1'], ['p1', '2']], 'vol': ['p0']}
    jw = {'t': 'joint', 'l': [['p2', {'t': 'mapped', 'o': da, 'm': [['p2', ['+', ['v', 'p0'], ['c', '1']]]]}],
                              ['p3', {'t': 'mapped', 'o': da, 'm': [['p3', ['*', ['v', 'p1'], ['c', '2']]]]}]]}
    cases.append({'kind': 'hist', 'scope': jw, 'src': 'fixed',
                  'ops': [['vol'], ['get', 'p2'], ['as_dict'], ['change', [['p0', '5']]], ['vol'], ['get', 'p2'],
                          ['as_dict'], ['len'], ['iter'], ['items']]})
    # "given as empty" vs "not given": empty overwrite / empty change on a scope with volatile parameters, the same
    # change_constants call twice, change_constants with the current values
    cases.append({'kind': 'hist', 'scope': {'t': 'mapped', 'o': da, 'm': [['p2', ['+', ['v', 'p0'], ['v', 'p1']]]]},
                  'src': 'fixed',
                  'ops': [['overwrite', []], ['vol'], ['volx', [[['p0', '1'], ['p1', '2']], [['p0', '0@t'], ['p1', '2']]]],
                          ['as_dict'], ['change', []], ['vol'], ['change', [['p0', '0']]], ['change', [['p0', '0']]],
                          ['as_dict'], ['vol'], ['change', [['p0', '0@f'], ['p1', '2']]], ['as_dict'], ['vol'],
                          ['overwrite', []], ['overwrite', [['p0', '0']]], ['vol'], ['as_dict'], ['len'], ['iter']]})
    for _ in range(800 * n):
        malformed = rng.random() < 0.15
        layers = rng.choice([0, 1, 1, 2, 2, 3, 3, 4, 5, 6])
        for _try in range(20):
            s = rnd_stack(rng, layers, malformed)
            if bounded(s):
                break
        else:
            continue
        ops = rnd_ops(rng, s, rng.randint(4, 14))
        cases.append({'kind': 'hist', 'scope': s, 'ops': ops, 'src': 'malformed' if malformed else 'random'})
    if tier == 'thorough':
        cases.extend(family_names(3, third=fam_layers()[:5] + fam_layers()[9:10] + fam_layers()[18:20]))
    else:
        cases.extend(family_names(2, thin=4))
    cases.extend(r4_cases(tier == 'thorough'))
    # random: == / hash with number kinds and across classes
    cases.extend(rnd_eqt_cases(rng, 60 * n))
    # random stacks whose top is the shape VolatileValue.operation builds: built by the real operation
    for c in cases:
        if c['kind'] == 'hist' and c.get('src') == 'random' and is_opshape(c['scope']):
            c['via'] = 'op'
    if tier == 'thorough':
        cases.extend(exhaustive_small(rng, 0.25))
    else:
        ex = exhaustive_small(rng, 0.0)
        cases.extend(c for c in ex if rng.random() < 0.15)
    return cases


# ---------------------------------------------------------------------------------------------------------------------
# running the implementation

_EXPR_CACHE = {}


def _py_value(q):
    """the Python number for a value string: untagged = int if integral else float; '@f' float, '@t' TimeType,
    '@n' numpy.float64, '@i' numpy.int64 (integral values only)"""
    f = V(q)
    tag = q.split('@')[1] if '@' in q else ''
    if tag == 'f':
        return float(f)
    if tag == 't':
        from qupulse.utils.types import TimeType
        return TimeType.from_fraction(f.numerator, f.denominator)
    if tag == 'n':
        import numpy
        return numpy.float64(float(f))
    if tag == 'i' and f.denominator == 1:
        import numpy
        return numpy.int64(int(f))
    return int(f) if f.denominator == 1 else float(f)


def _py_expr(e):
    from qupulse.expressions import ExpressionScalar, Expression
    if e[0] == 'c' and '@' in e[1]:
        # a constant wrapped the way Scope.overwrite does it: Expression(value)
        s = 'overwrite:' + e[1]
        ex = _EXPR_CACHE.get(s)
        if ex is None:
            ex = _EXPR_CACHE[s] = Expression(_py_value(e[1]))
        return ex
    s = e_str(e)
    ex = _EXPR_CACHE.get(s)
    if ex is None:
        ex = ExpressionScalar(s)
        _EXPR_CACHE[s] = ex
    return ex


def sym_to_json(x):
    """the expression tree sympy holds, as a JSON expression (n-ary + * Min Max folded, x**k unrolled)"""
    import functools
    import sympy
    if x.is_Symbol:
        return ['v', str(x)]
    if x.is_Rational:
        return ['c', str(F(int(x.p), int(x.q)))]
    if x.is_Float:
        return ['c', str(F(*float(x).as_integer_ratio()))]
    if x.is_Add or x.is_Mul or isinstance(x, (sympy.Min, sympy.Max)):
        op = '+' if x.is_Add else '*' if x.is_Mul else 'min' if isinstance(x, sympy.Min) else 'max'
        return functools.reduce(lambda a, b: [op, a, b], [sym_to_json(a) for a in x.args])
    if x.is_Pow and x.exp.is_Integer and 1 <= abs(int(x.exp)) <= 4:
        b = sym_to_json(x.base)
        p = functools.reduce(lambda a, c: ['*', a, c], [b] * abs(int(x.exp)))
        return p if int(x.exp) > 0 else ['div', ['c', '1'], p]
    raise ValueError('unsupported sympy node %r' % (x,))


def sym_to_json_typed(x):
    """the tree sympy holds with the KIND of every constant (a sympy Float is tagged '@f')"""
    import functools
    import sympy
    if x.is_Symbol:
        return ['v', str(x)]
    if x.is_Rational:
        return ['c', str(F(int(x.p), int(x.q)))]
    if x.is_Float:
        return ['c', str(F(*float(x).as_integer_ratio())) + '@f']
    if x.is_Add or x.is_Mul or isinstance(x, (sympy.Min, sympy.Max)):
        op = '+' if x.is_Add else '*' if x.is_Mul else 'min' if isinstance(x, sympy.Min) else 'max'
        return functools.reduce(lambda a, b: [op, a, b], [sym_to_json_typed(a) for a in x.args])
    if x.is_Pow and x.exp.is_Integer and 1 <= abs(int(x.exp)) <= 4:
        b = sym_to_json_typed(x.base)
        p = functools.reduce(lambda a, c: ['*', a, c], [b] * abs(int(x.exp)))
        return p if int(x.exp) > 0 else ['div', ['c', '1'], p]
    raise ValueError('unsupported sympy node %r' % (x,))


_TCANON_CACHE = {}


def tcanon(e):
    """the typed tree sympy holds for e (what Expression.__eq__ compares structurally); value-checked against e"""
    key = ('overwrite:' + e[1]) if (e[0] == 'c' and '@' in e[1]) else e_str(e)
    c = _TCANON_CACHE.get(key)
    if c is not None:
        return c
    ex = _py_expr(e)
    c = sym_to_json_typed(ex.underlying_expression)
    if set(e_vars(c)) != set(ex.variables):
        raise RuntimeError('harness: sympy reports variables %r for %s' % (ex.variables, key))
    for k in (1, 2, 3):
        env = {n: F(3 * i + k, 2) for i, n in enumerate(NAMES)}
        try:
            ve = e_eval(e, env, strict=False)
        except ZeroDivisionError:
            ve = None
        if ve is not None and ve != e_eval(c, env, strict=False):
            raise RuntimeError('harness: %s and the tree sympy holds differ in value' % key)
    _TCANON_CACHE[key] = c
    return c


_CANON_CACHE = {}


def canon(e):
    """the expression the MODEL receives: e itself when sympy keeps exactly e's variables, otherwise (sympy cancelled a
    variable while building the expression object, e.g. 0*x or x - x) the tree sympy holds; value-checked against e"""
    key = e_str(e)
    c = _CANON_CACHE.get(key)
    if c is not None:
        return c
    ex = _py_expr(e)
    if set(ex.variables) == set(e_vars(e)):
        c = e
    else:
        c = sym_to_json(ex.underlying_expression)
        if set(e_vars(c)) != set(ex.variables):
            raise RuntimeError('harness: sympy reports variables %r for %s' % (ex.variables, key))
        for k in (1, 2, 3):
            env = {n: F(3 * i + k, 2) for i, n in enumerate(NAMES)}
            if e_eval(e, env, strict=False) != e_eval(c, env, strict=False):
                raise RuntimeError('harness: %s and the tree sympy holds differ in value' % key)
    _CANON_CACHE[key] = c
    return c


_CTOR_SHIFT = [0]


def build(s, memo=None):
    """Python scope objects for a JSON scope; identical JSON sub-scopes inside one joint scope share one object"""
    from qupulse.parameter_scope import DictScope, MappedScope, JointScope
    from qupulse.pulses.range import RangeScope
    from qupulse.utils.types import FrozenDict
    t = s['t']
    if memo is None and t == 'joint':
        memo = {}
    key = None
    if memo is not None:
        key = vlib.canonical_hash(s)
        if key in memo:
            return memo[key]
    if t == 'dict':
        which = (len(s['vals']) + 2 * len(s['vol']) + _CTOR_SHIFT[0]) % 3          # all three constructors of DictScope
        if which == 0:
            r = DictScope(FrozenDict((k, _py_value(v)) for k, v in s['vals']), frozenset(s['vol']))
        elif which == 1:
            r = DictScope.from_mapping({k: _py_value(v) for k, v in s['vals']}, frozenset(s['vol']))
        else:
            r = DictScope.from_kwargs(volatile=frozenset(s['vol']), **{k: _py_value(v) for k, v in s['vals']})
    elif t == 'mapped':
        r = MappedScope(build(s['o'], memo), FrozenDict((k, _py_expr(e)) for k, e in s['m']))
    elif t == 'range':
        r = RangeScope(build(s['i'], memo), s['n'], _py_value(s['v']))
    else:
        r = JointScope(FrozenDict((k, build(sub, memo)) for k, sub in s['l']))
    if memo is not None:
        memo[key] = r
    return r


def s_labels(s, memo=None, ctr=None):
    """object identities of build(s): (id, kids) per tree position, equal ids = one Python object (the sharing rule of
    `build`: identical JSON sub-scopes inside one joint scope are one object)"""
    if ctr is None:
        ctr = [0]
    t = s['t']
    if memo is None and t == 'joint':
        memo = {}
    key = None
    if memo is not None:
        key = vlib.canonical_hash(s)
        if key in memo:
            return memo[key]
    if t == 'dict':
        kids = []
    elif t == 'mapped':
        kids = [s_labels(s['o'], memo, ctr)]
    elif t == 'range':
        kids = [s_labels(s['i'], memo, ctr)]
    else:
        kids = [s_labels(sub, memo, ctr) for _, sub in s['l']]
    ctr[0] += 1
    lab = (ctr[0], kids)
    if memo is not None:
        memo[key] = lab
    return lab


def is_opshape(s):
    """the shape VolatileValue.operation builds: a joint scope whose every entry `name` is MappedScope(_, {name: expr})"""
    return s['t'] == 'joint' and len(s['l']) > 0 and all(
        sub['t'] == 'mapped' and len(sub['m']) == 1 and sub['m'][0][0] == n for n, sub in s['l'])


def build_via_operation(s):
    """the scope of VolatileRepetitionCount.operation(expression, **operands) for operands (expr_n, build(sub_n)): the
    real constructor of such joint scopes (qupulse/program/volatile.py)"""
    from qupulse.program.volatile import VolatileRepetitionCount
    memo = {}
    operands = {n: VolatileRepetitionCount(_py_expr(sub['m'][0][1]), build(sub['o'], memo)) for n, sub in s['l']}
    return VolatileRepetitionCount.operation(' + '.join(n for n, _ in s['l']), **operands)


def _volop_readings(s):
    """on a second, fresh VolatileRepetitionCount built the same way: volatile_property.dependencies must be the scope's
    volatile parameters restricted to the operand names, int() the rounded (clamped) sum of the entries"""
    vv = build_via_operation(s)
    scope = vv._scope
    try:
        d = scope.as_dict()
    except Exception:
        return                                   # the scope does not denote: nothing to read
    deps = vv.volatile_property.dependencies
    vol = scope.get_volatile_parameters()
    if set(deps) != {n for n, _ in s['l'] if n in vol} or any(deps[n] != vol[n] for n in deps):
        raise AssertionError('volatile_property.dependencies %r differ from the volatile parameters %r' % (deps, vol))
    total = sum(vlib.to_fraction(v) for v in d.values())
    with warnings.catch_warnings():
        warnings.simplefilter('ignore')
        if int(vv) != max(0, int(round(total))):
            raise AssertionError('int(VolatileRepetitionCount) = %r, entries sum to %r' % (int(vv), total))


def _err(e):
    if isinstance(e, KeyError):
        return {'err': 'missing'}
    return {'err': 'other', 'detail': '%s: %s' % (type(e).__name__, str(e)[:120])}


def _guard(fn):
    try:
        return {'ok': fn()}
    except vlib.Timeout:
        raise
    except Exception as e:   # every exception is an observation; the Coq side decides whether it is acceptable
        return _err(e)


def _kv(items):
    return sorted([[k, vlib.frac_json(v)] for k, v in items])


def _items_values(cur):
    """items(), cross-checked against values() (the same multiset of values) and Mapping.get"""
    vals = sorted(vlib.frac_json(v) for v in cur.values())      # first: before items() fills any cache
    kv = _kv(cur.items())
    if vals != sorted(v for _, v in kv):
        raise AssertionError('values() %r is not the multiset of the values of items() %r' % (vals, kv))
    for k, v in kv[:2]:
        if vlib.frac_json(cur.get(k, None)) != v:
            raise AssertionError('get(%r) differs from items()' % k)
    if cur.get('p_none', 17) != 17:
        raise AssertionError('get of a missing name does not return the default')
    return kv


def run_impl(case):
    try:
        with vlib.time_limit(10):
            return _run_impl(case)
    except vlib.Timeout:
        return {'hang': True}
    except Exception as e:
        return {'crash': '%s: %s' % (type(e).__name__, str(e)[:200])}


def _volx(cur, envs):
    """get_volatile_parameters(): every dependency expression evaluated in every environment (None = a variable of
    the expression has no value there)"""
    from qupulse.expressions import ExpressionVariableMissingException
    vp = cur.get_volatile_parameters()
    out = []
    for name in sorted(vp):
        vals = []
        for env in envs:
            try:
                vals.append(vlib.frac_json(vp[name].evaluate_in_scope({n: _py_value(v) for n, v in env})))
            except vlib.Timeout:
                raise
            except Exception:
                # no value in this environment: a variable is missing, a divisor is 0 there (ZeroDivisionError / inf /
                # sympy's zoo).  The Coq side accepts this only where the model's expression has no value either.
                vals.append(None)
        out.append([name, vals])
    return out


def _run_eqt(case):
    a = build(case['a'])
    _CTOR_SHIFT[0] = 1                    # the twin's DictScopes come from another constructor
    try:
        b = build(case['b'])
    finally:
        _CTOR_SHIFT[0] = 0
    return {'eqt': [bool(a == b), bool(b == a), hash(a) == hash(b), bool(a != b)]}


def _run_impl(case):
    from qupulse.parameter_scope import NonVolatileChange
    if case['kind'] == 'eqt':
        return _run_eqt(case)
    cur_json = case['scope']
    if case.get('via') == 'op':
        _volop_readings(cur_json)
        cur = build_via_operation(cur_json)._scope
    else:
        cur = build(cur_json)
    out = []
    for op in case['ops']:
        k = op[0]
        if k == 'get':
            out.append(_guard(lambda: vlib.frac_json(cur[op[1]])))
        elif k == 'in':
            out.append(_guard(lambda: bool(op[1] in cur)))
        elif k == 'iter':
            out.append(_guard(lambda: sorted(iter(cur))))
        elif k == 'len':
            out.append(_guard(lambda: int(len(cur))))
        elif k == 'keys':
            out.append(_guard(lambda: sorted(cur.keys())))
        elif k == 'items':
            out.append(_guard(lambda: _items_values(cur)))
        elif k == 'as_dict':
            out.append(_guard(lambda: _kv(cur.as_dict().items())))
        elif k == 'vol':
            out.append(_guard(lambda: sorted(cur.get_volatile_parameters().keys())))
        elif k == 'volx':
            out.append(_guard(lambda: _volx(cur, op[1])))
        elif k == 'change':
            nc = {n: _py_value(v) for n, v in op[1]}
            with warnings.catch_warnings(record=True) as w:
                warnings.simplefilter('always')
                new = cur.change_constants(nc)
            warned = any(issubclass(x.category, NonVolatileChange) for x in w)
            cur_json = s_rebuild(cur_json, dict(op[1]))
            rebuilt = build(cur_json)
            out.append({'ok': [warned, bool(new == rebuilt), hash(new) == hash(rebuilt)]})
            cur = new
        elif k == 'eq':
            other = build(op[1])
            out.append({'ok': [bool(cur == other), hash(cur) == hash(other)]})
        elif k == 'overwrite':
            cur = cur.overwrite({n: _py_value(v) for n, v in op[1]})
            cur_json = s_overwrite(cur_json, op[1])
            out.append({'ok': True})
        else:
            raise ValueError(k)
    return {'obs': out}


# ---------------------------------------------------------------------------------------------------------------------
# Gallina printers

def g_name(n):
    return gN(NIDX[n])


def g_expr(e):
    if e[0] == 'c':
        return '(EConst %s)' % gQ(V(e[1]))
    if e[0] == 'v':
        return '(EVar %s)' % g_name(e[1])
    if e[0] == '/':
        return '(EDivC %s %s)' % (g_expr(e[1]), gQ(V(e[2])))
    return '(%s %s %s)' % ({'+': 'EAdd', '-': 'ESub', '*': 'EMul', 'min': 'EMin', 'max': 'EMax', 'div': 'EDiv'}[e[0]],
                           g_expr(e[1]), g_expr(e[2]))


def g_list(xs):
    return '[' + '; '.join(xs) + ']'


def g_scope(s):
    t = s['t']
    if t == 'dict':
        return '(SDict %s %s)' % (g_list('(%s, %s)' % (g_name(k), gQ(V(v))) for k, v in s['vals']),
                                  g_list(g_name(n) for n in s['vol']))
    if t == 'mapped':
        return '(SMapped %s %s)' % (g_scope(s['o']), g_list('(%s, %s)' % (g_name(k), g_expr(canon(e))) for k, e in s['m']))
    if t == 'range':
        return '(SRange %s %s %s)' % (g_scope(s['i']), g_name(s['n']), gQ(V(s['v'])))
    return '(SJoint %s)' % g_list('(%s, %s)' % (g_name(k), g_scope(sub)) for k, sub in s['l'])


def g_lab(lab):
    return '(L %s %s)' % (gN(lab[0]), g_list(g_lab(k) for k in lab[1]))


def g_texpr(e):
    if e[0] == 'c':
        return '(TConst %s %s)' % (gbool(c_float(e[1])), gQ(V(e[1])))
    if e[0] == 'v':
        return '(TVar %s)' % g_name(e[1])
    if e[0] == '/':
        return '(TDivC %s %s %s)' % (g_texpr(e[1]), gbool(c_float(e[2])), gQ(V(e[2])))
    return '(%s %s %s)' % ({'+': 'TAdd', '-': 'TSub', '*': 'TMul', 'min': 'TMin', 'max': 'TMax', 'div': 'TDiv'}[e[0]],
                           g_texpr(e[1]), g_texpr(e[2]))


def g_tscope(s):
    """a scope with the number kind of its expression constants; every expression as the typed tree sympy holds"""
    t = s['t']
    if t == 'dict':
        return '(TSDict %s %s)' % (g_list('(%s, %s)' % (g_name(k), gQ(V(v))) for k, v in s['vals']),
                                   g_list(g_name(n) for n in s['vol']))
    if t == 'mapped':
        return '(TSMapped %s %s)' % (g_tscope(s['o']),
                                     g_list('(%s, %s)' % (g_name(k), g_texpr(tcanon(e))) for k, e in s['m']))
    if t == 'range':
        return '(TSRange %s %s %s)' % (g_tscope(s['i']), g_name(s['n']), gQ(V(s['v'])))
    return '(TSJoint %s)' % g_list('(%s, %s)' % (g_name(k), g_tscope(sub)) for k, sub in s['l'])


def g_op(op):
    k = op[0]
    if k == 'get':
        return '(OGet %s)' % g_name(op[1])
    if k == 'in':
        return '(OContains %s)' % g_name(op[1])
    if k == 'change':
        return '(OChange %s)' % g_list('(%s, %s)' % (g_name(n), gQ(V(v))) for n, v in op[1])
    if k == 'overwrite':
        return '(OOverwrite %s)' % g_list('(%s, %s)' % (g_name(n), gQ(V(v))) for n, v in op[1])
    if k == 'eq':
        return '(OEq %s)' % g_scope(op[1])
    if k == 'volx':
        return '(OVolX %s)' % g_list(g_list('(%s, %s)' % (g_name(n), gQ(V(v))) for n, v in env) for env in op[1])
    return {'iter': 'OIter', 'len': 'OLen', 'keys': 'OKeys', 'items': 'OItems', 'as_dict': 'OAsDict', 'vol': 'OVol'}[k]


def g_result(o, p):
    if 'ok' in o:
        return '(Ok %s)' % p(o['ok'])
    return '(Err %s)' % ('EMissing' if o['err'] == 'missing' else 'EOther')


def g_obs(op, o):
    k = op[0]
    if k == 'get':
        return '(BVal %s)' % g_result(o, lambda v: gQ(F(v)))
    if k == 'in':
        return '(BBool %s)' % gbool(o['ok']) if 'ok' in o else '(BKeys (Err EOther))'
    if k in ('iter', 'keys', 'vol'):
        return '(BKeys %s)' % g_result(o, lambda ks: g_list(g_name(n) for n in ks))
    if k == 'len':
        return '(BLen %s)' % g_result(o, gZ)
    if k in ('items', 'as_dict'):
        return '(BItems %s)' % g_result(o, lambda kv: g_list('(%s, %s)' % (g_name(n), gQ(F(v))) for n, v in kv))
    if k == 'volx':
        return '(BVolX %s)' % g_result(o, lambda kv: g_list(
            '(%s, %s)' % (g_name(n), g_list('None' if v is None else '(Some %s)' % gQ(F(v)) for v in vs))
            for n, vs in kv))
    if k == 'change':
        return '(BChange %s %s %s)' % tuple(gbool(b) for b in o['ok'])
    if k == 'eq':
        return '(BEq %s %s)' % tuple(gbool(b) for b in o['ok'])
    if k == 'overwrite':
        return 'BOver' if 'ok' in o else '(BKeys (Err EOther))'
    raise ValueError(k)


def has_div(case):
    if case['kind'] == 'eqt':
        return False
    return any('div' in e_ops(e) for e in s_exprs(case['scope'])) or \
        any('div' in e_ops(e) for op in case['ops'] if op[0] == 'eq' for e in s_exprs(op[1]))


def obs_inexact(obs):
    """some observed number is a binary fraction with a huge denominator, i.e. the result of a ROUNDED floating point
    operation (every exact result of a generated case has a denominator <= MAXDEN)"""
    def walk(x):
        if isinstance(x, str):
            return '/' in x and F(x).denominator > MAXDEN
        if isinstance(x, (list, tuple)):
            return any(walk(y) for y in x)
        if isinstance(x, dict):
            return any(walk(y) for k, y in x.items() if k == 'ok')
        return False
    return any(walk(o) for o in obs.get('obs', []))


def dropped_inexact(case, obs):
    """second line of defence behind the generator's exactness filter, ONLY for cases with a division by an expression: if
    the implementation's floating point division rounded, the case cannot be compared exactly and is replaced by the
    empty history (counted in the histogram as 'dropped:inexact-float-division')"""
    return has_div(case) and obs_inexact(obs)


def to_coq(case, obs):
    if case['kind'] == 'eqt':
        if 'eqt' not in obs:
            return 'CCrash'
        e, e2, h, ne = obs['eqt']
        if ne == e:                      # `!=` is not the negation of `==`
            return 'CCrash'
        return '(CEq %s %s %s %s %s %s)' % (g_tscope(case['a']), g_tscope(case['b']), gbool(case['must']),
                                            gbool(e), gbool(e2), gbool(h))
    if 'obs' not in obs:
        return 'CCrash'
    lab = g_lab(s_labels(case['scope']))
    if dropped_inexact(case, obs):
        return '(CHist %s %s [] [])' % (g_scope(case['scope']), lab)
    try:
        return '(CHist %s %s %s %s)' % (g_scope(case['scope']), lab, g_list(g_op(op) for op in case['ops']),
                                        g_list(g_obs(op, o) for op, o in zip(case['ops'], obs['obs'])))
    except KeyError:      # a name outside the table came back from the implementation
        return 'CCrash'


# ---------------------------------------------------------------------------------------------------------------------
def nontrivial(case, obs):
    s = case['a'] if case['kind'] == 'eqt' else case['scope']
    return s_depth(s) >= 2 and len(s_kinds(s)) >= 2 and not dropped_inexact(case, obs)


def histogram_keys(case, obs):
    if case['kind'] == 'eqt':
        s = case['a']
        keys = ['src:' + case.get('src', '?'), 'depth:%d' % s_depth(s), 'op:eqt']
        keys += ['layer:' + k for k in sorted(s_kinds(s))]
        keys.append('eqt:%s:%s' % (case['variant'], obs['eqt'][0] if 'eqt' in obs else sorted(obs)[0]))
        return sorted(set(keys))
    s = case['scope']
    if case.get('via') == 'op':
        return sorted(set(_histogram_keys(case, obs) + ['built-by:VolatileValue.operation']))
    return _histogram_keys(case, obs)


def _histogram_keys(case, obs):
    s = case['scope']
    keys = ['src:' + case.get('src', '?'), 'depth:%d' % s_depth(s)]
    keys += ['layer:' + k for k in sorted(s_kinds(s))]
    keys += ['op:' + k for k in sorted({op[0] for op in case['ops']})]
    try:
        wf = s_denote(s) is not None
    except OverflowError:
        wf = False
    keys.append('denotes' if wf else 'does-not-denote')
    for ex in s_exprs(s):
        ops_ = e_ops(ex)
        if '/' in ops_:
            keys.append('expr:div')
        if 'div' in ops_:
            keys.append('expr:div-by-expression')
        if ops_ & {'min', 'max'}:
            keys.append('expr:minmax')
        try:
            if canon(ex) != ex:
                keys.append('expr:sympy-cancels-variable')
        except Exception:
            pass
        if len(e_vars(ex)) != len(set(e_vars(ex))):
            keys.append('expr:variable-repeated')
    if dropped_inexact(case, obs):
        keys.append('dropped:inexact-float-division')
    if 'obs' in obs:
        for op, o in zip(case['ops'], obs['obs']):
            if 'err' in o:
                keys.append('err:%s:%s' % (op[0], o['err']))
            if op[0] == 'vol' and o.get('ok'):
                keys.append('vol-nonempty')
            if op[0] == 'volx' and o.get('ok'):
                keys.append('volx-nonempty')
                if any(e[0] != 'v' for e in s_exprs(s)):
                    keys.append('volx-through-mapping')
            if op[0] == 'eq':
                keys.append('eq:%s:%s' % (op[2], o.get('ok', ['?'])[0]))
            if op[0] == 'change' and 'ok' in o and o['ok'][0]:
                keys.append('change:warned')
    else:
        keys.append('obs:' + sorted(obs)[0])
    return sorted(set(keys))


def classify(case, obs):
    return None


def py_spec(case, obs):
    """harness-side part of the specification: inside a history, a twin of the current scope that the generator built to
    be equal (the same JSON / other insertion orders / integral constants given as floats) must be == to it (check_spec
    judges the converse directions: equal => equal hash, equal => the same mapping, names and volatile parameters)"""
    if case['kind'] != 'hist' or 'obs' not in obs:
        return None
    for op, o in zip(case['ops'], obs['obs']):
        if op[0] == 'eq' and len(op) > 2 and op[2] in ('same', 'perm', 'numty') and 'ok' in o and not o['ok'][0]:
            return 'a scope built as a twin of the current scope (variant %s) is not == to it' % op[2]
    return None


def _spec_failing(cases, ctx, tag):
    obs = [run_impl(c) for c in cases]
    terms = [to_coq(c, o) for c, o in zip(cases, obs)]
    wd = os.path.join(ctx['workdir'], tag)
    res = vlib.run_coq_cases(wd, CORR_IMPORTS, [CHECK_SPEC], terms, shard=SHARD)
    vlib.rmtree(wd)
    return [(cases[i], obs[i]) for i in res[CHECK_SPEC]]


def shrink(case, obs, ctx):
    """drop operations / layers while the specification oracle still rejects the implementation's observation"""
    best = (case, obs)
    if case['kind'] == 'eqt':
        return best
    for _round in range(3):
        cands = []
        c = best[0]
        for i in range(len(c['ops'])):
            cands.append(dict(c, ops=c['ops'][:i] + c['ops'][i + 1:]))
        s = c['scope']
        if s['t'] in ('mapped', 'range'):
            inner = s['o'] if s['t'] == 'mapped' else s['i']
            cands.append(dict(c, scope=inner, ops=[op for op in c['ops'] if op[0] != 'eq'], via=None))
        cands = [x for x in cands if x['ops']]
        if not cands:
            break
        bad = _spec_failing(cands, ctx, 'shrink')
        if not bad:
            break
        best = min(bad, key=lambda co: len(vlib.canonical_hash(co[0])) + len(str(co[0])))
    return best


def search_failing(ctx, broken):
    """specification oracle (Coq check_spec) against the implementation on a fresh, larger stream"""
    import random
    rng = random.Random(ctx['seed'] * 7919 + 13)
    cases = gen_cases(rng, 'quick', ctx) + [c for c in exhaustive_small(rng, 0.25) if rng.random() < 0.06]
    bad = _spec_failing(cases, ctx, 'search')
    if bad:
        c, o = bad[0]
        return c, o, 'specification oracle check_spec (denote_scope / depends_on_volatile / rebuild) rejects the ' \
                     'observations of this history'
    return None


MANIFEST = {
    'level_text': 'Proof: an executable Gallina model of DictScope / MappedScope / RangeScope / JointScope with the '
                  'memoisation fields (incl. the cached name -> dependency-expression dict) as explicit state is proved '
                  '(all stacks, all histories, unbounded) to agree on every access path with the independently defined '
                  'denotation, to be insensitive to cache state (also to caches shared between joint-scope entries), to '
                  'report exactly the parameters that depend syntactically on a volatile constant (which covers every '
                  'semantic dependence), to report dependency expressions that evaluate, at the current and at changed '
                  'volatile constants, to the value in the scope rebuilt from those constants, to make change_constants '
                  'equal to rebuilding (also in hash), to have an __eq__ that is an equivalence and implies equal __hash__ '
                  '(for every admissible leaf hash / order-independent frozenset combiner, CPython\'s included), to make '
                  'Scope.overwrite set exactly the given names to non-volatile constants, and - on an explicit heap in '
                  'which joint-scope entries are shared objects with one set of memoisation fields and change_constants / '
                  'overwrite allocate new objects - to answer every history as the cache-free paths do (also from every '
                  'labelling that passes the executable admission test used by the check); a second == that carries the '
                  'number kind of expression constants (sympy-structural Expression equality, scopes of different classes '
                  'unequal) is proved to refine the value-based one strictly, to be an equivalence, to imply equal kind-aware '
                  'hashes, and change_constants '
                  'to yield a scope equal in this sense to the one rebuilt from the changed constants; the scope '
                  'change_constants returns is proved to be the unique solution of a relational specification of "built from '
                  'the changed constants" that shares no definition with the model (round 5), and scopes the modelled / '
                  'kind-aware == calls equal are proved to provide the same names, to report the same volatile parameters '
                  'and to denote the same mapping; the computed denotation is proved (round 6) to be the unique mapping '
                  'with the pointwise property the statement words (mapping expressions valued in the mapping of the OUTER '
                  'scope, innermost definition wins, loop index shadows, joint entries from their sub scope), and lookup / '
                  'membership / dictionary view of the model are stated against that relation; on scopes that do NOT '
                  'denote a whole mapping a lookup is proved to return q iff q is the value of that single name '
                  '(SpecLazy.value_at) and a returned dictionary view to hold such values only; the model is tied '
                  'to the code by an '
                  'exact correspondence check of operation histories on one object graph (tree model, cache-free paths '
                  'and heap model) and of == / != / hash on twin, retyped and cross-class scopes.',
    'level_note': 'Trusted: Coq kernel, sympy evaluation/substitution of + - x / Min Max on small dyadic rationals '
                  '(divisors +-2^k), sympy\'s canonical form of an expression text, frozendict, harness. Dependence is '
                  'syntactic (over-approximation proved); concrete hash values are not modelled (eq => equal hash is proved '
                  'for every admissible leaf hash / frozenset combiner and observed on the code); object identities of '
                  'returned scopes are not observed. The specification oracle check_spec uses Spec.v / SpecChange.v only '
                  '(shared with the model: data types, association-list helpers, expression evaluation and free variables). '
                  'The history / cache / heap theorems are refinement links between operational models; the link to the '
                  'specification is C13_views, C13_volatile, C13_change_meaning, C13_denotation_meaning / C13_lookup_meaning. '
                  'See notes/C13.md, Clause map.',
    'technique': 'Coq proof (induction over the scope stack, cache-refinement invariant on tree and heap, substitution '
                 'lemma, permutation argument for hashes) + '
                 'correspondence check',
    'design_ref': 'DESIGN.md §5 C13',
}
