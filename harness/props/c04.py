"""C04 — durations are exact; the template's duration expression, Loop.duration, to_waveform(...).duration and the sum
over the played pieces agree."""
import copy
import fractions
import math
import os
import warnings

import vlib
from vlib import gZ, gQ

from props import c04_spec

F = fractions.Fraction
PID = 'C04'
COQ_DIRS = ['common', 'C04']
TARGETS = ['C04/Props.vo', 'C04/Corr.vo']
MODEL_TARGETS = ['C04/Corr.vo']
PROPS_FILE = 'C04/Props.v'
PROPS_MODULE = 'QV.C04.Props'
CORR_IMPORTS = ['QV.C04.Model', 'QV.C04.Spec', 'QV.C04.Corr']
CHECK_CORR = 'check_corr'
CHECK_SPEC = 'check_spec'
SHARD = 120
RULE = ('template trees over constant/function/table/point atoms, sequence, repetition, for-loop, mapping, atomic '
        'multi-channel (with/without declared duration), atomic arithmetic, scalar arithmetic, time reversal, parameter '
        'constraints (satisfied / violated / float vs TimeType operands), sub-templates in to_single_waveform; depth <= 3 '
        '(quick) / 4 (thorough).  Streams: "exact" (ints / TimeType from short decimals), "float" (the same decimals as '
        'Python floats), "mixed" (both kinds in one template: tables, parallel parts, constraints, counts, range bounds: '
        'the code compares binary values, converts by shortest decimal).  Harness-only decorations that must not change a '
        'duration: measurement declarations, channel/measurement renaming at the root and in create_program, volatile '
        'repetition counts.  Families: real ForLoopPT over the box start, stop in -4..4, step in +-{1,2,3} (exhaustive in '
        'thorough, literal / parameter / mixed bounds, also rendered as one waveform), parameters of rejected types '
        '(Fraction, mpq), no-accumulation (counts up to 7e9), ParametrizedRange.to_range over the same box.  Counts '
        '0/1/small/1000/1e6, negative, near-integer, non-integer; ranges empty/single/negative step/non-dividing/zero '
        'step; tables with late first entry, unequal channels, decreasing times; parallel parts equal/different/zero/'
        'almost equal; missing parameters.  Round 3 (name-coincidence / aliasing classes): MappingPT parameter mappings '
        'that re-use the names they map (exchange {a: b, b: a}, 3-cycle, chained {a: b+1, b: 2*a}, a name mapped to an '
        'expression of itself {x: 2*x}, {a: a+b}, shadowing {a: b}), nested mappings (flattened by the constructor), the '
        'loop index rebound between ForLoopPT and its body, a loop index named like a parameter used outside the loop; '
        'channel mappings at every MappingPT, at the root and in create_program: renamings that change the sort order, '
        'exchange of two channel names, an additional channel that is dropped, {} vs. not declared; deterministic '
        'families "remap" (9 mappings x weights x values x 6 contexts) and "drop" (tables / point pulses / constants / '
        'parallel compositions with 2-3 channels of different length, every single channel incl. the LONGEST one and '
        'pairs dropped or renamed by MappingPT / root mapping / create_program; atoms with all channels dropped); equal '
        'sub-templates built as ONE Python object (aliasing, 30 %), the same sub-template twice in a sequence.  '
        'Round 4: deterministic families "decimal" (a body rendering to a CONSTANT waveform of decimal duration d, repeated '
        'n times with float(d)*n inexact: 0.1x3, 0.7x3, 1.1x3 ... (12 pairs + 4 exact controls), 10 body shapes, rendered '
        'as one waveform by to_waveform, to_single_waveform and make_compatible (11 configurations, also after cleanup / '
        'flatten_and_balance); d as TimeType / float / numpy.float64, n as int / numpy.int64 / numpy.uint8 / float), "alias" '
        '(the very same template object several times among the direct children of one SequencePT, via the constructor, @, '
        'SequencePT.concatenate, table concatenate, **; the same object inside several enclosing templates; controls with '
        'distinct objects), "capture" (mapped-in expressions / loop ranges that mention a loop index name), "badtable" '
        '(rejected tables); random: numpy scalar parameters, ParallelChannelPT around the root.  '
        'Round 5: every generated input that lies inside the input class of a known finding is emitted a second time as a '
        'correspondence-only twin (CTwin: judged by check_corr alone, the operational model describes the finding exactly), so '
        'a change of behaviour inside such a class is still reported; table `concatenate` is described to Coq as the ONE '
        'table it builds (entry times = sums of expressions).  '
        'Round 6: deterministic family "declared" (AtomicMultiChannelPT with an enforced duration and 0 / 1 / 2 sub waveforms '
        'left: a single part, parts dropped by MappingPT / root mapping / create_program(channel_mapping), a part of duration 0; '
        'declared value equal / larger / smaller / zero / decimal / within isclose; ramp / constant / function / point first '
        'part; alone, SequencePT(RepetitionPT(p, n), p), as one waveform, in a for-loop: 168 cases quick, 1440 thorough).  '
        'Non-trivial = composite template (depth >= 2) or non-empty range.')
TRUSTED = [
    'Coq 8.16.1 kernel + vm_compute (no native_compute)',
    'sympy (Sum/Piecewise/Max/ceiling construction, subs, doit) as the oracle for the exact value of a duration '
    'expression: the model mirrors the written closed forms (Sum = unrolled sum), their evaluation is compared case by case',
    'gmpy2.mpq arithmetic is exact, mpq/float comparisons are exact; TimeType.from_float(x) is the shortest decimal of x (C14)',
    'CPython repr(float) = shortest round-tripping decimal (the binary and the decimal value of every float input are '
    'supplied to the model by the harness)',
    'harness: generators, template construction from the JSON case, Gallina printers, exception -> error class mapping',
]
ASSUMPTIONS = [
    'binary floating-point arithmetic is not modelled: a case in which a float can take part in arithmetic inside a '
    'duration, count or range expression (anywhere in the template, also in a branch that is never evaluated) is out of '
    'the specification\'s scope (Spec.scope_prog / scope_sym: static kind inference, sound for the model: '
    'C04_scope_prog_sound, C04_scope_sym_sound) and is not judged; this includes the sums table `concatenate` writes',
    'rational literals 1/k are generated only for k in {2,4,8} (exact as Python floats) and k in {3,5} (not judged)',
    'isclose() of the implementation (double arithmetic on float(a), float(b)) is modelled with exact rationals; generated '
    'durations stay away from the 1e-9 relative boundary (equal, < 1e-12 apart, or > 1e-4 apart)',
    'duration.evaluate_in_scope (lambdified float evaluation) is judged by the Python-side oracle only',
    'channel names are numbered by the harness in their string sort order (qupulse sorts the parts of a parallel '
    'waveform by channel name); an ArithmeticWaveform / TransformingWaveform is modelled as one entry per channel with '
    'a common duration (equivalent for "duration of the first part" because parallel parts have disjoint channels)',
    'measurements, measurement mappings and volatile counts are exercised but not modelled (the model ignores them)',
    'make_compatible / Loop.cleanup / flatten_and_balance are not in the Coq model: that they leave Loop.duration, the sum of '
    'the pieces and the duration of to_waveform unchanged is judged by the Python-side oracle py_spec_mc on the observation',
    'duration.evaluate_in_scope (py_spec_num) is judged only where the template has a duration (integer counts and range '
    'bounds); the model writes the iteration count of a for-loop in the ceiling form, the code (since 86f615f) in the floor '
    'form: equal on integer ranges (C04_step_count_forms_agree)',
]

TIME_DECIMALS = ['0.1', '0.2', '0.25', '0.5', '1', '1.5', '2', '2.5', '3', '0.125', '10', '0.3', '1.375', '7', '100.001',
                 '0.7', '12.5', '0.001', '0.000001', '123456.789', '4', '6', '0.75', '0.05', '1.1', '2.2', '3.3']
COUNTS = [0, 1, 1, 2, 2, 3, 3, 4, 5, 7, 10, 1000, 1000000]
RANGES = [(0, 3, 1), (0, 0, 1), (2, 2, 1), (0, 1, 1), (5, 0, -1), (5, 0, -2), (0, 5, 2), (0, 7, 3), (1, 2, 5), (3, 1, 1),
          (1, 3, -1), (4, -1, -3), (0, 6, 3), (0, 4, 1), (6, 0, -3), (10, 0, -4), (1, 6, 2), (7, 1, -2), (2, 9, 7),
          (0, 2, 1), (3, 0, -1), (1, 4, 1), (2, 8, 3), (8, 2, -3), (0, 1, 3), (1, 0, -3)]


# ---------------------------------------------------------------------------------------------------------------------
# generator

def lit(n):
    return {'lit': int(n)}


def var(x):
    return {'var': x}


def op(o, a, b):
    return {'op': o, 'a': a, 'b': b}


class Gen:
    def __init__(self, rng, style, tier):
        self.rng = rng
        self.style = style            # 'exact' | 'float'
        self.tier = tier
        self.params = {}              # name -> {'ty','v'}
        self.vals = {}                # name -> Fraction (decimal value), also for mapped names / loop indices (None)
        self.n_fresh = 0
        self.budget = 40              # bound on the number of template nodes

    # ---- parameters
    def fresh(self, prefix):
        """names that cannot collide with sympy / builtin identifiers (e.g. `rf`, `id`, `re`)"""
        self.n_fresh += 1
        return '%s_%d' % (prefix, self.n_fresh)

    def typed(self, q, kind):
        """a parameter record for the rational q in the current style"""
        q = F(q)
        if kind == 'int' or (q.denominator == 1 and self.rng.random() < 0.5):
            if q.denominator == 1:
                return {'ty': 'npint' if self.rng.random() < 0.1 else 'int', 'v': str(int(q))}
        if self.style == 'float' or (self.style == 'mixed' and self.rng.random() < 0.5):
            return {'ty': 'npfloat' if self.rng.random() < 0.1 else 'float', 'v': float(q).hex()}
        return {'ty': 'time', 'v': str(q)}

    def new_param(self, prefix, q, kind='time'):
        name = self.fresh(prefix)
        rec = self.typed(q, kind)
        self.params[name] = rec
        self.vals[name] = c04_spec.param_value(rec)[1]
        return name

    def time_param(self, scope):
        cands = [x for x in scope['times']]
        if cands and self.rng.random() < 0.6:
            return self.rng.choice(cands)
        name = self.new_param('t', F(self.rng.choice(TIME_DECIMALS)))
        scope['times'].append(name)
        return name

    def count_expr(self, scope):
        r = self.rng.random()
        n = self.rng.choice(COUNTS)
        if r < 0.25:
            return lit(n)
        if r < 0.33 and scope['idx']:
            return var(self.rng.choice(scope['idx']))
        if r < 0.38:      # anomalies: negative, near-integer, non-integer
            q = self.rng.choice([F(-1), F(-3), F('2.0000001'), F('2.5'), F('2.9999999'), F('0.0000001')])
            return var(self.new_param('n', q, 'int' if q.denominator == 1 else 'time'))
        name = self.new_param('n', F(n), 'int' if self.rng.random() < 0.7 else 'time')
        if self.rng.random() < 0.15:
            return op('add', var(name), lit(1))
        return var(name)

    def range_exprs(self, scope):
        a, b, s = self.rng.choice(RANGES)
        if self.rng.random() < 0.25:
            a, b = self.rng.randint(-3, 6), self.rng.randint(-3, 6)
            s = self.rng.choice([1, 1, 2, 3, -1, -2, -3])
        r = self.rng.random()
        if r < 0.03:
            s = 0
        out = []
        for v in (a, b, s):
            r = self.rng.random()
            if r < 0.5:
                out.append(lit(v))
            elif r < 0.53:
                q = F(v) + self.rng.choice([F('0.5'), F('0.0000001'), F('-0.0000001')])
                out.append(var(self.new_param('r', q, 'time')))
            else:
                out.append(var(self.new_param('r', F(v), 'int' if self.rng.random() < 0.75 else 'time')))
        return out

    def time_expr(self, scope, force=None):
        """a leaf duration / mapped time expression; force = ('time'|'count', name) must occur in it"""
        rng = self.rng
        if force is not None:
            kind, x = force
            r = rng.random()
            if kind == 'time':
                if r < 0.5:
                    return var(x)
                if r < 0.7:
                    return op('mul', var(x), lit(rng.choice([2, 3, 10])))
                if r < 0.85:
                    return op('add', var(x), var(self.time_param(scope)))
                return {'op': 'divk', 'a': var(x), 'k': rng.choice([2, 4, 8, 3])}
            if r < 0.45:
                return op('mul', var(self.time_param(scope)), var(x))
            if r < 0.75:
                return var(x)
            return op('add', var(self.time_param(scope)), op('mul', var(x), var(self.time_param(scope))))
        r = rng.random()
        simple = 0.85 if self.style == 'float' else 0.45
        if r < simple:
            r2 = rng.random()
            if r2 < 0.25:
                return lit(rng.choice([0, 1, 2, 3, 5, 8, 20]))
            if r2 < 0.37:
                return {'flit': rng.choice(['0.1', '0.25', '2.5', '0.3', '1.5', '0.001'])}
            return var(self.time_param(scope))
        a = var(self.time_param(scope))
        r2 = rng.random()
        if r2 < 0.25:
            return op('mul', a, lit(rng.choice([2, 3, 7, 10, 100])))
        if r2 < 0.5:
            return op('add', a, var(self.time_param(scope)))
        if r2 < 0.6:
            return op('add', a, lit(rng.choice([1, 2])))
        if r2 < 0.7:
            return op('max', a, var(self.time_param(scope)))
        if r2 < 0.78:
            return op('sub', a, var(self.time_param(scope)))
        if r2 < 0.9:
            return {'op': 'divk', 'a': a, 'k': rng.choice([2, 4, 8, 2, 4, 3, 5])}
        if scope['idx']:
            return op('mul', a, var(rng.choice(scope['idx'])))
        return op('mul', a, lit(2))

    # ---- atoms
    def volts(self, chans):
        return {self.ch(c): self.rng.choice([0, 1, 1, 2, -1]) for c in chans}

    @staticmethod
    def ch(i):
        """channel name of the channel number i; i // 100 selects an alias prefix (names sort as a < c < k < z)"""
        return '%s%02d' % ('ckaz'[i // 100], i % 100)

    def known(self, e):
        """decimal value of an expression if all its variables have known values"""
        try:
            env = {k: ('time', v) for k, v in self.vals.items() if v is not None}
            return c04_spec.Walker().ev(e, env)[1]
        except c04_spec.Undefined:
            return None

    def atom(self, scope, chans, force=None, dur=None):
        rng = self.rng
        r = rng.random()
        d = dur if dur is not None else self.time_expr(scope, force)
        if (r < 0.22 and force is None) and dur is None:
            return self.table(scope, chans)
        if r < 0.35 and len(chans) == 1:
            return {'t': 'func', 'd': d, 'ch': [self.ch(chans[0])], 'expr': rng.choice(['1', 't*0.5', '2'])}
        if r < 0.45:
            # point pulse whose last time is d
            times = [d]
            if rng.random() < 0.6:
                times = [lit(0)] + times
            return {'t': 'point', 'times': times, 'ch': [self.ch(c) for c in chans],
                    'v': [rng.choice([0, 1, 2]) for _ in times]}
        return {'t': 'const', 'd': d, 'v': self.volts(chans)}

    def table(self, scope, chans, last=None):
        """table over the given channels; entry times are literals / parameters in (mostly) non-decreasing order"""
        rng = self.rng
        out = {}
        for c in chans:
            n = rng.choice([1, 2, 2, 3])
            cands = []
            for _ in range(n):
                if rng.random() < 0.4:
                    cands.append(lit(rng.choice([0, 1, 2, 3, 5])))
                else:
                    cands.append(var(self.time_param(scope)))
            keyed = [(self.known(e), i, e) for i, e in enumerate(cands)]
            if all(k[0] is not None for k in keyed) and rng.random() < 0.93:
                keyed.sort(key=lambda k: (k[0], k[1]))
            ts = [k[2] for k in keyed]
            if rng.random() < 0.5:
                ts = [lit(0)] + ts
            # the constructor rejects literal times that decrease: keep literals ordered
            lits = sorted(e['lit'] for e in ts if 'lit' in e)
            it = iter(lits)
            ts = [lit(next(it)) if 'lit' in e else e for e in ts]
            if last is not None:
                ts = [e for e in ts if 'lit' in e and e['lit'] == 0][:1] + [last]
            out[self.ch(c)] = {'ts': ts, 'v': [rng.choice([0, 1, 2]) for _ in ts],
                               'interp': [rng.choice(['hold', 'linear', 'jump']) for _ in ts]}
        return {'t': 'table', 'chans': {c: o['ts'] for c, o in out.items()},
                'v': {c: o['v'] for c, o in out.items()}, 'interp': {c: o['interp'] for c, o in out.items()}}

    def atomic(self, scope, chans, depth, dur=None, force=None):
        """an atomic template (may be nested multi / arith / map / wrap); dur = common duration expression"""
        rng = self.rng
        self.budget -= 1
        r = rng.random()
        if depth <= 0 or self.budget <= 0 or r < 0.45:
            if dur is not None and rng.random() < 0.2 and force is None:
                return self.table(scope, chans, last=dur)
            return self.atom(scope, chans, force=force, dur=dur)
        if r < 0.65 and len(chans) >= 2:
            return self.multi(scope, chans, depth - 1, dur=dur, force=force)
        if r < 0.8:
            d = dur if dur is not None else self.time_expr(scope, force)
            lhs = self.atomic(scope, chans, depth - 1, dur=copy.deepcopy(d))
            rhs = self.atomic(scope, chans, depth - 1, dur=self.vary(d, scope))
            return {'t': 'arith', 'lhs': lhs, 'rhs': rhs, 'op': rng.choice(['+', '-'])}
        if r < 0.9:
            return {'t': 'wrap', 'body': self.atomic(scope, chans, depth - 1, dur=dur, force=force)}
        return self.mapped(scope, chans, depth - 1, atomic=True, dur=dur, force=force)

    def vary(self, d, scope):
        """mostly the same duration expression; sometimes zero, different, or almost equal"""
        r = self.rng.random()
        if r < 0.8:
            return copy.deepcopy(d)
        if r < 0.87:
            return lit(0)
        if r < 0.93:
            return op('add', copy.deepcopy(d), lit(1))
        k = self.known(d)
        if k is not None and k > 1000:
            return var(self.new_param('t', k + F(1, 10 ** 7), 'time'))
        return var(self.new_param('t', F('1000000.000001'), 'time'))

    def multi(self, scope, chans, depth, dur=None, force=None):
        rng = self.rng
        cut = rng.randint(1, len(chans) - 1)
        parts = [chans[:cut], chans[cut:]]
        if len(parts[1]) >= 2 and rng.random() < 0.4:
            c2 = rng.randint(1, len(parts[1]) - 1)
            parts = [parts[0], parts[1][:c2], parts[1][c2:]]
        rng.shuffle(parts)
        d = dur if dur is not None else self.time_expr(scope, force)
        big = self.known(d)
        if rng.random() < 0.08 and dur is None and force is None:
            # large, almost equal durations
            d = var(self.new_param('t', F(1000000), 'time'))
        subs = []
        for i, p in enumerate(parts):
            di = copy.deepcopy(d) if i == 0 else self.vary(d, scope)
            subs.append(self.atomic(scope, p, depth - 1, dur=di))
        decl = None
        if rng.random() < 0.35:
            decl = self.vary(d, scope)
            if decl == lit(0):
                decl = copy.deepcopy(d)
        return {'t': 'multi', 'subs': subs, 'declared': decl}

    def inner_channels(self, chans):
        """-> (channels of the body, channel mapping of the MappingPT or None): renamings that change the sort order,
        exchanges of two names, an additional channel that is dropped"""
        rng = self.rng
        r = rng.random()
        if r < 0.45:
            return list(chans), (None if rng.random() < 0.7 else {})
        inner = list(chans)
        if r < 0.6 and len(chans) >= 2:            # exchange two names
            i, j = rng.sample(range(len(chans)), 2)
            inner[i], inner[j] = inner[j], inner[i]
        else:
            inner = [c if rng.random() < 0.3 else c % 100 + 100 * rng.choice([0, 1, 2, 3]) for c in chans]
            if len(set(inner)) < len(inner):
                inner = list(chans)
        cm = {self.ch(i): self.ch(o) for i, o in zip(inner, chans) if i != o or rng.random() < 0.3}
        if rng.random() < 0.45:                    # one more channel inside, dropped by the mapping
            extra = rng.choice([x for x in (7, 107, 207, 307, 5, 205) if x not in inner and x not in chans])
            inner.insert(rng.randrange(len(inner) + 1), extra)
            cm[self.ch(extra)] = None
        return inner, cm

    def remapped(self, scope, chans, depth, atomic, dur=None, force=None):
        """MappingPT whose parameter mapping re-uses the names of the parameters it maps (the right hand sides are
        read in the outer scope): exchange of two names, cyclic permutation, chained re-use, a name mapped to an
        expression of itself; the body is generated with the values the names have INSIDE"""
        rng = self.rng
        names = list(scope['times'])
        while len(names) < 3:
            x = self.new_param('t', F(rng.choice(TIME_DECIMALS)))
            scope['times'].append(x)
            names.append(x)
        shape = rng.choice(['swap', 'swap', 'cycle', 'chain', 'self', 'self_other', 'shadow'])
        a, b, c = rng.sample(names, 3)
        if shape == 'swap':
            m = {a: var(b), b: var(a)}
        elif shape == 'cycle':
            m = {a: var(b), b: var(c), c: var(a)}
        elif shape == 'chain':
            m = {a: op('add', var(b), lit(1)), b: op('mul', var(a), lit(2))}
        elif shape == 'self':
            m = {a: op('mul', var(a), lit(rng.choice([2, 3])))}
        elif shape == 'self_other':
            m = {a: op('add', var(a), var(b)), b: var(b)}
        else:                                       # one name takes the value of another one, which stays visible
            m = {a: var(b)}
        if dur is not None and atomic:
            # the body must last `dur` (seen from outside): map a fresh inner name to it as well
            x = self.fresh('m')
            m[x] = dur
        outer_vals = dict(self.vals)
        inner_vals = {k: self.known(e) for k, e in m.items()}
        self.vals.update(inner_vals)
        inner_scope = {'times': list(scope['times']) + ([x] if dur is not None and atomic else []), 'idx': list(scope['idx'])}
        ich, cm = self.inner_channels(chans)
        try:
            if atomic:
                body = self.atomic(inner_scope, ich, depth, dur=var(x) if dur is not None else None, force=force)
            else:
                # make sure the exchanged names occur with different weights
                first = {'t': 'seq', 'subs': [
                    {'t': 'const', 'd': var(a), 'v': self.volts(ich)},
                    {'t': 'rep', 'count': lit(rng.choice([2, 3])), 'body': {'t': 'const', 'd': var(b), 'v': self.volts(ich)}}]}
                body = {'t': 'seq', 'subs': [first, self.tree(inner_scope, ich, depth, force=force)]}
        finally:
            for k in inner_vals:
                if k in outer_vals:
                    self.vals[k] = outer_vals[k]
        used = free_params(body)
        m = {k: e for k, e in m.items() if k in used}       # MappingPT rejects mappings of names the body does not have
        out = {'t': 'map', 'm': m, 'body': body}
        if cm is not None:
            out['cm'] = cm
        return out

    def mapped(self, scope, chans, depth, atomic, dur=None, force=None):
        rng = self.rng
        if rng.random() < 0.4:
            return self.remapped(scope, chans, depth, atomic, dur=dur, force=force)
        kind = rng.choice(['time', 'time', 'count'])
        if atomic or dur is not None:
            kind = 'time'
        x = self.fresh('m')
        if kind == 'time':
            e = dur if dur is not None else self.time_expr(scope, force)
        else:
            e = self.count_expr(scope) if force is None else var(force[1])
            if 'lit' in e:
                e = op('add', var(self.new_param('n', F(e['lit']), 'int')), lit(0)) if rng.random() < 0.3 else e
        self.vals[x] = self.known(e)
        inner_scope = {'times': list(scope['times']) + ([x] if kind == 'time' else []), 'idx': list(scope['idx'])}
        ich, cm = self.inner_channels(chans)
        if atomic:
            body = self.atomic(inner_scope, ich, depth, dur=var(x))
        else:
            body = self.tree(inner_scope, ich, depth, force=(kind, x))
        # (an inner mapping may re-bind x without using it: MappingPT rejects mappings of names the body does not have)
        out = {'t': 'map', 'm': {x: e} if x in free_params(body) else {}, 'body': body}
        if cm is not None:
            out['cm'] = cm
        return out

    # ---- composite
    def meas(self, scope):
        """measurement declarations (name, begin, length): durations must not depend on them"""
        rng = self.rng
        out = []
        for _ in range(rng.choice([1, 1, 2])):
            ln = rng.choice([1, 2, 'p'])
            if ln == 'p':
                ln = expr_str(var(self.time_param(scope)))
            out.append([rng.choice(['m', 'n']), rng.choice([0, 0, 1]), ln])
        return out

    def constraint(self, scope):
        """[lhs, rhs] of a constraint lhs <= rhs; mostly satisfied; operands may be a float and a TimeType of the same
        decimal (the binary reading decides)"""
        rng = self.rng
        r = rng.random()
        if r < 0.3 and scope['idx']:
            return [var(rng.choice(scope['idx'])), lit(rng.choice([2, 5, 100]))]
        if r < 0.55:
            a = var(self.time_param(scope))
            return [a, op('add', copy.deepcopy(a), lit(rng.choice([0, 1])))]
        if r < 0.75:
            return [lit(0), var(self.time_param(scope))]
        if r < 0.9:
            d = F(rng.choice(['0.1', '0.3', '0.7', '0.2', '1.1', '0.25']))
            tys = rng.choice([('time', 'float'), ('float', 'time'), ('float', 'float'), ('time', 'time')])
            names = []
            for ty in tys:
                name = self.fresh('t')
                self.params[name] = {'ty': 'float', 'v': float(d).hex()} if ty == 'float' else {'ty': 'time', 'v': str(d)}
                self.vals[name] = d
                names.append(var(name))
            return names
        return [var(self.time_param(scope)), var(self.time_param(scope))]

    def tree(self, scope, chans, depth, force=None):
        t = self.tree0(scope, chans, depth, force)
        rng = self.rng
        r = rng.random()
        if t['t'] in ('seq', 'rep', 'for', 'const', 'func', 'multi') and r < 0.12:
            t['meas'] = self.meas(scope)
        r = rng.random()
        if r < 0.07:
            t = {'t': 'constr', 'cs': [self.constraint(scope) for _ in range(rng.choice([1, 1, 2]))], 'body': t}
        elif r < 0.14:
            t = {'t': 'single', 'body': t}
        return t

    def tree0(self, scope, chans, depth, force=None):
        rng = self.rng
        self.budget -= 1
        r = rng.random()
        if depth <= 0 or self.budget <= 0 or r < 0.2:
            if force is not None and force[0] == 'count' and rng.random() < 0.4:
                return {'t': 'rep', 'count': var(force[1]), 'body': self.atomic(scope, chans, 1)}
            return self.atomic(scope, chans, min(depth, 2), force=force)
        if r < 0.4:
            n = rng.choice([1, 2, 2, 3])
            k = rng.randrange(n)
            subs = [self.tree(scope, chans, depth - 1, force=force if i == k else None) for i in range(n)]
            if rng.random() < 0.15:          # the same sub-template twice (one object when the case is built with aliasing)
                subs.insert(rng.randrange(len(subs) + 1), copy.deepcopy(rng.choice(subs)))
            return {'t': 'seq', 'subs': subs}
        if r < 0.58:
            if force is not None and force[0] == 'count' and rng.random() < 0.5:
                return {'t': 'rep', 'count': var(force[1]), 'body': self.tree(scope, chans, depth - 1)}
            return {'t': 'rep', 'count': self.count_expr(scope), 'body': self.tree(scope, chans, depth - 1, force=force)}
        if r < 0.76:
            idx = self.fresh('i')
            a, b, s = self.range_exprs(scope)
            self.vals[idx] = None
            inner = {'times': list(scope['times']), 'idx': list(scope['idx']) + [idx]}
            if force is not None:
                body = {'t': 'seq', 'subs': [self.tree(inner, chans, depth - 1, force=('count', idx)),
                                             self.tree(inner, chans, depth - 1, force=force)]}
            else:
                body = self.tree(inner, chans, depth - 1, force=('count', idx))
            r2 = rng.random()
            if r2 < 0.2 and idx in free_params(body):
                # the loop index is rebound between the loop and its body (to an expression of itself)
                e = rng.choice([op('add', var(idx), lit(1)), op('mul', var(idx), lit(2)), op('sub', lit(6), var(idx))])
                body = {'t': 'map', 'm': {idx: e}, 'body': body}
            elif r2 < 0.3 and scope['times']:
                # a parameter that is also used outside of the loop carries the name of the loop index
                other = rng.choice(scope['times'])
                renamed = rename_var(copy.deepcopy(body), idx, other)
                if other in free_params(renamed):     # (else a mapping inside rebinds that name: LoopIndexNotUsedException)
                    body, idx = renamed, other
            return {'t': 'for', 'idx': idx, 'start': a, 'stop': b, 'step': s, 'body': body}
        if r < 0.86:
            return self.mapped(scope, chans, depth - 1, atomic=False, force=force)
        if r < 0.93:
            return {'t': 'rev', 'body': self.tree(scope, chans, depth - 1, force=force)}
        return {'t': 'wrap', 'body': self.tree(scope, chans, depth - 1, force=force)}


def rename_var(t, old, new):
    """the JSON tree with the name `old` replaced by `new` in every expression and binder"""
    if isinstance(t, dict):
        if set(t) == {'var'}:
            return {'var': new if t['var'] == old else t['var']}
        out = {}
        for k, v in t.items():
            if k == 'm':
                out[k] = {(new if x == old else x): rename_var(e, old, new) for x, e in v.items()}
            elif k == 'idx':
                out[k] = new if v == old else v
            elif k == 'meas':
                out[k] = [[(new if x == old else x) for x in m] for m in v]
            else:
                out[k] = rename_var(v, old, new)
        return out
    if isinstance(t, list):
        return [rename_var(x, old, new) for x in t]
    return t


def gen_template_case(rng, tier, style, depth):
    g = Gen(rng, style, tier)
    nch = rng.choice([1, 1, 2, 2, 3])
    tpl = g.tree({'times': [], 'idx': []}, list(range(nch)), depth)
    case = {'kind': 'tpl', 'style': style, 'tpl': tpl, 'params': g.params}
    if rng.random() < 0.3 and 'single' not in kinds_of(tpl, set()):
        case['alias'] = True            # equal sub-templates are one Python object
    decorate(case, rng)
    if rng.random() < 0.04 and g.params:
        used = sorted(free_params(tpl))
        if used:
            case['params'] = {k: v for k, v in g.params.items() if k != rng.choice(used)}
    return case


def decorate(case, rng):
    """harness-only extras that must not change any duration: channel / measurement renaming at the root and in
    create_program, volatile repetition counts"""
    tpl = case['tpl']
    if rng.random() < 0.2:
        chans = sorted(channels_of(tpl))
        case['rootmap'] = {c: 'r' + c for c in chans}
        if len(chans) >= 2 and rng.random() < 0.3:
            case['rootmap'][rng.choice(chans)] = None
        if rng.random() < 0.5:
            kept = [c for c in chans if case['rootmap'][c] is not None]
            case['cpmap'] = {'r' + c: rng.choice(['z', 'a']) + c for c in kept}
            if len(kept) >= 2 and rng.random() < 0.3:
                case['cpmap']['r' + rng.choice(kept)] = None
    elif rng.random() < 0.1:
        chans = sorted(channels_of(tpl))
        if len(chans) >= 2:
            case['cpmap'] = {rng.choice(chans): None}
        case['measmap'] = rng.choice([{'m': 'mm'}, {'m': None}, {'n': 'm2', 'm': 'm1'}])
    if rng.random() < 0.25:
        case['mc'] = [rng.choice(MC_CONFIGS), rng.choice(MC_CONFIGS)]
    if rng.random() < 0.08:
        case['parch'] = True
    if rng.random() < 0.25 and 'single' not in kinds_of(tpl, set()):
        cnt, other = set(), set()
        uses(tpl, cnt, other)
        vol = sorted(x for x in cnt - other if case['params'].get(x, {}).get('ty') == 'int')
        if vol:
            case['volatile'] = vol


def uses(t, cnt, other):
    """names used as a bare repetition count / anywhere else"""
    def ev(e, acc):
        if e is None:
            return
        if 'var' in e:
            acc.add(e['var'])
        for key in ('a', 'b'):
            if key in e:
                ev(e[key], acc)
    for key in ('d', 'start', 'stop', 'step', 'declared'):
        if t.get(key) is not None:
            ev(t[key], other)
    if 'count' in t:
        if set(t['count']) == {'var'}:
            cnt.add(t['count']['var'])
        else:
            ev(t['count'], other)
    if t['t'] == 'table':
        for ts in t['chans'].values():
            for e in ts:
                ev(e, other)
    if t['t'] == 'point':
        for e in t['times']:
            ev(e, other)
    if t['t'] == 'map':
        for e in t['m'].values():
            ev(e, other)
    for lr in t.get('cs', []):
        ev(lr[0], other)
        ev(lr[1], other)
    for m in t.get('meas', []):
        for x in m[1:]:
            if isinstance(x, str):
                other.add(x)
    for c in t.get('subs', []):
        uses(c, cnt, other)
    for key in ('body', 'lhs', 'rhs'):
        if key in t:
            uses(t[key], cnt, other)


def free_params(t, bound=frozenset()):
    """names the template needs from outside"""
    def ev(e):
        if e is None or 'lit' in e or 'flit' in e:
            return set()
        if 'var' in e:
            return set() if e['var'] in bound else {e['var']}
        return ev(e['a']) | (ev(e['b']) if 'b' in e else set())
    k = t['t']
    if k in ('const', 'func'):
        return ev(t['d'])
    if k == 'table':
        return set().union(*[ev(e) for ts in t['chans'].values() for e in ts])
    if k == 'point':
        return set().union(*[ev(e) for e in t['times']])
    if k == 'seq':
        return set().union(*[free_params(c, bound) for c in t['subs']])
    if k == 'rep':
        return ev(t['count']) | free_params(t['body'], bound)
    if k == 'for':
        return ev(t['start']) | ev(t['stop']) | ev(t['step']) | free_params(t['body'], bound | {t['idx']})
    if k == 'map':
        return set().union(*[ev(e) for e in t['m'].values()]) | free_params(t['body'], bound | set(t['m']))
    if k == 'multi':
        return ev(t.get('declared')) | set().union(*[free_params(c, bound) for c in t['subs']])
    if k == 'arith':
        return free_params(t['lhs'], bound) | free_params(t['rhs'], bound)
    if k == 'constr':
        return set().union(*[ev(l) | ev(r) for l, r in t['cs']]) | free_params(t['body'], bound)
    return free_params(t['body'], bound)


def depth_of(t):
    k = t['t']
    if k in ('const', 'func', 'table', 'point'):
        return 1
    if k in ('seq', 'multi'):
        return 1 + max(depth_of(c) for c in t['subs'])
    if k == 'arith':
        return 1 + max(depth_of(t['lhs']), depth_of(t['rhs']))
    return 1 + depth_of(t['body'])


def kinds_of(t, acc):
    acc.add(t['t'])
    for c in t.get('subs', []):
        kinds_of(c, acc)
    for key in ('body', 'lhs', 'rhs'):
        if key in t:
            kinds_of(t[key], acc)
    return acc


def tparam(d, ty):
    d = F(d)
    if ty == 'float':
        return {'ty': 'float', 'v': float(d).hex()}
    if ty == 'npfloat':
        return {'ty': 'npfloat', 'v': float(d).hex()}
    if ty in ('int', 'npint', 'npuint'):
        return {'ty': ty, 'v': str(int(d))}
    return {'ty': ty, 'v': str(d)}


def gen_for_case(a, b, s, variant):
    """a real ForLoopPT over range(a, b, s); body ConstantPT of duration (i + 6) * t (never negative for |i| <= 5)"""
    params = {'t_1': tparam('0.1', 'time')}
    dur = op('mul', op('add', var('i_1'), lit(6)), var('t_1'))
    body = {'t': 'const', 'd': dur, 'v': {'c00': 1}}
    if variant % 4 == 1:
        body = {'t': 'seq', 'subs': [body, {'t': 'rep', 'count': op('add', var('i_1'), lit(5)),
                                            'body': {'t': 'const', 'd': var('t_1'), 'v': {'c00': 2}}}]}
    if variant % 2 == 0:
        bounds = [lit(a), lit(b), lit(s)]
    elif variant % 3 == 1:
        params.update({'r_a': tparam(a, 'int' if variant % 4 == 1 else 'time')})
        bounds = [var('r_a'), lit(b), lit(s)]        # sympy distributes (b - r_a)/s: rational coefficients
    else:
        params.update({'r_a': tparam(a, 'int'), 'r_b': tparam(b, 'int' if variant % 3 else 'time'), 'r_s': tparam(s, 'int')})
        bounds = [var('r_a'), var('r_b'), var('r_s')]
    tpl = {'t': 'for', 'idx': 'i_1', 'start': bounds[0], 'stop': bounds[1], 'step': bounds[2], 'body': body}
    if variant % 5 == 3:
        tpl = {'t': 'single', 'body': tpl}
    if variant % 7 == 4:
        tpl = {'t': 'seq', 'subs': [tpl, {'t': 'const', 'd': var('t_1'), 'v': {'c00': 0}}], 'meas': [['m', 0, 1]]}
    return {'kind': 'tpl', 'style': 'exact', 'tpl': tpl, 'params': params, 'family': 'for_box'}


def gen_mixed_case(rng):
    """the same decimal once as a float and once as a TimeType at the places where the code compares raw values"""
    d = rng.choice(['0.1', '0.3', '0.7', '0.2', '1.1', '2.2', '0.25', '3'])
    tys = rng.choice([('time', 'float'), ('float', 'time'), ('float', 'float'), ('time', 'time')])
    params = {'t_1': tparam(d, tys[0]), 't_2': tparam(d, tys[1])}
    shape = rng.randrange(7)
    c0 = lambda e: {'t': 'const', 'd': e, 'v': {'c00': 1}}
    if shape == 0:      # entry times of one table channel
        tpl = {'t': 'table', 'chans': {'c00': [var('t_1'), var('t_2')]}, 'v': {'c00': [0, 1]}, 'interp': {'c00': ['hold', 'linear']}}
    elif shape == 1:    # last entries of two channels (max, padding)
        tpl = {'t': 'table', 'chans': {'c00': [var('t_1')], 'c01': [lit(0), var('t_2')]}, 'v': {'c00': [1], 'c01': [0, 1]},
               'interp': {'c00': ['hold'], 'c01': ['hold', 'hold']}}
    elif shape == 2:    # parallel parts
        tpl = {'t': 'multi', 'subs': [c0(var('t_1')), {'t': 'const', 'd': var('t_2'), 'v': {'c01': 1}}],
               'declared': rng.choice([None, var('t_2'), var('t_1')])}
    elif shape == 3:    # constraint
        tpl = {'t': 'constr', 'cs': [[var('t_1'), var('t_2')]], 'body': {'t': 'seq', 'subs': [c0(var('t_1')), c0(var('t_2'))]}}
    elif shape == 4:    # float repetition count / range bounds
        params['n_1'] = tparam(rng.choice(['3', '0', '2']), 'float')
        tpl = {'t': 'rep', 'count': var('n_1'), 'body': {'t': 'seq', 'subs': [c0(var('t_1')), c0(var('t_2'))]}}
    elif shape == 5:
        params.update({'r_a': tparam('0', 'float'), 'r_b': tparam(rng.choice(['3', '4']), 'float'), 'r_s': tparam('2', 'float')})
        tpl = {'t': 'for', 'idx': 'i_1', 'start': var('r_a'), 'stop': var('r_b'), 'step': var('r_s'),
               'body': {'t': 'seq', 'subs': [c0(var('t_1')), {'t': 'rep', 'count': var('i_1'), 'body': c0(var('t_2'))}]}}
    else:               # atomic arithmetic of a float and a TimeType duration
        tpl = {'t': 'arith', 'lhs': c0(var('t_1')), 'rhs': c0(var('t_2')), 'op': '+'}
    if rng.random() < 0.3:
        tpl = {'t': 'rep', 'count': lit(1000), 'body': tpl}
    return {'kind': 'tpl', 'style': 'mixed', 'tpl': tpl, 'params': params, 'family': 'mixed'}


def gen_frac_case(rng):
    """a parameter of a type evaluate_numeric rejects (fractions.Fraction, gmpy2.mpq), used bare or with int literals"""
    ty = rng.choice(['frac', 'mpq'])
    shape = rng.randrange(4)
    params = {'t_1': tparam(rng.choice(['0.1', '1.5', '2']), ty), 'n_1': tparam('3', 'int'), 't_2': tparam('0.5', 'time')}
    e = rng.choice([var('t_1'), op('mul', var('t_1'), lit(2)), op('add', var('t_1'), lit(1))])
    c0 = {'t': 'const', 'd': e, 'v': {'c00': 1}}
    if shape == 0:
        tpl = {'t': 'rep', 'count': var('n_1'), 'body': c0}
    elif shape == 1:
        params['n_1'] = tparam('3', ty)
        params['t_1'] = tparam('0.1', 'time')
        tpl = {'t': 'rep', 'count': var('n_1'), 'body': {'t': 'const', 'd': var('t_1'), 'v': {'c00': 1}}}
    elif shape == 2:
        tpl = {'t': 'seq', 'subs': [{'t': 'const', 'd': var('t_2'), 'v': {'c00': 1}}, c0]}
    else:           # the rejected parameter is given but not used
        tpl = {'t': 'rep', 'count': var('n_1'), 'body': {'t': 'const', 'd': var('t_2'), 'v': {'c00': 1}}}
    return {'kind': 'tpl', 'style': 'exact', 'tpl': tpl, 'params': params, 'family': 'frac'}


def gen_remap_cases(tier):
    """deterministic: parameter mappings that re-use the names they map.  Inner template: a + w*b (+ c) with weight w;
    mappings: exchange, 3-cycle, chained, name mapped to an expression of itself, nested mappings (flattened by the
    MappingPT constructor), each also under a repetition / for-loop / as one waveform"""
    cases = []
    c0 = lambda e, v=1: {'t': 'const', 'd': e, 'v': {'c00': v}}
    vals = [('3', '5', '7'), ('0.1', '0.3', '2'), ('1.5', '1.5', '4')]
    maps = [
        {'a': var('b'), 'b': var('a')},
        {'a': var('b'), 'b': var('c'), 'c': var('a')},
        {'a': op('add', var('b'), lit(1)), 'b': op('mul', var('a'), lit(2))},
        {'a': op('add', var('b'), lit(1)), 'b': {'op': 'divk', 'a': var('a'), 'k': 2}},
        {'a': op('mul', var('a'), lit(2))},
        {'a': op('add', var('a'), var('b'))},
        {'b': var('a')},
        {'a': var('b'), 'b': var('b')},
        {'a': var('c'), 'c': op('add', var('a'), var('b'))},
    ]
    k = 0
    for va, vb, vc in vals if tier == 'thorough' else vals[:2]:
        for w in (2, 3):
            inner = {'t': 'seq', 'subs': [c0(var('a')), {'t': 'rep', 'count': lit(w), 'body': c0(var('b'), 2)}, c0(var('c'), 0)]}
            for m in maps:
                for style in ('time', 'float') if tier == 'thorough' else ('time',):
                    k += 1
                    params = {'a': tparam(va, style), 'b': tparam(vb, style), 'c': tparam(vc, 'time')}
                    tpl = {'t': 'map', 'm': copy.deepcopy(m), 'body': copy.deepcopy(inner)}
                    shape = k % 6
                    if shape == 1:
                        tpl = {'t': 'rep', 'count': var('n_1'), 'body': tpl}
                        params['n_1'] = tparam('3', 'int')
                    elif shape == 2:      # a second mapping around the first one (the constructor flattens them)
                        fp = free_params(tpl)
                        tpl = {'t': 'map', 'm': {x: e for x, e in (('a', var('b')), ('b', var('a'))) if x in fp}, 'body': tpl}
                    elif shape == 3:
                        tpl = {'t': 'for', 'idx': 'i_1', 'start': lit(0), 'stop': lit(3), 'step': lit(1),
                               'body': {'t': 'seq', 'subs': [tpl, {'t': 'rep', 'count': var('i_1'), 'body': c0(var('a'))}]}}
                    elif shape == 4:
                        tpl = {'t': 'single', 'body': {'t': 'seq', 'subs': [tpl, c0(var('a'))]}}
                    elif shape == 5:      # constraint on the mapping template itself: seen with the OUTER values
                        tpl = {'t': 'constr', 'cs': [[var('a'), op('add', var('a'), lit(1))]], 'body': tpl}
                    cases.append({'kind': 'tpl', 'style': 'exact' if style == 'time' else 'float', 'tpl': tpl,
                                  'params': params, 'family': 'remap'})
    # the loop index rebound between loop and body / named like an outer parameter
    for e in (op('add', var('i'), lit(1)), op('mul', var('i'), lit(2)), op('sub', lit(4), var('i'))):
        for rg in ((0, 3, 1), (4, 0, -2), (1, 1, 1)):
            body = {'t': 'map', 'm': {'i': e}, 'body': {'t': 'seq', 'subs': [c0(op('mul', var('i'), var('a'))),
                                                                            {'t': 'rep', 'count': var('i'), 'body': c0(var('a'))}]}}
            tpl = {'t': 'seq', 'subs': [{'t': 'for', 'idx': 'i', 'start': lit(rg[0]), 'stop': lit(rg[1]), 'step': lit(rg[2]), 'body': body},
                                        c0(var('a'))]}
            cases.append({'kind': 'tpl', 'style': 'exact', 'tpl': tpl, 'params': {'a': tparam('0.5', 'time'), 'i': tparam('100', 'int')},
                          'family': 'remap'})
    # name capture (former finding C04-forloop-index-capture, repaired in /repo 7d773a1): a mapping around a for-loop
    # substitutes an expression that mentions the loop index's NAME (an outer parameter of that name); the range of a
    # for-loop mentions its own index name (read outside of the loop); both; under a repetition / second loop
    bodies = [c0(op('mul', var('i'), var('T'))), {'t': 'rep', 'count': var('i'), 'body': c0(var('T'))},
              {'t': 'seq', 'subs': [c0(var('T')), {'t': 'rep', 'count': var('i'), 'body': c0(op('mul', var('T'), lit(2)))}]}]
    k = 0
    for e in (var('i'), op('add', var('i'), lit(1)), op('mul', var('i'), var('a')), op('max', var('i'), var('a'))):
        for rg in ((0, 3, 1), (1, 2, 5), (4, 0, -2), (2, 2, 1)):
            for body in bodies:
                for iv in ('25/2', '3'):
                    k += 1
                    if tier == 'quick' and k % 4 and not (k <= 3):
                        continue
                    loop = {'t': 'for', 'idx': 'i', 'start': lit(rg[0]), 'stop': lit(rg[1]), 'step': lit(rg[2]), 'body': copy.deepcopy(body)}
                    tpl = {'t': 'map', 'm': {'T': copy.deepcopy(e)}, 'body': loop}
                    if k % 3 == 1:
                        tpl = {'t': 'rep', 'count': lit(2), 'body': tpl}
                    elif k % 3 == 2:    # the capturing name is itself the index of an enclosing loop
                        tpl = {'t': 'seq', 'subs': [tpl, c0(op('mul', var('i'), var('a')))]}
                    params = {'i': tparam(iv, 'time' if '/' in iv else 'int'), 'a': tparam('0.5', 'time')}
                    used = free_params(tpl)
                    cases.append({'kind': 'tpl', 'style': 'exact', 'tpl': tpl, 'params': {x: p for x, p in params.items() if x in used},
                                  'family': 'capture'})
    for a, b, s_ in ((var('i'), op('add', var('i'), lit(2)), 1), (lit(0), var('i'), 1), (var('i'), lit(0), -1),
                     (var('i'), op('mul', var('i'), lit(2)), 2), (op('sub', var('i'), lit(1)), var('i'), 1)):
        for j, body in enumerate(bodies):
            loop = {'t': 'for', 'idx': 'i', 'start': a, 'stop': b, 'step': lit(s_), 'body': rename_var(copy.deepcopy(body), 'T', 'a')}
            tpls = [loop, {'t': 'map', 'm': {'a': op('mul', var('i'), var('a'))}, 'body': copy.deepcopy(loop)},
                    {'t': 'seq', 'subs': [copy.deepcopy(loop), c0(op('mul', var('i'), var('a')))]}]
            for tpl in tpls if tier == 'thorough' else tpls[j % 3:j % 3 + 2]:
                cases.append({'kind': 'tpl', 'style': 'exact', 'tpl': tpl, 'params': {'i': tparam('3', 'int'), 'a': tparam('0.5', 'time')},
                              'family': 'capture'})
    # round 6 (defect repaired in /repo c936965): the range of an OUTER loop mentions a parameter named like the index of an
    # INNER loop (the closed form of the inner sum is substituted into the outer one: the bound name must not capture it)
    for rg in ((var('k'), op('add', var('k'), lit(2)), 1), (lit(0), var('k'), 1), (var('k'), lit(0), -2),
               (op('mul', var('k'), lit(2)), op('add', op('mul', var('k'), lit(2)), lit(3)), 2)):
        for inner_stop in (lit(2), var('i')):
            inner = {'t': 'for', 'idx': 'k', 'start': lit(0), 'stop': copy.deepcopy(inner_stop), 'step': lit(1),
                     'body': {'t': 'seq', 'subs': [c0(op('add', lit(1), var('i'))), {'t': 'rep', 'count': var('k'), 'body': c0(var('a'))}]}}
            tpl = {'t': 'for', 'idx': 'i', 'start': rg[0], 'stop': rg[1], 'step': lit(rg[2]), 'body': inner}
            cases.append({'kind': 'tpl', 'style': 'exact', 'tpl': tpl, 'params': {'k': tparam('3', 'int'), 'a': tparam('0.5', 'time')},
                          'family': 'capture'})
    return cases


def gen_drop_cases(tier):
    """deterministic: tables / point pulses / constants / parallel compositions with two or three channels whose last
    entry times differ; every single channel in turn (the longest one, a shorter one) and pairs of channels are dropped
    or renamed, by a MappingPT, by the root mapping and by create_program(channel_mapping=...)"""
    cases = []
    tab = lambda ts: {'t': 'table', 'chans': {c: [lit(0), var(x)] for c, x in ts.items()},
                      'v': {c: [0, 1] for c in ts}, 'interp': {c: ['hold', 'linear'] for c in ts}}
    late = lambda ts: {'t': 'table', 'chans': {c: [var(x)] for c, x in ts.items()},      # first entry later than 0
                       'v': {c: [1] for c in ts}, 'interp': {c: ['hold'] for c in ts}}
    vals = [{'tx': '3', 'ty': '5', 'tz': '4'}, {'tx': '5', 'ty': '3', 'tz': '0.5'}, {'tx': '2.5', 'ty': '2.5', 'tz': '7'}]
    k = 0
    for vs in vals if tier == 'thorough' else vals[:2]:
        for nch in (2, 3):
            chs = ['c00', 'c01', 'c02'][:nch]
            ts = dict(zip(chs, ['tx', 'ty', 'tz']))
            atoms = [tab(ts), late(ts),
                     {'t': 'multi', 'subs': [tab({c: ts[c]}) if i else {'t': 'const', 'd': var(ts[c]), 'v': {c: 1}}
                                             for i, c in enumerate(chs)], 'declared': None},
                     {'t': 'const', 'd': var('tx'), 'v': {c: 1 for c in chs}},
                     {'t': 'point', 'times': [lit(0), var('ty')], 'ch': chs, 'v': [0, 1]}]
            drops = [{c: None} for c in chs] + [{chs[0]: None, chs[-1]: 'k00'}, {chs[0]: chs[1], chs[1]: chs[0]},
                                                 {chs[0]: 'z00'}, {c: None for c in chs[:-1]}, {}]
            for atom in atoms:
                for cm in drops:
                    k += 1
                    if tier == 'quick' and k % 3 and cm != {max(chs, key=lambda c: F(vs[ts[c]])): None}:
                        continue
                    params = {x: tparam(v, 'time') for x, v in vs.items() if x in ts.values()}
                    case = {'kind': 'tpl', 'style': 'exact', 'params': params, 'family': 'drop'}
                    how = k % 4
                    tpl = copy.deepcopy(atom)
                    if how == 0:
                        case['cpmap'] = dict(cm)
                    elif how == 1:
                        tpl = {'t': 'map', 'm': {}, 'cm': dict(cm), 'body': tpl}
                    elif how == 2:
                        tpl = {'t': 'map', 'm': {}, 'cm': dict(cm), 'body': tpl}
                        tpl = {'t': 'rep', 'count': lit(4), 'body': {'t': 'seq', 'subs': [tpl, copy.deepcopy(tpl)]}}
                        case['alias'] = True
                    else:
                        case['rootmap'] = {c: cm.get(c, c) for c in chs}
                        if len(set(v for v in case['rootmap'].values() if v is not None)) < sum(v is not None for v in case['rootmap'].values()):
                            case['rootmap'] = dict(cm)
                    case['tpl'] = tpl
                    cases.append(case)
    # an atomic template ALL of whose channels are dropped (known finding C04-all-channels-dropped when it lasts > 0):
    # alone, next to a played sibling, as a part of a parallel composition (that is fine: the other parts are played)
    c0 = lambda e, ch='c00': {'t': 'const', 'd': e, 'v': {ch: 1}}
    gone = lambda t, chs: {'t': 'map', 'm': {}, 'cm': {c: None for c in chs}, 'body': t}
    params = {'tx': tparam('3', 'time'), 'ty': tparam('5', 'time'), 'n_1': tparam('2', 'int')}
    for tpl in (gone(c0(var('tx')), ['c00']),
                {'t': 'rep', 'count': var('n_1'), 'body': gone(tab({'c00': 'tx', 'c01': 'ty'}), ['c00', 'c01'])},
                gone({'t': 'func', 'd': var('tx'), 'ch': ['c00'], 'expr': '1'}, ['c00']),
                gone(c0(lit(0)), ['c00']),
                gone({'t': 'multi', 'subs': [c0(var('tx')), c0(var('tx'), 'c01')], 'declared': None}, ['c01']),
                gone({'t': 'multi', 'subs': [c0(var('tx')), c0(var('tx'), 'c01')], 'declared': var('tx')}, ['c00']),
                gone({'t': 'multi', 'subs': [c0(var('tx')), c0(var('ty'), 'c01')], 'declared': None}, ['c00']),
                gone({'t': 'arith', 'lhs': c0(var('tx')), 'rhs': c0(var('tx')), 'op': '+'}, ['c00'])):
        cases.append({'kind': 'tpl', 'style': 'exact', 'params': dict(params), 'family': 'drop', 'tpl': tpl})
    cases.append({'kind': 'tpl', 'style': 'exact', 'params': dict(params), 'family': 'drop', 'cpmap': {'c00': None},
                  'tpl': {'t': 'seq', 'subs': [c0(var('tx')), c0(var('ty'))]}})
    return cases


INEXACT_MULTIPLES = [('0.1', 3), ('0.7', 3), ('1.1', 3), ('0.3', 3), ('0.2', 6), ('0.1', 7), ('0.05', 3), ('100.001', 7),
                     ('1.3', 1000003), ('0.6', 6), ('3.3', 7), ('2.2', 3)]     # float(d) * n is not the double nearest to d * n
EXACT_MULTIPLES = [('0.5', 3), ('0.1', 2), ('2', 3), ('0.25', 7)]             # controls
MC_CONFIGS = [[2, 1], [3, 1], ['half', 1], ['total', 1], [4, 2], [1, 1], [2, 1, 'cleanup'], [3, 1, 'cleanup'], [1, 1, 'cleanup'],
              [2, 1, 'flatten'], [1, 1, 'flatten']]


def gen_decimal_cases(tier):
    """deterministic (the class of seed C04-5: exact-vs-float numerics off the dyadic grid).  A body that renders to a
    CONSTANT waveform (ConstantPT on one / two channels, hold-only table, point pulse, two equal constant pieces that get
    merged, nested repetition, for-loop over constant pieces) of a decimal duration d, repeated n times with float(d)*n
    inexact (0.1 x 3, 0.7 x 3, 1.1 x 3, ...; controls 0.5 x 3, 0.1 x 2), rendered as ONE waveform by every path the
    library has: to_waveform(program) (always observed), to_single_waveform (the repetition itself / a sequence that
    contains it), make_compatible (leaf with a count, whole sub-program, whole program).  d as TimeType and as float."""
    cases = []
    c0 = lambda e, v=1, chs=('c00',): {'t': 'const', 'd': e, 'v': {c: v for c in chs}}
    ramp = {'t': 'table', 'chans': {'c00': [lit(0), var('t_r')]}, 'v': {'c00': [0, 1]}, 'interp': {'c00': ['hold', 'linear']}}
    ramp2 = {'t': 'table', 'chans': {'c00': [lit(0), var('t_r')], 'c01': [lit(0), var('t_r')]}, 'v': {'c00': [0, 1], 'c01': [1, 0]},
             'interp': {'c00': ['hold', 'linear'], 'c01': ['hold', 'linear']}}
    bodies = [
        ('const', lambda: c0(var('t_1')), 1),
        ('const2ch', lambda: c0(var('t_1'), 1, ('c00', 'c01')), 2),
        ('holdtable', lambda: {'t': 'table', 'chans': {'c00': [lit(0), var('t_1')]}, 'v': {'c00': [1, 1]},
                               'interp': {'c00': ['hold', 'hold']}}, 1),
        ('latetable', lambda: {'t': 'table', 'chans': {'c00': [var('t_1')]}, 'v': {'c00': [2]}, 'interp': {'c00': ['hold']}}, 1),
        ('point', lambda: {'t': 'point', 'times': [lit(0), var('t_1')], 'ch': ['c00'], 'v': [1, 1]}, 1),
        ('merged', lambda: {'t': 'seq', 'subs': [c0(var('t_1')), c0(op('mul', var('t_1'), lit(2)))]}, 1),    # d + 2d
        ('merged2', lambda: {'t': 'seq', 'subs': [c0(var('t_1')), c0(var('t_2'))]}, 1),                        # 0.1 + 0.2
        ('nested', lambda: {'t': 'rep', 'count': lit(2), 'body': c0(var('t_1'))}, 1),
        ('forconst', lambda: {'t': 'for', 'idx': 'i_1', 'start': lit(0), 'stop': lit(2), 'step': lit(1),
                              'body': c0(op('mul', var('t_1'), op('add', var('i_1'), lit(1))))}, 1),
        ('ramp', lambda: {'t': 'table', 'chans': {'c00': [lit(0), var('t_1')]}, 'v': {'c00': [0, 1]},
                          'interp': {'c00': ['hold', 'linear']}}, 1),                                           # control: not constant
    ]
    contexts = ['plain', 'single', 'single_then_ramp', 'single_seq', 'mc', 'rep_of_seq', 'count_param_float']
    k = 0
    for d, n in INEXACT_MULTIPLES + EXACT_MULTIPLES:
        for bname, mk, nch in bodies:
            for ctxname in contexts:
                for style in ('time', 'float'):
                    k += 1
                    main = (d, n) in INEXACT_MULTIPLES[:3] and bname == 'const'
                    if tier == 'quick' and not main and (k * 7 + len(bname)) % 23:
                        continue
                    st = 'npfloat' if style == 'float' and k % 4 == 0 else style        # numpy.float64 now and then
                    params = {'t_1': tparam(d, st), 't_2': tparam(F(d) * 2, st), 't_r': tparam('0.4', 'time'),
                              'n_1': tparam(n, ('int', 'npint', 'npuint')[k % 3] if n < 256 else 'int')}
                    rep = {'t': 'rep', 'count': var('n_1'), 'body': mk()}
                    rmp = copy.deepcopy(ramp if nch == 1 else ramp2)
                    case = {'kind': 'tpl', 'style': 'exact' if style == 'time' else 'float', 'family': 'decimal'}
                    if ctxname == 'plain':
                        tpl = rep
                    elif ctxname == 'single':
                        tpl = {'t': 'single', 'body': rep}
                    elif ctxname == 'single_then_ramp':
                        tpl = {'t': 'seq', 'subs': [{'t': 'single', 'body': rep}, rmp]}
                    elif ctxname == 'single_seq':
                        tpl = {'t': 'single', 'body': {'t': 'seq', 'subs': [rep, rmp]}}
                    elif ctxname == 'rep_of_seq':
                        tpl = {'t': 'rep', 'count': lit(2), 'body': {'t': 'seq', 'subs': [rep, rmp]}}
                    elif ctxname == 'count_param_float':
                        params['n_1'] = tparam(n, 'float')
                        tpl = {'t': 'seq', 'subs': [rep, rmp]}
                    else:
                        tpl = {'t': 'seq', 'subs': [rep, rmp]}
                    case['mc'] = [list(c) for c in MC_CONFIGS]
                    used = free_params(tpl)
                    case['tpl'] = tpl
                    case['params'] = {x: p for x, p in params.items() if x in used}
                    cases.append(case)
    return cases


def gen_alias_cases(tier):
    """deterministic (the class of seed C04-6: aliasing).  The very same template OBJECT (`alias`: equal JSON sub-trees are
    built once) several times among the direct children of one SequencePT (w r w, r @ r, w w r, w r w r w, SequencePT.
    concatenate), composite shared children, and the same object inside several enclosing templates (a repetition, two
    for-loops, mappings with different right hand sides, time reversal, both operands of an arithmetic template, two
    to_single_waveform occurrences); each also with distinct objects (control)."""
    cases = []
    w = {'t': 'const', 'd': var('t_w'), 'v': {'c00': 0}}
    r = {'t': 'table', 'chans': {'c00': [lit(0), var('t_r')]}, 'v': {'c00': [0, 1]}, 'interp': {'c00': ['hold', 'linear']}}
    f = {'t': 'func', 'd': var('t_r'), 'ch': ['c00'], 'expr': 't*0.5'}
    dc = copy.deepcopy
    seq = lambda *subs, **kw: {'t': 'seq', 'subs': [dc(s) for s in subs], **kw}
    rep = lambda n, b: {'t': 'rep', 'count': n, 'body': dc(b)}
    loop = lambda a, b, body: {'t': 'for', 'idx': 'i', 'start': lit(a), 'stop': b, 'step': lit(1), 'body': dc(body)}
    mp = lambda m, b: {'t': 'map', 'm': m, 'body': dc(b)}
    x = seq(w, r)
    shapes = [
        seq(w, r, w), seq(r, r, via='matmul'), seq(w, w, r), seq(w, r, w, r, w), seq(w, r, w, via='concat'),
        seq(w, r, w, via='matmul'), seq(f, w, f),
        seq(x, x), seq(x, w, x), seq(x, x, via='concat'), seq(seq(w, r), seq(r, w)),
        loop(0, var('n_1'), seq(w, mp({'t_r': op('mul', var('t_r'), op('add', var('i'), lit(1)))}, r), w)),
        rep(var('n_1'), seq(w, w, r)),
        seq(rep(var('n_1'), w), loop(0, lit(2), seq(w, rep(var('i'), w))), mp({'t_w': op('mul', var('t_w'), lit(2))}, w), w),
        seq(mp({'t_w': var('t_r')}, w), mp({'t_w': op('add', var('t_w'), var('t_r'))}, w), w),
        seq(loop(0, lit(2), rep(var('i'), w)), loop(1, lit(4), rep(var('i'), w))),
        seq(rep(var('n_1'), w), rep(var('n_1'), w), r),
        seq(w, {'t': 'rev', 'body': dc(w)}, {'t': 'wrap', 'body': dc(w)}),
        seq({'t': 'arith', 'lhs': dc(w), 'rhs': dc(w), 'op': '+'}, w),
        seq({'t': 'single', 'body': dc(x)}, r, {'t': 'single', 'body': dc(x)}),
        {'t': 'single', 'body': seq(w, r, w)},
        mp({'t_w': var('t_r'), 't_r': var('t_w')}, seq(w, r, w)),
        {'t': 'constr', 'cs': [[lit(0), var('t_w')]], 'body': seq(w, r, w)},
        seq(w, r, w, meas=[['m', 0, 1]]),
        seq(r, r, via='tconcat'), seq(r, r, r, via='tconcat'),
        seq({'t': 'rep', 'count': lit(2), 'body': seq(r, r, via='tconcat')}, r),
        seq(mp({'t_w': var('t_r')}, w), mp({'t_w': op('add', var('t_w'), var('t_r'))}, w), w, via='tuple'),
        seq(mp({'t_w': var('t_r'), 't_r': var('t_w')}, x), x, via='tuple'),
        {'t': 'rep', 'count': lit(2), 'via': 'pow', 'body': {'t': 'rep', 'count': var('n_1'), 'via': 'pow', 'body': dc(w)}},
        seq({'t': 'rep', 'count': var('n_1'), 'via': 'pow', 'body': dc(x)}, {'t': 'rep', 'count': lit(2), 'via': 'pow', 'body': dc(x)}),
    ]
    vals = [('0.5', '1.5'), ('0.1', '0.7'), ('3', '5')]
    k = 0
    for tw, tr in vals:
        for shape in shapes:
            for alias in (True, False):
                for style in ('time', 'float'):
                    k += 1
                    if tier == 'quick' and (not alias or style == 'float') and k % 5:
                        continue
                    case = {'kind': 'tpl', 'style': 'exact' if style == 'time' else 'float', 'family': 'alias', 'tpl': dc(shape),
                            'params': {'t_w': tparam(tw, style), 't_r': tparam(tr, style), 'n_1': tparam('3', 'int')}}
                    used = free_params(case['tpl'])
                    case['params'] = {a: p for a, p in case['params'].items() if a in used}
                    if alias:
                        case['alias'] = True
                    if k % 3 == 0:
                        case['mc'] = [[2, 1], ['total', 1], [2, 1, 'cleanup']]
                    if k % 7 == 0:
                        case['parch'] = True
                    cases.append(case)
    return cases


def gen_badtable_cases(tier):
    """deterministic: tables the instantiation must reject or truncate (TableWaveform._validate_input error paths):
    decreasing / negative entry times given through parameters, a single negative entry, a zero-length table, equal
    times; alone, in a repetition and next to a valid channel"""
    cases = []
    rows = [(['t_a', 't_b'], {'t_a': '2', 't_b': '1'}), (['t_a', 't_b'], {'t_a': '1', 't_b': '-1'}), (['t_b'], {'t_b': '-1'}),
            ([0, 't_b'], {'t_b': '-1'}), ([0, 't_a', 't_b'], {'t_a': '2', 't_b': '1'}), ([0, 't_a', 't_b'], {'t_a': '0', 't_b': '0'}),
            (['t_a', 't_a', 't_b'], {'t_a': '1', 't_b': '1'}), ([0, 't_a', 't_b', 't_a'], {'t_a': '1', 't_b': '2'}),
            ([0, 't_a'], {'t_a': '0'}), (['t_a', 't_b'], {'t_a': '0.1', 't_b': '0.3'})]
    for k, (ts, vals) in enumerate(rows):
        es = [lit(0) if x == 0 else var(x) for x in ts]
        tab = {'t': 'table', 'chans': {'c00': es}, 'v': {'c00': [i % 3 for i in range(len(es))]},
               'interp': {'c00': ['hold', 'linear', 'jump', 'hold'][:len(es)]}}
        two = {'t': 'table', 'chans': {'c00': copy.deepcopy(es), 'c01': [lit(0), lit(3)]}, 'v': {'c00': [0] * len(es), 'c01': [0, 1]},
               'interp': {'c00': ['hold'] * len(es), 'c01': ['hold', 'linear']}}
        for j, tpl in enumerate((tab, {'t': 'rep', 'count': lit(2), 'body': copy.deepcopy(tab)}, two,
                                 {'t': 'map', 'm': {}, 'cm': {'c00': None}, 'body': copy.deepcopy(two)})):
            for ty in ('time', 'float') if tier == 'thorough' else ('time',):
                cases.append({'kind': 'tpl', 'style': 'exact' if ty == 'time' else 'float', 'family': 'badtable', 'tpl': copy.deepcopy(tpl),
                              'params': {x: tparam(v, ty if F(v).denominator != 1 else 'int') for x, v in vals.items()}})
    return cases


def gen_declared_cases(tier):
    """deterministic (the class of seed C04-10: the enforced duration of an AtomicMultiChannelPT).  A parallel composition
    with duration=<expression> reports that expression as its duration; build_waveform has to reject every assignment at
    which the remaining sub waveform(s) do not last that long - whatever the number of sub waveforms that are left: a
    single sub template, a second part dropped by a MappingPT / the root mapping / create_program(channel_mapping), a
    second part of duration 0 (literal, parameter), two of three parts dropped, both parts played (control), no part
    played.  Declared value equal / larger / smaller / zero / equal decimal (TimeType, float) / within the isclose
    tolerance; first part a ramp table, ConstantPT, FunctionPT, PointPT; alone, SequencePT(RepetitionPT(p, n), p), as
    one waveform, inside a for-loop."""
    cases = []
    c0 = lambda e, ch='c00': {'t': 'const', 'd': e, 'v': {ch: 1}}
    firsts = [
        lambda: {'t': 'table', 'chans': {'c00': [lit(0), var('ta')]}, 'v': {'c00': [0, 1]}, 'interp': {'c00': ['hold', 'linear']}},
        lambda: c0(var('ta')),
        lambda: {'t': 'func', 'd': var('ta'), 'ch': ['c00'], 'expr': '1'},
        lambda: {'t': 'point', 'times': [lit(0), var('ta')], 'ch': ['c00'], 'v': [0, 1]},
    ]
    marker = lambda ch, x='ta': {'t': 'table', 'chans': {ch: [lit(0), var(x)]}, 'v': {ch: [1, 0]}, 'interp': {ch: ['hold', 'hold']}}
    # (name, further parts, channels dropped, how they are dropped)
    arrangements = [('one', lambda: [], [], None),
                    ('drop_cp', lambda: [marker('c01')], ['c01'], 'cpmap'),
                    ('drop_map', lambda: [marker('c01')], ['c01'], 'map'),
                    ('drop_root', lambda: [marker('c01')], ['c01'], 'rootmap'),
                    ('zero_lit', lambda: [c0(lit(0), 'c01')], [], None),
                    ('zero_par', lambda: [c0(var('tz'), 'c01')], [], None),
                    ('drop_two', lambda: [marker('c01'), c0(var('ta'), 'c02')], ['c01', 'c02'], 'map'),
                    ('first_dropped', lambda: [marker('c01')], ['c00'], 'cpmap'),
                    ('both', lambda: [marker('c01')], [], None),
                    ('none', lambda: [marker('c01')], ['c00', 'c01'], 'map')]
    values = [('3', '3', 'time'), ('3', '5', 'time'), ('3', '1', 'time'), ('3', '0', 'time'), ('0.3', '0.3', 'time'),
              ('0.3', '0.3', 'float'), ('0.3', '0.7', 'float'), ('1000000', '1000000.0000001', 'time'), ('0.1', '0.3', 'time')]
    contexts = ['alone', 'rep_seq', 'single', 'for']
    k = 0
    for ai, (aname, more, dropped, how) in enumerate(arrangements):
        for fi, first in enumerate(firsts):
            for vi, (ta, td, ty) in enumerate(values):
                for ci, ctxname in enumerate(contexts):
                    k += 1
                    main = fi == 0 and vi in (0, 1) and ctxname in ('alone', 'rep_seq')
                    if tier == 'quick' and not main and (ai + 3 * fi + 5 * vi + 7 * ci) % 11:
                        continue
                    pulse = {'t': 'multi', 'subs': [first()] + more(), 'declared': var('td')}
                    if how == 'map':
                        pulse = {'t': 'map', 'm': {}, 'cm': {c: None for c in dropped}, 'body': pulse}
                    if ctxname == 'alone':
                        tpl = pulse
                    elif ctxname == 'rep_seq':
                        tpl = {'t': 'seq', 'subs': [{'t': 'rep', 'count': var('n_1'), 'body': pulse}, copy.deepcopy(pulse)]}
                    elif ctxname == 'single':
                        tpl = {'t': 'single', 'body': {'t': 'rep', 'count': lit(2), 'body': pulse}}
                    else:
                        tpl = {'t': 'for', 'idx': 'i_1', 'start': lit(0), 'stop': lit(2), 'step': lit(1),
                               'body': {'t': 'seq', 'subs': [pulse, {'t': 'rep', 'count': var('i_1'), 'body': copy.deepcopy(pulse)}]}}
                    params = {'ta': tparam(ta, ty if F(ta).denominator != 1 else 'int'),
                              'td': tparam(td, ty if F(td).denominator != 1 else 'int'),
                              'tz': tparam('0', 'int'), 'n_1': tparam('4', 'int')}
                    used = free_params(tpl)
                    case = {'kind': 'tpl', 'style': 'exact' if ty == 'time' else 'float', 'family': 'declared', 'tpl': tpl,
                            'params': {x: p for x, p in params.items() if x in used}}
                    if ctxname == 'rep_seq':
                        case['alias'] = True
                    if how == 'cpmap':
                        case['cpmap'] = {c: None for c in dropped}
                    elif how == 'rootmap':
                        case['rootmap'] = {c: (None if c in dropped else c) for c in ('c00', 'c01')}
                    cases.append(case)
    return cases


def gen_cases(rng, tier, ctx):
    cases = []
    cases.extend(gen_badtable_cases(tier))
    cases.extend(gen_declared_cases(tier))
    cases.extend(gen_remap_cases(tier))
    cases.extend(gen_drop_cases(tier))
    cases.extend(gen_decimal_cases(tier))
    cases.extend(gen_alias_cases(tier))
    # real ForLoopPT over a box of ranges (exhaustive in thorough)
    k = 0
    for a in range(-4, 5):
        for b in range(-4, 5):
            for st in (1, 2, 3, -1, -2, -3):
                k += 1
                if tier == 'thorough' or rng.random() < 0.08:
                    cases.append(gen_for_case(a, b, st, k))
    for _ in range({'quick': 40, 'thorough': 400}[tier]):
        cases.append(gen_mixed_case(rng))
    for _ in range({'quick': 12, 'thorough': 60}[tier]):
        cases.append(gen_frac_case(rng))
    n = {'quick': 1, 'thorough': 12}[tier]
    maxd = {'quick': 3, 'thorough': 4}[tier]
    # range cases: a small box (exhaustive in thorough)
    box = range(-4, 5)
    for a in box:
        for b in box:
            for s in (1, 2, 3, -1, -2, -3):
                if tier == 'thorough' or rng.random() < 0.25:
                    cases.append({'kind': 'range', 'a': a, 'b': b, 's': s})
    for _ in range(30 * n):
        cases.append({'kind': 'range', 'a': rng.randint(-50, 50), 'b': rng.randint(-50, 50),
                      's': rng.choice([1, 2, 3, 4, 5, 7, 11, 50, -1, -2, -3, -4, -7, -13, -60])})
    # no-accumulation cases: one leaf repeated n times, nested repetitions
    for dec in TIME_DECIMALS[:14 if tier == 'quick' else len(TIME_DECIMALS)]:
        for style in ('exact', 'float'):
            for cnt in (1, 3, 1000000, 7 * 10 ** 9):
                g = Gen(rng, style, tier)
                t = g.new_param('t', F(dec), 'time')
                nn = g.new_param('n', F(cnt), 'int')
                tpl = {'t': 'rep', 'count': var(nn), 'body': {'t': 'const', 'd': var(t), 'v': {'c00': 1}}}
                if rng.random() < 0.5:
                    tpl = {'t': 'rep', 'count': lit(3), 'body': {'t': 'seq', 'subs': [tpl, {'t': 'const', 'd': var(t), 'v': {'c00': 2}}]}}
                cases.append({'kind': 'tpl', 'style': style, 'tpl': tpl, 'params': g.params})
    for _ in range(520 * n):
        r = rng.random()
        style = 'exact' if r < 0.55 else 'float' if r < 0.9 else 'mixed'
        cases.append(gen_template_case(rng, tier, style, rng.choice([1, 2, 2, 3, 3, maxd])))
    return cases + twins_of(cases)


def twins_of(cases):
    """every input inside the class of a known finding once more as a correspondence-only case (CTwin: check_spec = true,
    check_corr = the operational model, which describes the finding exactly, predicts the observation).  The symbolic
    value is compared too, except for near-integer inputs of templates with a for-loop (the code writes the iteration
    count in the floor form, the model in the ceiling form; they differ off the integers)"""
    out = []
    for c in cases:
        fc = finding_class(c)
        if fc is None:
            continue
        t = copy.deepcopy(c)
        t.pop('mc', None)
        t['twin'] = fc
        t['twin_sym'] = not (fc == 'C04-near-integer' and 'for' in kinds_of(c['tpl'], set()))
        out.append(t)
    return out


# ---------------------------------------------------------------------------------------------------------------------
# running the implementation

def expr_str(e):
    if 'lit' in e:
        return str(int(e['lit']))
    if 'flit' in e:
        return e['flit']
    if 'var' in e:
        return e['var']
    if e['op'] == 'divk':
        return '(%s)/%d' % (expr_str(e['a']), e['k'])
    if e['op'] == 'max':
        return 'Max(%s, %s)' % (expr_str(e['a']), expr_str(e['b']))
    return '(%s %s %s)' % (expr_str(e['a']), {'add': '+', 'sub': '-', 'mul': '*'}[e['op']], expr_str(e['b']))


def expr_arg(e):
    """what is handed to a constructor: plain numbers stay numbers"""
    if 'lit' in e:
        return int(e['lit'])
    if 'flit' in e:
        return float(e['flit'])
    return expr_str(e)


def build(t, singles=None, constraints=None, memo=None):
    """the qupulse template of a JSON tree; `singles` collects the templates to be rendered as one waveform;
    `constraints` are attached to this node (its class must take parameter_constraints); memo (aliasing): equal JSON
    sub-trees become one and the same Python object"""
    if memo is not None and not constraints:
        import json
        key = json.dumps(t, sort_keys=True)
        if key not in memo:
            memo[key] = build0(t, singles, constraints, memo)
        return memo[key]
    return build0(t, singles, constraints, memo)


def build0(t, singles=None, constraints=None, memo=None):
    from qupulse.pulses import (ConstantPT, FunctionPT, TablePT, PointPT, SequencePT, RepetitionPT, ForLoopPT, MappingPT,
                                AtomicMultiChannelPT, TimeReversalPT)
    from qupulse.pulses.arithmetic_pulse_template import ArithmeticAtomicPulseTemplate, ArithmeticPulseTemplate
    if singles is None:
        singles = []
    k = t['t']
    kw = {}
    if t.get('meas'):
        kw['measurements'] = [tuple(m) for m in t['meas']]
    if constraints:
        kw['parameter_constraints'] = list(constraints)
    sub = lambda c: build(c, singles, memo=memo)
    if k == 'const':
        assert not constraints
        return ConstantPT(expr_arg(t['d']), dict(t['v']), **kw)
    if k == 'func':
        return FunctionPT(t['expr'], expr_arg(t['d']), channel=t['ch'][0], **kw)
    if k == 'table':
        return TablePT({c: [(expr_arg(e), v, ip) for e, v, ip in zip(ts, t['v'][c], t['interp'][c])]
                        for c, ts in t['chans'].items()}, consistency_check=False, **kw)
    if k == 'point':
        return PointPT([(expr_arg(e), [v] * len(t['ch'])) for e, v in zip(t['times'], t['v'])], t['ch'], **kw)
    if k == 'seq':
        parts = [sub(c) for c in t['subs']]
        if t.get('via') == 'matmul' and len(parts) >= 2 and not kw:      # a @ b @ c (SequencePT.concatenate flattens)
            out = parts[0]
            for p in parts[1:]:
                out = out @ p
            return out
        if t.get('via') == 'concat':
            return SequencePT.concatenate(*parts, **kw)
        if t.get('via') == 'tconcat':       # table_pulse_template.concatenate: ONE table, the durations add up
            from qupulse.pulses.table_pulse_template import concatenate as table_concatenate
            return table_concatenate(*parts, **kw)
        if t.get('via') == 'tuple':         # (template, parameter mapping) tuples: MappingPT.from_tuple
            parts = [(sub(c['body']), {x: expr_str(e) for x, e in c['m'].items()})
                     if c['t'] == 'map' and c['m'] and 'cm' not in c else sub(c) for c in t['subs']]
        return SequencePT(*parts, **kw)
    if k == 'rep':
        if t.get('via') == 'pow' and not kw:      # pt ** n = with_repetition (merges the counts of nested repetitions)
            return sub(t['body']) ** expr_arg(t['count'])
        return RepetitionPT(sub(t['body']), expr_arg(t['count']), **kw)
    if k == 'for':
        return ForLoopPT(sub(t['body']), t['idx'], (expr_arg(t['start']), expr_arg(t['stop']), expr_arg(t['step'])), **kw)
    if k == 'map':
        if 'cm' in t:
            kw['channel_mapping'] = dict(t['cm'])       # {} ("declared as empty") or a real mapping; absent = not declared
        inner = sub(t['body'])
        # sympy may have simplified a name away (t - t): MappingPT rejects mappings of names the body does not have
        return MappingPT(inner, parameter_mapping={x: expr_str(e) for x, e in t['m'].items() if x in inner.parameter_names},
                         allow_partial_parameter_mapping=True, **kw)
    if k == 'multi':
        return AtomicMultiChannelPT(*[sub(c) for c in t['subs']],
                                    duration=None if t.get('declared') is None else expr_str(t['declared']), **kw)
    if k == 'constr':
        cs = ['(%s) <= (%s)' % (expr_str(l), expr_str(r)) for l, r in t['cs']]
        if t['body']['t'] in ('func', 'table', 'point', 'seq', 'rep', 'for', 'map', 'multi') and not t['body'].get('wrapseq'):
            return build(t['body'], singles, constraints=cs, memo=memo)
        return SequencePT(sub(t['body']), parameter_constraints=cs)     # same program children as the body
    if k == 'single':
        obj = sub(t['body'])
        singles.append(obj)
        return obj
    assert not kw
    if k == 'arith':
        return ArithmeticAtomicPulseTemplate(sub(t['lhs']), t['op'], sub(t['rhs']))
    if k == 'wrap':
        return ArithmeticPulseTemplate(sub(t['body']), '*', 2)
    if k == 'rev':
        return TimeReversalPT(sub(t['body']))
    raise ValueError(k)


def build_case(case):
    """-> (root template, set for to_single_waveform, extra create_program keyword arguments)"""
    from qupulse.pulses import MappingPT
    singles = []
    pt = build(case['tpl'], singles, memo={} if case.get('alias') else None)
    kw = {}
    if case.get('rootmap'):
        mm = {k: v for k, v in (case.get('measmap') or {}).items() if k in pt.measurement_names and v is not None}
        pt = MappingPT(pt, channel_mapping=dict(case['rootmap']), measurement_mapping=mm,
                       allow_partial_parameter_mapping=True)
        names = pt.measurement_names
        kw['measurement_mapping'] = {n: (None if (case.get('measmap') or {}).get(n, 1) is None else n + '_x') for n in names}
    if case.get('parch'):
        # ParallelChannelPT around the root: one more (constant) channel on every waveform, the duration is the inner one
        from qupulse.pulses.multi_channel_pulse_template import ParallelChannelPulseTemplate
        pt = ParallelChannelPulseTemplate(pt, {'p99': 0.5})
    if case.get('cpmap'):
        kw['channel_mapping'] = dict(case['cpmap'])
    if singles:
        kw['to_single_waveform'] = set(singles)
    if case.get('volatile'):
        kw['volatile'] = set(case['volatile'])
    return pt, kw


def py_param(p, decimal=False):
    from qupulse.utils.types import TimeType
    if p['ty'] == 'int':
        return int(p['v'])
    if p['ty'] in ('npint', 'npuint'):
        import numpy
        return (numpy.int64 if p['ty'] == 'npint' else numpy.uint8)(int(p['v']))
    if p['ty'] == 'time':
        f = F(p['v'])
        return TimeType.from_fraction(f.numerator, f.denominator)
    if p['ty'] == 'frac':
        return F(p['v'])
    if p['ty'] == 'mpq':
        import gmpy2
        f = F(p['v'])
        return gmpy2.mpq(f.numerator, f.denominator)
    x = float.fromhex(p['v'])
    if p['ty'] == 'npfloat' and not decimal:
        import numpy
        return numpy.float64(x)
    return TimeType.from_float(x) if decimal else x


def exact_time(x):
    """the exact rational a reported duration stands for; a float result stands for its shortest decimal"""
    from qupulse.utils.types import TimeType
    if hasattr(x, 'item') and not isinstance(x, (int, float)):
        try:
            x = x.item()
        except Exception:
            pass
    if isinstance(x, float):
        if not math.isfinite(x):
            return None
        return vlib.to_fraction(TimeType.from_float(x))
    return vlib.to_fraction(x)


def sym_exact(duration, params):
    """exact value of a duration expression: sympy substitution of rationals, Sum/Piecewise/Max/ceiling evaluated by
    sympy; None when the value is not a finite rational (division by zero, missing symbol, float literal taking part)"""
    import sympy
    e = duration.sympified_expression if hasattr(duration, 'sympified_expression') else sympy.sympify(duration)
    subs = {}
    for k, p in params.items():
        q = c04_spec.param_value(p)[1]
        subs[sympy.Symbol(k)] = sympy.Rational(q.numerator, q.denominator)
    v = e.subs(subs)
    v = v.doit()
    if isinstance(v, sympy.Float):
        from qupulse.utils.types import TimeType
        return vlib.to_fraction(TimeType.from_float(float(v)))
    if getattr(v, 'is_Rational', False):
        return F(int(v.p), int(v.q))
    return None


def sum_pieces(loop, mult=1):
    if loop.is_leaf():
        return vlib.to_fraction(loop.waveform.duration) * mult * loop.repetition_count
    return sum((sum_pieces(c, mult * loop.repetition_count) for c in loop), F(0))


def leaf_durations(loop, acc):
    if loop.is_leaf():
        acc.append(vlib.to_fraction(loop.waveform.duration))
    for c in loop:
        leaf_durations(c, acc)
    return acc


def run_make_compatible(prog, configs):
    """make_compatible(copy of the program, min_len, quantum, sample_rate) for every [min_len, quantum] of `configs`;
    the sample rate is the least common denominator of all leaf durations (every piece is a whole number of samples);
    min_len 'total' = the length of the whole program (everything is concatenated into one waveform), 'half' = half of
    it.  -> per config the three durations afterwards, or the error kind (a program that cannot be made compatible)"""
    from qupulse.program.loop import make_compatible, to_waveform
    from qupulse.utils.types import TimeType
    sr = 1
    for d in leaf_durations(prog, []):
        sr = sr * d.denominator // math.gcd(sr, d.denominator)
    if sr > 10 ** 12:
        return [{'err': 'rate'}]
    total = vlib.to_fraction(prog.duration) * sr
    out = []
    for min_len, quantum, *pre in configs:
        ml = int(total) if min_len == 'total' else max(1, int(total) // 2) if min_len == 'half' else int(min_len)
        p2 = prog.copy_tree_structure()
        try:
            if pre and pre[0] == 'cleanup':        # merges single children: leaves with a repetition count > 1
                p2.cleanup()
            elif pre and pre[0] == 'flatten':
                if max(l.repetition_count for l in p2.get_depth_first_iterator()) > 1000:
                    out.append({'err': 'big'})      # flatten_and_balance unrolls
                    continue
                p2.flatten_and_balance(1)
            make_compatible(p2, ml, int(quantum), TimeType.from_fraction(sr, 1))
        except (ValueError, AssertionError) as e:
            out.append({'err': type(e).__name__})
            continue
        r = {'loop': vlib.frac_json(p2.duration), 'pieces': vlib.frac_json(sum_pieces(p2))}
        try:
            r['wf'] = vlib.frac_json(to_waveform(p2).duration)
        except (ValueError, AssertionError):
            r['wf'] = None
        out.append(r)
    return out


def run_impl(case):
    if case['kind'] == 'range':
        from qupulse.pulses.range import ParametrizedRange
        try:
            with vlib.time_limit(5):
                return {'range': [int(v) for v in ParametrizedRange(case['a'], case['b'], case['s']).to_range({})]}
        except vlib.Timeout:
            return {'hang': True}
        except Exception as e:
            return {'crash': '%s: %s' % (type(e).__name__, e)}
    from qupulse.pulses.parameters import ParameterNotProvidedException
    from qupulse.pulses.repetition_pulse_template import ParameterNotIntegerException
    from qupulse.expressions import ExpressionVariableMissingException, NonNumericEvaluation
    from qupulse.pulses.parameters import ParameterConstraintViolation
    from qupulse.program.loop import to_waveform
    import numpy
    out = {}
    import contextlib
    import io
    # (SequenceWaveform prints a line before it raises for sub-waveforms with different channels)
    with warnings.catch_warnings(), numpy.errstate(all='ignore'), contextlib.redirect_stdout(io.StringIO()):
        warnings.simplefilter('ignore')
        try:
            with vlib.time_limit(20):
                pt, cp_kw = build_case(case)
        except vlib.Timeout:
            return {'hang': True}
        except Exception as e:
            return {'crash': 'construction failed: %s: %s' % (type(e).__name__, e)}
        # (1) the duration expression at the parameters as given (floats = their decimal value): its exact value by
        #     substitution of rationals, and what evaluate_in_scope returns for TimeType/int arguments
        try:
            with vlib.time_limit(10):
                r = sym_exact(pt.duration, case['params'])
            out['sym'] = None if r is None else vlib.frac_json(r)
        except vlib.Timeout:
            out['sym'] = None
            out['sym_exc'] = 'timeout'
        except Exception as e:
            out['sym'] = None
            out['sym_exc'] = '%s: %s' % (type(e).__name__, str(e)[:120])
        try:
            with vlib.time_limit(5):
                dec_params = {k: py_param(p, decimal=True) for k, p in case['params'].items()}
                r = pt.duration.evaluate_in_scope(dec_params)
            if hasattr(r, 'item') and not isinstance(r, (int, float)):
                r = r.item()
            out['sym_num'] = 'float' if isinstance(r, float) else vlib.frac_json(r)
        except vlib.Timeout:
            out['sym_num'] = 'exc:Timeout'
        except Exception as e:
            out['sym_num'] = 'exc:' + type(e).__name__
        # (2)-(4) the instantiated program
        try:
            with vlib.time_limit(20):
                try:
                    prog = pt.create_program(parameters={k: py_param(p) for k, p in case['params'].items()}, **cp_kw)
                except (ParameterNotProvidedException, ExpressionVariableMissingException, KeyError):
                    out['prog'] = {'err': 'missing'}
                    return out
                except (ValueError, AssertionError, ParameterNotIntegerException, ZeroDivisionError,
                        ParameterConstraintViolation, NonNumericEvaluation) as e:
                    out['prog'] = {'err': 'value', 'exc': type(e).__name__}
                    return out
                if prog is None:
                    out['prog'] = None
                    return out
                out['prog'] = {'loop': vlib.frac_json(prog.duration), 'pieces': vlib.frac_json(sum_pieces(prog))}
                try:
                    out['prog']['wf'] = vlib.frac_json(to_waveform(prog).duration)
                except (ValueError, AssertionError) as e:
                    out['prog']['wf'] = None
                    out['prog']['wf_exc'] = '%s: %s' % (type(e).__name__, str(e)[:100])
                if case.get('mc'):
                    out['mc'] = run_make_compatible(prog, case['mc'])
                return out
        except vlib.Timeout:
            return {'hang': True}
        except Exception as e:
            return {'crash': '%s: %s' % (type(e).__name__, e)}


# ---------------------------------------------------------------------------------------------------------------------
# Gallina printers

def names_of(case):
    acc = set(case['params'])

    def ev(e):
        if e is None:
            return
        if 'var' in e:
            acc.add(e['var'])
        for key in ('a', 'b'):
            if key in e:
                ev(e[key])

    def walk(t):
        for key in ('d', 'count', 'start', 'stop', 'step', 'declared'):
            if t.get(key) is not None:
                ev(t[key])
        if t['t'] == 'table':
            for ts in t['chans'].values():
                for e in ts:
                    ev(e)
        if t['t'] == 'point':
            for e in t['times']:
                ev(e)
        if t['t'] == 'for':
            acc.add(t['idx'])
        if t['t'] == 'map':
            for x, e in t['m'].items():
                acc.add(x)
                ev(e)
        for lr in t.get('cs', []):
            ev(lr[0])
            ev(lr[1])
        for c in t.get('subs', []):
            walk(c)
        for key in ('body', 'lhs', 'rhs'):
            if key in t:
                walk(t[key])
    walk(case['tpl'])
    return {n: i for i, n in enumerate(sorted(acc))}


def g_value(p):
    if p['ty'] in ('int', 'npint', 'npuint'):
        return '(VInt %s)' % gZ(int(p['v']))
    if p['ty'] == 'time':
        return '(VTime %s)' % gQ(F(p['v']))
    if p['ty'] in ('frac', 'mpq'):
        return '(VBad %s)' % gQ(F(p['v']))
    x = float.fromhex(p['v'])
    return '(VFloat %s %s)' % (gQ(F(x)), gQ(F(repr(x))))


def g_expr(e, ids):
    if 'lit' in e:
        return '(ELit (VInt %s))' % gZ(e['lit'])
    if 'flit' in e:
        x = float(e['flit'])
        return '(ELit (VFloat %s %s))' % (gQ(F(x)), gQ(F(repr(x))))
    if 'var' in e:
        return '(EVar %d%%N)' % ids[e['var']]
    if e['op'] == 'divk':
        return '(EDivK %s %d%%positive)' % (g_expr(e['a'], ids), e['k'])
    return '(%s %s %s)' % ({'add': 'EAdd', 'sub': 'ESub', 'mul': 'EMul', 'max': 'EMax'}[e['op']], g_expr(e['a'], ids),
                           g_expr(e['b'], ids))


def channels_of(t):
    k = t['t']
    if k == 'const':
        return set(t['v'])
    if k in ('func', 'point'):
        return set(t['ch'])
    if k == 'table':
        return set(t['chans'])
    if k in ('seq', 'multi'):
        return set().union(*[channels_of(c) for c in t['subs']])
    if k == 'arith':
        return channels_of(t['lhs']) | channels_of(t['rhs'])
    if k == 'map' and t.get('cm'):
        return {t['cm'].get(c, c) for c in channels_of(t['body'])} - {None}
    return channels_of(t['body'])


def all_channel_names(case):
    """every channel name of the case (atoms, sources and targets of channel mappings); the model numbers them in
    their sort order (qupulse sorts the parts of a parallel waveform by channel name)"""
    acc = set()

    def walk(t):
        k = t['t']
        if k == 'const':
            acc.update(t['v'])
        elif k in ('func', 'point'):
            acc.update(t['ch'])
        elif k == 'table':
            acc.update(t['chans'])
        for a, b in (t.get('cm') or {}).items():
            acc.add(a)
            if b is not None:
                acc.add(b)
        for c in t.get('subs', []):
            walk(c)
        for key in ('body', 'lhs', 'rhs'):
            if key in t:
                walk(t[key])
    walk(c04_spec.root_tpl(case))
    return {n: i for i, n in enumerate(sorted(acc))}


def g_cm(cm, cids):
    return vlib.glist(lambda ab: '(%s, %s)' % (gZ(cids[ab[0]]), 'None' if ab[1] is None else '(Some %s)' % gZ(cids[ab[1]])),
                      sorted((cm or {}).items()))


def g_pt(t, ids, cids):
    k = t['t']
    chl = lambda names: vlib.glist(lambda c: '(Some %s)' % gZ(cids[c]), names)
    if k == 'const':
        return '(PAtom KConst %s %s)' % (chl(list(t['v'])), g_expr(t['d'], ids))
    if k == 'func':
        return '(PAtom KFunc %s %s)' % (chl(t['ch']), g_expr(t['d'], ids))
    if k == 'table':
        return '(PTable %s)' % vlib.glist(lambda c: '(Some %s, %s)' % (gZ(cids[c]), vlib.glist(lambda e: g_expr(e, ids), t['chans'][c])),
                                          list(t['chans']))
    if k == 'point':
        times = vlib.glist(lambda e: g_expr(e, ids), t['times'])
        return '(PTable %s)' % vlib.glist(lambda c: '(Some %s, %s)' % (gZ(cids[c]), times), t['ch'])
    if k == 'seq':
        return '(PSeq %s)' % vlib.glist(lambda c: g_pt(c, ids, cids), t['subs'])
    if k == 'rep':
        return '(PRep %s %s)' % (g_expr(t['count'], ids), g_pt(t['body'], ids, cids))
    if k == 'for':
        return '(PFor %d%%N %s %s %s %s)' % (ids[t['idx']], g_expr(t['start'], ids), g_expr(t['stop'], ids),
                                             g_expr(t['step'], ids), g_pt(t['body'], ids, cids))
    if k == 'map':
        return '(PMap %s %s %s)' % (vlib.glist(lambda xe: '(%d%%N, %s)' % (ids[xe[0]], g_expr(xe[1], ids)), list(t['m'].items())),
                                    g_cm(t.get('cm'), cids), g_pt(t['body'], ids, cids))
    if k == 'multi':
        d = t.get('declared')
        return '(PMulti %s %s)' % ('None' if d is None else '(Some %s)' % g_expr(d, ids),
                                   vlib.glist(lambda c: g_pt(c, ids, cids), t['subs']))
    if k == 'arith':
        return '(PArith %s %s)' % (g_pt(t['lhs'], ids, cids), g_pt(t['rhs'], ids, cids))
    if k == 'wrap':
        return '(PWrap %s)' % g_pt(t['body'], ids, cids)
    if k == 'rev':
        return '(PRev %s)' % g_pt(t['body'], ids, cids)
    if k == 'constr':
        return '(PConstr %s %s)' % (vlib.glist(lambda lr: '(%s, %s)' % (g_expr(lr[0], ids), g_expr(lr[1], ids)), t['cs']),
                                    g_pt(t['body'], ids, cids))
    if k == 'single':
        return '(PSingle %s)' % g_pt(t['body'], ids, cids)
    raise ValueError(k)


def to_coq(case, obs):
    if 'crash' in obs or 'hang' in obs:
        return 'CCrash'
    if case['kind'] == 'range':
        return '(CRange %s %s %s %s)' % (gZ(case['a']), gZ(case['b']), gZ(case['s']), vlib.glist(gZ, obs['range']))
    ids = names_of(case)
    env = vlib.glist(lambda kv: '(%d%%N, %s)' % (ids[kv[0]], g_value(kv[1])), sorted(case['params'].items()))
    sym = 'None' if obs.get('sym') is None else '(Some %s)' % gQ(F(obs['sym']))
    pr = obs['prog']
    if pr is None:
        prog = 'INone'
    elif 'err' in pr:
        prog = '(IErr %s)' % ('XMissing' if pr['err'] == 'missing' else 'XValue')
    else:
        prog = '(IProg %s %s %s)' % (gQ(F(pr['loop'])), 'None' if pr['wf'] is None else '(Some %s)' % gQ(F(pr['wf'])),
                                     gQ(F(pr['pieces'])))
    head = 'CTwin %s' % vlib.gbool(bool(case.get('twin_sym'))) if case.get('twin') else 'CTpl'
    return '(%s %s %s %s %s)' % (head, g_pt(c04_spec.root_tpl(case), ids, all_channel_names(case)), env, sym, prog)


# ---------------------------------------------------------------------------------------------------------------------
# evidence helpers / classification

def nontrivial(case, obs):
    if case['kind'] == 'range':
        return bool(obs.get('range'))
    return depth_of(case['tpl']) >= 2


def histogram_keys(case, obs):
    if case['kind'] == 'range':
        return ['range', 'range:empty' if not obs.get('range') else 'range:len=%s' % min(len(obs['range']), 5),
                'range:step%s' % ('+' if case['s'] > 0 else '-')]
    keys = ['tpl', 'style:' + case['style'], 'depth:%d' % depth_of(case['tpl'])]
    keys += ['family:' + case['family']] if case.get('family') else []
    keys += ['extra:' + x for x in ('rootmap', 'cpmap', 'volatile', 'mc', 'alias', 'parch') if case.get(x)]
    keys += ['twin:' + case['twin']] if case.get('twin') else []
    if '"meas"' in __import__('json').dumps(case['tpl']):
        keys.append('extra:measurements')
    keys += sorted({'ptype:' + p['ty'] for p in case['params'].values()})
    keys += ['node:' + k for k in sorted(kinds_of(case['tpl'], set()))]
    sp = c04_spec.spec(case)
    if sp[2]:
        keys.append('excluded_float_arith')
    keys.append('spec:' + (sp[0] if sp[0] == 'ok' else 'undef:' + sp[1]))
    if sp[0] == 'ok':
        keys.append('spec:zero' if sp[1] == 0 else 'spec:positive')
    pr = obs.get('prog', 'crash')
    keys.append('sym_numeric:' + ('exact' if obs.get('sym_num') not in (None, 'float') and not str(obs.get('sym_num')).startswith('exc:') else str(obs.get('sym_num'))))
    keys.append('impl:' + ('crash' if pr == 'crash' else 'none' if pr is None else 'err:' + pr['err'] if 'err' in pr else 'program'))
    return keys


FINDING_OF_REASON = {'neg_count': 'C04-neg-count', 'neg_duration': 'C04-neg-duration',
                     'non_integer': 'C04-near-integer', 'multi_unequal': 'C04-parallel-unequal'}


def py_spec(case, obs):
    """Python-side oracles: (a) make_compatible leaves the durations alone, (b) evaluate_in_scope is exact"""
    if case.get('kind') != 'tpl' or case.get('twin'):
        return None
    return py_spec_mc(case, obs) or py_spec_num(case, obs)


def py_spec_mc(case, obs):
    # make_compatible (renders leaves / whole sub-programs as one waveform) must not change any of the three durations
    pr = obs.get('prog')
    if obs.get('mc') and isinstance(pr, dict) and 'loop' in pr:
        for cfg_, r in zip(case.get('mc', []), obs['mc']):
            if 'err' in r:
                continue
            got = (F(r['loop']), F(r['pieces']), None if r['wf'] is None or pr.get('wf') is None else F(r['wf']))
            want = (F(pr['loop']), F(pr['pieces']), None if got[2] is None else F(pr['wf']))
            if got != want:
                return ('make_compatible(min_len=%s, quantum=%s) changed (Loop.duration, pieces, to_waveform) from %s to %s'
                        % (cfg_[0], cfg_[1], [str(x) for x in want], [str(x) for x in got]))
    return None


def py_spec_num(case, obs):
    """evaluate_in_scope on exact (int / TimeType) arguments must give the exact value of the expression"""
    sn = obs.get('sym_num')
    if sn is None or sn == 'float' or sn.startswith('exc:') or obs.get('sym') is None:
        return None
    import json
    js = json.dumps(case['tpl'])
    sp = c04_spec.spec(case)
    if sp[0] == 'undef' and sp[1] == 'non_integer':
        return None       # a repetition count / range bound that is not an integer (9.5): create_program rejects it, the
                          # template has no duration there and the iteration count floor((stop - start + step - sign/2)/step)
                          # (86f615f) is only meant for integer ranges (at half-integers it sits on an integer)
    if '"flit"' in js or sp[2] or any('"k": %d' % k in js for k in (3, 5)):
        return None       # a float literal / float arithmetic (also the literal 1/3, 1/5 in a branch the specification
                          # never reaches) takes part: sympy's own float arithmetic is not judged
    if F(sn) != F(obs['sym']):
        return 'duration.evaluate_in_scope returned %s on exact arguments, the expression has the value %s' % (sn, obs['sym'])
    return None


def finding_class(case):
    """the known-finding class the INPUT belongs to (decided from the case alone, no observation), or None"""
    if case.get('kind') != 'tpl':
        return None
    sp = c04_spec.spec(case)
    if sp[0] == 'ok':
        if sp[3]:
            return 'C04-all-channels-dropped'
        if sp[4] and has_func_in_parallel(case['tpl']):
            return 'C04-zero-length-function-leaf'
        return None
    if sp[1] == 'non_integer' and not c04_spec.near_integer_input(case):
        return None
    return FINDING_OF_REASON.get(sp[1])


def classify(case, obs):
    """Known-finding class of a case the specification rejects: the reason the template has no meaningful duration at
    an input the implementation nevertheless accepted with contradicting numbers.  For the two classes in which the
    template HAS a duration the observation must be the one the finding describes (round 5); for the four classes
    without a duration the finding's exact numbers are those of the operational model: every input of such a class is
    emitted a second time as a correspondence-only twin (gen_cases / CTwin), so a different behaviour inside the class
    breaks check_corr there."""
    if case.get('kind') != 'tpl' or 'prog' not in obs or case.get('twin'):
        return None
    pr = obs['prog']
    if pr is not None and 'err' in pr:
        return None
    fc = finding_class(case)
    if fc == 'C04-all-channels-dropped':
        # an atomic template none of whose channels is played lasts > 0: the program is consistently shorter, by exactly
        # the not-played atoms; the duration expression keeps the full value
        sp = c04_spec.spec(case)
        played = c04_spec.spec(case, played_only=True)
        if played[0] != 'ok':
            return None
        got = [F(0)] * 3 if pr is None else [F(pr['loop']), None if pr.get('wf') is None else F(pr['wf']), F(pr['pieces'])]
        if got == [played[1]] * 3 and played[1] < sp[1] and (pr is None) == (played[1] == 0) \
                and (obs.get('sym') is None or F(obs['sym']) == sp[1]):
            return fc
        return None
    if fc == 'C04-zero-length-function-leaf':
        # to_waveform raises; template, Loop.duration and the pieces still agree
        sp = c04_spec.spec(case)
        if pr is not None and pr.get('wf', 0) is None and F(pr['loop']) == sp[1] and F(pr['pieces']) == sp[1] \
                and (obs.get('sym') is None or F(obs['sym']) == sp[1]):
            return fc
        return None
    return fc


def index_captured(t, names=frozenset()):
    """a for-loop whose index name occurs in a right hand side of a parameter mapping that encloses the loop"""
    def ev(e):
        if 'var' in e:
            return {e['var']}
        return set().union(*[ev(e[k]) for k in ('a', 'b') if k in e and isinstance(e[k], dict)])
    if t['t'] == 'map' and t['m']:
        names = names | set().union(*[ev(e) for e in t['m'].values()])
    if t['t'] == 'for' and t['idx'] in names:
        return True
    return any(index_captured(c, names) for c in t.get('subs', [])) or \
        any(index_captured(t[key], names) for key in ('body', 'lhs', 'rhs') if key in t)


def for_with_parameter_bound(t):
    if t['t'] == 'for' and any('lit' not in t[k] for k in ('start', 'stop', 'step')):
        return True
    return any(for_with_parameter_bound(c) for c in t.get('subs', [])) or \
        any(for_with_parameter_bound(t[key]) for key in ('body', 'lhs', 'rhs') if key in t)


def has_func_in_parallel(t, inside=False):
    k = t['t']
    if k == 'func':
        return inside
    inside = inside or k in ('multi', 'arith')
    return any(has_func_in_parallel(c, inside) for c in t.get('subs', [])) or \
        any(has_func_in_parallel(t[key], inside) for key in ('body', 'lhs', 'rhs') if key in t)


def _candidates(t):
    """smaller templates: a node replaced by one of its children, a list shortened, a mapping entry removed"""
    for key in ('body', 'lhs', 'rhs'):
        if key in t:
            yield t[key]
            for c in _candidates(t[key]):
                yield {**t, key: c}
    if 'subs' in t:
        for i, c in enumerate(t['subs']):
            yield c
            if len(t['subs']) > 1:
                yield {**t, 'subs': t['subs'][:i] + t['subs'][i + 1:]}
            for c2 in _candidates(c):
                yield {**t, 'subs': t['subs'][:i] + [c2] + t['subs'][i + 1:]}
    if t['t'] == 'map':
        for k in list(t.get('m', {})):
            yield {**t, 'm': {a: b for a, b in t['m'].items() if a != k}}
        for k in list(t.get('cm') or {}):
            yield {**t, 'cm': {a: b for a, b in t['cm'].items() if a != k}}
    if t.get('meas'):
        yield {k: v for k, v in t.items() if k != 'meas'}
    if t['t'] == 'table' and len(t['chans']) > 1:
        for c in t['chans']:
            yield {**t, 'chans': {a: b for a, b in t['chans'].items() if a != c}, 'v': {a: b for a, b in t['v'].items() if a != c},
                   'interp': {a: b for a, b in t['interp'].items() if a != c}}


def _fails(case, obs):
    """Python-side mirror of check_spec (c04_spec.den) for shrinking: does the observation contradict the denoted
    duration (or, where nothing is denoted, itself)?"""
    if 'prog' not in obs:
        return 'crash' in obs
    sp = c04_spec.spec(case)
    if sp[2]:
        return False
    pr = obs['prog']
    if pr is not None and 'err' in pr:
        return False
    got = [F(0)] * 3 if pr is None else [F(pr['loop']), None if pr['wf'] is None else F(pr['wf']), F(pr['pieces'])]
    if sp[0] == 'ok':
        return any(g != sp[1] for g in got) or (obs.get('sym') is not None and F(obs['sym']) != sp[1]) \
            or isinstance(py_spec(case, obs), str)
    return len(set(got)) > 1 or (obs.get('sym') is not None and got[0] != F(obs['sym']))


def shrink(case, obs, ctx=None):
    """greedy structural shrinking of a failing template case: keep a smaller candidate while the implementation's
    observation still contradicts the specification with the same classification"""
    if case.get('kind') != 'tpl' or not _fails(case, obs):
        return case, obs
    want = classify(case, obs)
    budget = 150
    improved = True
    while improved and budget > 0:
        improved = False
        variants = [{**case, 'tpl': t} for t in _candidates(case['tpl'])]
        variants += [{k: v for k, v in case.items() if k != x} for x in ('rootmap', 'cpmap', 'measmap', 'volatile', 'alias', 'mc', 'parch') if x in case]
        for cand in variants:
            budget -= 1
            if budget <= 0:
                break
            if cand.get('rootmap') is None:
                cand.pop('measmap', None)
            used = free_params(cand['tpl'])
            cand = {**cand, 'params': {k: v for k, v in cand['params'].items() if k in used}}
            try:
                o2 = run_impl(cand)
            except Exception:
                continue
            if 'crash' in o2 and 'crash' not in obs:
                continue
            if _fails(cand, o2) and classify(cand, o2) == want:
                case, obs, improved = cand, o2, True
                break
    return case, obs


def search_failing(ctx, broken):
    """Specification (Python mirror of Spec.v) against the implementation on a fresh stream of small templates."""
    import random
    rng = random.Random(12345)
    for i in range(1500):
        style = 'exact' if i % 3 else 'float'
        case = gen_template_case(rng, 'quick', style, rng.choice([1, 2, 2, 3]))
        obs = run_impl(case)
        if 'prog' not in obs:
            continue
        sp = c04_spec.spec(case)
        if sp[2] or sp[0] != 'ok':
            continue
        pr = obs['prog']
        if pr is not None and 'err' in pr:
            continue
        got = [F(0)] * 3 if pr is None else [F(pr['loop']), None if pr['wf'] is None else F(pr['wf']), F(pr['pieces'])]
        if any(g != sp[1] for g in got):
            if classify(case, obs) is not None:
                continue          # a listed finding of the unchanged code, keep searching
            return case, obs, 'the template denotes the duration %s, the program reports loop/waveform/pieces = %s' % (
                sp[1], [str(g) for g in got])
    return None


MANIFEST = {
    'level_text': 'Proof (Coq, unbounded in tree shape, counts, ranges, parameters) about an operational MODEL of the duration '
                  'side of all template kinds (for-loop closed form, per-channel tables, atomic arithmetic, constraints, '
                  'single-waveform rendering, MappingPT with simultaneous substitution and channel mappings threaded to the '
                  'atoms), tied to the code case by case.  Proved in full: C04_symbolic_agrees (every class\'s duration '
                  'expression evaluates to the denoted duration `den`), C04_pieces_sum_is_loop_duration, '
                  'C04_waveform_duration_is_loop_duration + C04_created_programs_wellformed, range closed form for both step '
                  'signs, C04_step_count_forms_agree (code\'s floor form = model\'s ceiling form on integer ranges), the '
                  'expression-level substitution lemma, and (round 5) C04_scope_prog_sound / C04_scope_sym_sound: the '
                  'specification\'s own static scope analysis never judges a case in which the model computes with floats.  '
                  'Round 6: for inputs without any float (every parameter value and every literal an int or a TimeType) the '
                  'code and its decimal reading are the same function (C04_exact_inputs_same_reading), so the reading guard '
                  'g_view is derived from this INPUT condition and C04_agree_exact_inputs / '
                  'C04_program_views_agree_exact_inputs hold without it.  '
                  'Proved under guards: C04_program_views_agree / C04_agree (Loop.duration = single waveform = sum of pieces = '
                  'symbolic duration, empty program <=> 0) under g_view (binary and decimal reading build the same program), '
                  '"no finding class met" and g_uniform (all leaves define the same channels) - g_view (still needed for '
                  'decimals handed over as Python floats) and g_uniform are '
                  'conditions on the model\'s OUTPUT, not input conditions; that to_waveform exists is therefore assumed, '
                  'its value is proved.  One refuting witness per finding class.  Tested only (not proved): that the '
                  'implementation represents ints/decimals exactly and does not accumulate error (the float->decimal '
                  'conversion is an input of the model; C04_no_accumulation is only the identity n*d of the model\'s rational '
                  'arithmetic), the constant-waveform merging paths of to_waveform / to_single_waveform (arithmetic sum in '
                  'the model), make_compatible / cleanup / flatten_and_balance (Python oracle on the observation), '
                  'duration.evaluate_in_scope (Python oracle), numpy parameter types, ParallelChannelPT.  The guard for "all '
                  'channels dropped" fires at every such atom, also a harmless dropped part of a parallel composition.',
    'level_note': 'Trusted: Coq kernel, sympy as the oracle for the exact value of the closed forms (compared case by case), '
                  'shortest-decimal float conversion (C14), harness.  check_spec uses Spec.v only (den, scope_prog, scope_sym, '
                  'zero_step).  Binary float arithmetic inside duration expressions is outside the property and not judged '
                  '(counted as excluded_float_arith); isclose is modelled on exact rationals.  Inputs inside a known-finding '
                  'class are additionally judged by the model alone (twins).',
    'technique': 'Coq proof by induction over template/program trees (simulation between the code model and its guarded '
                 'variant) + correspondence check (model and specification evaluated in coqc on the implementation\'s '
                 'observations)',
    'design_ref': 'DESIGN.md §5 C04',
}
