"""C05: Python mirror of the specification on observations (Corr.v: check_spec), used only to SEARCH for a failing input
when an obligation breaks and to SHRINK a failing case before it is written as a replay.  The verdict of a run never
comes from here: it comes from check_spec evaluated in Coq."""
import copy
import fractions
import random

from props import c05_impl as I

F = fractions.Fraction


def _val(x):
    return None if x is None else F(x)


def apply_trafo(t, data):
    """Transformation.__call__ on one time slice {channel: Fraction | None(NaN)}; raises KeyError when the
    transformation is not applicable (a LinearTransformation that finds only some of its inputs)"""
    k = t['k']
    if k == 'identity':
        return dict(data)
    if k == 'chain':
        for x in t['ts']:
            data = apply_trafo(x, data)
        return data
    if k == 'offset':
        return {c: (None if v is None else v + F(t['m'][c])) if c in t['m'] else v for c, v in data.items()}
    if k == 'scale':
        return {c: (None if v is None else v * F(t['m'][c])) if c in t['m'] else v for c, v in data.items()}
    if k == 'parallel':
        out = dict(data)
        out.update({c: F(v) for c, v in t['m'].items()})
        return out
    if k == 'linear':
        fwd = {c: v for c, v in data.items() if c not in t['ins']}
        if len(fwd) == len(data):
            return fwd
        if not set(t['ins']) <= set(data):
            raise KeyError('Invalid input channels')
        for o, row in zip(t['outs'], t['mat']):
            vals = [data[c] for c in t['ins']]
            fwd[o] = None if any(v is None for v in vals) else sum(F(a) * v for a, v in zip(row, vals))
        return fwd
    raise ValueError(k)


def same_obs(a, b):
    if a.get('none') or b.get('none'):
        return bool(a.get('none')) and bool(b.get('none'))
    if a.get('raise') or b.get('raise'):
        return False
    return (F(a['dur']) == F(b['dur']) and a['chans'] == b['chans'] and a['windows'] == b['windows'] and
            all([_val(x) for x in a['samples'][c]] == [_val(x) for x in b['samples'][c]] for c in a['chans']))


def py_fails(case, obs):
    """reason why the observation contradicts the property, or None"""
    if 'crash' in obs or 'hang' in obs:
        return 'the implementation crashed: %s' % (obs.get('crash') or 'hang')
    if case['kind'] == 'ctor':
        o1, o2 = obs['o1'], obs['o2']
        if o1.get('raise') or o2.get('raise'):
            return 'a compilation raised'
        if not same_obs(o1, o2):
            return 'the constructor result and the explicit nesting play different pulses'
        if not o1.get('none') and any(v is None for l in o1['samples'].values() for v in l):
            return 'NaN sample'
        return None
    plain, opt = obs['plain'], obs['opt']
    if plain.get('raise'):
        return 'the plain compilation raised'
    if opt.get('raise'):
        return 'the compilation with options raised %s' % opt['raise']
    if plain.get('none') or opt.get('none'):
        return None if plain.get('none') and opt.get('none') else 'one of the two programs is None'
    if F(plain['dur']) != F(opt['dur']):
        return 'durations differ'
    if plain['windows'] != opt['windows']:
        return 'measurement windows differ'
    n = len(next(iter(plain['samples'].values()))) if plain['samples'] else 0
    G = case.get('G')
    for k in range(n):
        data = {c: _val(plain['samples'][c][k]) for c in plain['chans']}
        try:
            want = apply_trafo(G, data) if G else data
        except KeyError:
            return 'the global transformation is not applicable to the plain output'
        if sorted(want) != sorted(opt['chans']):
            return 'channels %s, expected %s' % (sorted(opt['chans']), sorted(want))
        for c, v in want.items():
            got = _val(opt['samples'][c][k])
            if got is None or got != v:
                return 'channel %s tick %d: played %s, T(plain) = %s' % (c, k, got, v)
    return None


def _opt_candidates(case):
    tree = case['tree']
    for p in I.all_paths(tree):
        if p:
            sub = I.node_at(tree, p)
            S = [s for s in case['S'] if s['by'] == 'name']
            yield dict(case, tree=sub, S=S)
    for i in range(len(case['S'])):
        yield dict(case, S=case['S'][:i] + case['S'][i + 1:])
    if case.get('G'):
        yield dict(case, G=None)
        if case['G']['k'] == 'chain':
            for t in case['G']['ts']:
                yield dict(case, G=t)
    for f in ('share', 'reuse', 'cp'):
        if case.get(f):
            yield {k: v for k, v in case.items() if k != f}


def _ctor_candidates(case):
    if case.get('op') == 'script':
        for i, st in enumerate(case['steps']):
            if st[0] == 'query':
                yield dict(case, steps=case['steps'][:i] + case['steps'][i + 1:])
        if case.get('same'):
            yield dict(case, same=None)


def shrink(mod, case, obs, ctx=None):
    """greedy shrinking: keep a smaller case while the implementation still contradicts the property with the same
    classification"""
    why = py_fails(case, obs)
    if why is None:
        return case, obs
    want = mod.classify(case, obs)
    budget = 120
    improved = True
    while improved and budget > 0:
        improved = False
        cands = _opt_candidates(case) if case['kind'] == 'opt' else _ctor_candidates(case)
        for cand in cands:
            budget -= 1
            if budget <= 0:
                break
            cand = copy.deepcopy(cand)
            try:
                if cand['kind'] == 'opt':
                    names = mod.free_names(cand['tree'])
                    if names - set(cand.get('params') or {}):
                        continue
                o2 = mod.run_impl(cand)
            except Exception:
                continue
            if ('crash' in o2 or 'hang' in o2) and not ('crash' in obs or 'hang' in obs):
                continue
            if py_fails(cand, o2) is not None and mod.classify(cand, o2) == want:
                case, obs, improved = cand, o2, True
                break
    return case, obs


def search_failing(mod, ctx, broken):
    """fresh stream of cases (other random seed than the run) against the Python mirror of the specification; returns
    (case, observation, reason) of the first input on which the property itself fails and that is not a listed finding"""
    rng = random.Random(12345 + int((ctx or {}).get('seed', 0)))
    stream = []
    near = (ctx or {}).get('near')
    if near is not None:
        stream.append(near)
        stream += list(_opt_candidates(near) if near.get('kind') == 'opt' else _ctor_candidates(near))
    stream += mod.fixed_cases()
    stream += mod.gen_ctor_cases(rng, 120)
    stream += mod.gen_receiver_cases(rng)
    stream += mod.gen_script_cases(rng, 90)
    stream += mod.gen_shape_cases(rng, 60)
    stream += mod.gen_rebind_cases(rng, 45)
    stream += mod.gen_opt_cases(rng, 120, 3, 3)
    known = {'collapsed_inside_reversal', 'parallel_channel_before_global_transformation',
             'linear_after_parallel_partial_inputs', 'linear_inputs_absent'}
    for case in stream:
        try:
            obs = mod.run_impl(case)
        except Exception:
            continue
        why = py_fails(case, obs)
        if why is not None and mod.classify(case, obs) not in known:
            return case, obs, why
    return None
