"""C04 helper: Python mirror of coq/C04/Spec.v (`den`) with exact Fractions, used for classification of failing cases,
for the input-distribution histogram (`excluded_float_arith`) and as the oracle of search_failing.  The judging oracle of
the check itself is `check_spec` evaluated inside Coq; this mirror never replaces it.

Case format (JSON): template tree `tpl`, parameters `params` {name: {'ty': 'int'|'time'|'float'|'npint'|'npuint'|'npfloat'|'frac'|'mpq', 'v': str}}.
Expressions: {'lit': int} | {'flit': 'decimal string'} | {'var': name} | {'op': 'add'|'sub'|'mul'|'max', 'a':, 'b':}
             | {'op': 'divk', 'a':, 'k': int}
"""
import fractions
import math

F = fractions.Fraction


class Undefined(Exception):
    """den = None; .reason names why"""
    def __init__(self, reason):
        super().__init__(reason)
        self.reason = reason


def param_value(p):
    """-> (tag, value used as a time, value used in comparisons)"""
    if p['ty'] in ('int', 'npint', 'npuint'):        # numpy.int64 / numpy.uint8 scalars
        v = F(int(p['v']))
        return ('int', v, v)
    if p['ty'] in ('time', 'frac', 'mpq'):
        v = F(p['v'])
        return ('time', v, v)
    x = float.fromhex(p['v'])
    return ('float', F(repr(x)), F(x))


class Walker:
    """Evaluates expressions exactly on the decimal values and tracks whether binary float arithmetic would take part
    (mirrors Model.v `arith`/`vdivk`/`vmax`)."""

    def __init__(self, played_only=False):
        self.inexact = False
        self.dropped_atomic = False     # an atomic template none of whose channels is played, with a positive duration
        self.played_only = played_only  # an atomic template none of whose channels is played counts as 0 (what the code
                                        # plays under finding C04-all-channels-dropped)
        self.par_depth = 0              # inside how many parallel compositions (multi / arith)
        self.zero_func_parallel = False  # a FunctionPT of duration 0 as a part of a parallel composition

    def ev(self, x, env):
        """-> (tag, q)   tag in int/time/float/inexact"""
        if 'lit' in x:
            return ('int', F(int(x['lit'])))
        if 'flit' in x:
            return ('float', F(x['flit']))
        if 'var' in x:
            if x['var'] not in env:
                raise Undefined('missing')
            return env[x['var']]
        op = x['op']
        ta, a = self.ev(x['a'], env)
        if op == 'divk':
            k = int(x['k'])
            tag = 'time' if (ta == 'time' and k in (2, 4, 8)) else 'inexact'
            return (tag, a / k)
        tb, b = self.ev(x['b'], env)
        if 'float' in (ta, tb) or 'inexact' in (ta, tb):
            tag = 'inexact'
        elif op == 'max':
            tag = tb if a <= b else ta
        elif ta == 'int' and tb == 'int':
            tag = 'int'
        else:
            tag = 'time'
        val = {'add': a + b, 'sub': a - b, 'mul': a * b, 'max': max(a, b)}[op]
        return (tag, val)

    def q(self, x, env):
        tag, v = self.ev(x, env)
        if tag == 'inexact':
            self.inexact = True
        return v

    def qint(self, x, env):
        v = self.q(x, env)
        if v.denominator != 1:
            raise Undefined('non_integer')
        return int(v)

    def kept(self, t, f):
        """does any channel of this (atomic) template survive the channel mapping f (name -> name | None)?"""
        k = t['t']
        if k == 'const':
            return any(f(c) is not None for c in t['v'])
        if k in ('func', 'point'):
            return any(f(c) is not None for c in t['ch'])
        if k == 'table':
            return any(f(c) is not None for c in t['chans'])
        if k == 'map':
            return self.kept(t['body'], compose_cm(f, t.get('cm')))
        if k == 'multi':
            return any(self.kept(c, f) for c in t['subs'])
        if k == 'arith':
            return self.kept(t['lhs'], f) or self.kept(t['rhs'], f)
        return self.kept(t['body'], f)

    def den(self, t, env, f=None, atomic=False):
        """the denoted duration (channel mappings play no role in it); f = the channel mapping received from outside,
        used only to record which atomic templates are not played at all (`dropped_atomic`) and which parallel parts
        escape the code's duration comparison"""
        f = f or (lambda c: c)
        if not atomic and t['t'] in ('const', 'func', 'table', 'point', 'multi', 'arith'):
            d = self.den(t, env, f, atomic=True)
            if d > 0 and not self.kept(t, f):
                self.dropped_atomic = True
                if self.played_only:
                    return F(0)
            return d
        k = t['t']
        if k in ('const', 'func'):
            d = self.q(t['d'], env)
            if d < 0:
                raise Undefined('neg_duration')
            if k == 'func' and d == 0 and self.par_depth > 0:
                self.zero_func_parallel = True
            return d
        if k in ('table', 'point'):
            chans = list(t['chans'].values()) if k == 'table' else [t['times']]
            lasts = []
            for ts in chans:
                vs = [self.q(e, env) for e in ts]
                if not vs or vs[0] < 0 or any(a > b for a, b in zip(vs, vs[1:])):
                    raise Undefined('table_invalid')
                lasts.append(vs[-1])
            return max(lasts)
        if k == 'seq':
            return sum((self.den(c, env, f) for c in t['subs']), F(0))
        if k == 'rep':
            n = self.qint(t['count'], env)
            if n < 0:
                raise Undefined('neg_count')
            if n == 0:
                return F(0)
            return n * self.den(t['body'], env, f)
        if k == 'for':
            a = self.qint(t['start'], env)
            b = self.qint(t['stop'], env)
            s = self.qint(t['step'], env)
            if s == 0:
                raise Undefined('zero_step')
            tot = F(0)
            for v in range(a, b, s):
                env2 = dict(env)
                env2[t['idx']] = ('int', F(v))
                tot += self.den(t['body'], env2, f)
            return tot
        if k == 'map':
            env2 = dict(env)
            for name, e in t['m'].items():
                tag, v = self.ev(e, env)
                env2[name] = (tag, v)
            return self.den(t['body'], env2, compose_cm(f, t.get('cm')), atomic)
        if k == 'multi':
            self.par_depth += 1
            try:
                ds = [self.den(c, env, f, True) for c in t['subs']]
            finally:
                self.par_depth -= 1
            played = [self.kept(c, f) for c in t['subs']]
            if t.get('declared') is not None:
                ds = ds + [self.q(t['declared'], env)]
                played = played + [True]
            if any(d != ds[0] for d in ds):
                raise Undefined(unequal_class(ds, played))
            return ds[0]
        if k == 'arith':
            self.par_depth += 1
            try:
                dl, dr = self.den(t['lhs'], env, f, True), self.den(t['rhs'], env, f, True)
            finally:
                self.par_depth -= 1
            if dl == dr or dr == 0:
                return dl
            if dl == 0:
                return dr
            raise Undefined(unequal_class([dl, dr], [self.kept(t['lhs'], f), self.kept(t['rhs'], f)]))
        if k in ('wrap', 'rev', 'constr', 'single'):
            return self.den(t['body'], env, f, atomic)
        raise ValueError(k)


def compose_cm(f, cm):
    """MappingPT.get_updated_channel_mapping: inner name -> what the outer mapping f makes of its image"""
    if not cm:
        return f
    return lambda c: (None if cm[c] is None else f(cm[c])) if c in cm else f(c)


def unequal_class(ds, played=None):
    """parallel parts of different duration: 'multi_unequal' when the implementation is known to let them through (a
    part of duration 0 or a part all of whose channels are dropped yields no waveform; isclose() passes differences
    below 1e-9 relative), else 'multi_unequal_far'"""
    played = played or [True] * len(ds)
    nz = [d for d, k in zip(ds, played) if d != 0 and k]
    if len(nz) < len(ds) or all(abs(a - nz[0]) <= F(1, 10 ** 9) * max(abs(a), abs(nz[0])) for a in nz):
        return 'multi_unequal'
    return 'multi_unequal_far'


def _add(a, b):
    """a + b as sympy builds it for table concatenate: adding the literal 0 is no arithmetic"""
    if a == {'lit': 0}:
        return b
    if b == {'lit': 0}:
        return a
    return {'op': 'add', 'a': a, 'b': b}


def _table_duration(t):
    lasts = [ts[-1] for ts in t['chans'].values()]
    d = lasts[0]
    for x in lasts[1:]:
        d = {'op': 'max', 'a': d, 'b': x}
    return d


def normalize(t):
    """the template as the implementation really builds it: `seq` via table `concatenate` is ONE table whose entry times
    are the parts' entry times shifted by the accumulated duration (duration + t as EXPRESSIONS: with float parameters
    this is float arithmetic inside the template, which the specification does not judge; round 5, thorough tier:
    concatenate(r, r, r) with t_r = 0.7 lasts 3*0.7 = 2.0999999999999996 in binary floating point)"""
    if isinstance(t, list):
        return [normalize(x) for x in t]
    if not isinstance(t, dict):
        return t
    if t.get('t') == 'seq' and t.get('via') == 'tconcat' and all(c['t'] == 'table' for c in t['subs']):
        first = t['subs'][0]
        chans = {c: [] for c in first['chans']}
        dur = {'lit': 0}
        for part in t['subs']:
            for c, ts in part['chans'].items():
                chans[c].extend(_add(dur, x) for x in ts)
            dur = _add(dur, _table_duration(part))
        out = {k: v for k, v in first.items() if k not in ('chans', 'v', 'interp')}
        out.update({'t': 'table', 'chans': chans, 'v': {c: [0] * len(ts) for c, ts in chans.items()},
                    'interp': {c: ['hold'] * len(ts) for c, ts in chans.items()}})
        if t.get('meas'):
            out['meas'] = t['meas']
        return out
    return {k: normalize(v) if k not in ('m', 'cm', 'cs', 'meas', 'v', 'interp') else v for k, v in t.items()}


def root_tpl(case):
    """the template with the root MappingPT / create_program channel mappings as explicit mapping nodes (and table
    concatenations as the one table they are)"""
    t = normalize(case['tpl'])
    if case.get('rootmap'):
        t = {'t': 'map', 'm': {}, 'cm': dict(case['rootmap']), 'body': t}
    if case.get('cpmap'):
        t = {'t': 'map', 'm': {}, 'cm': dict(case['cpmap']), 'body': t}
    return t


def spec(case, played_only=False):
    """-> ('ok', Fraction, inexact, dropped_atomic, zero_func_parallel) | ('undef', reason, inexact)
    played_only: atomic templates none of whose channels is played count as 0"""
    env = {}
    for name, p in case['params'].items():
        tag, tv, _ = param_value(p)
        env[name] = (tag, tv)
    w = Walker(played_only)
    try:
        d = w.den(root_tpl(case), env)
        return ('ok', d, w.inexact, w.dropped_atomic, w.zero_func_parallel)
    except Undefined as u:
        return ('undef', u.reason, w.inexact)


def near_integer_input(case):
    """some parameter is a non-integer within 1e-6 of an integer (checked_int_cast rounds it)"""
    for p in case['params'].values():
        _, tv, _ = param_value(p)
        if tv.denominator != 1 and abs(tv - round(tv)) <= F(1, 10 ** 6):
            return True
    return False
