"""C05 helpers: build real qupulse templates / transformations from the JSON case description, run create_program with
and without the options, and observe what is played (leaf walk), the measurement windows and the duration.

JSON tree nodes (all numbers are strings of exact fractions; a number may also be an affine expression
[const, name1, coefficient1, name2, coefficient2, ...] = const + sum name_j*coefficient_j over loop indices ('i','j','l')
and top-level parameters ('p','q'); names are resolved by the scope that reaches the node):
  {'k':'const','id':name|None,'dur':num,'vals':{ch:num},'meas':[[name,begin,len]]}
  {'k':'table','id':..,'entries':{ch:[[t,v,'hold'|'linear'|'jump'],...]},'meas':[...]}
  {'k':'func','id':..,'ch':ch,'dur':num,'a':num,'b':num,'meas':[...]}      FunctionPT('a*t + b', dur, ch); a, b per real time
  {'k':'amc','id':..,'meas':[...],'subs':[atom nodes on disjoint channels, same duration]}   AtomicMultiChannelPT
  {'k':'seq','id':..,'meas':[...],'subs':[node...]}
  {'k':'rep','id':..,'meas':[...],'n':int | affine expression of TOP-LEVEL parameters (family exprattr),'body':node}
  {'k':'for','id':..,'meas':[...],'idx':'i','range':[a,b,s],'body':node}
  {'k':'map','id':..,'chmap':{inner:outer},'mmap':{inner_name:outer_name} (optional),
   'pmap':{inner_parameter: number|expression over the OUTER names} (optional; may rebind a name to an expression of
   itself, swap two names, ...),'sub':node}
  {'k':'par','id':..,'ov':{ch:num},'sub':node}
  {'k':'arith','id':..,'op':'+'|'-'|'*'|'/','side':'l'|'r','scalar':num|{ch:num},'sub':node}   side = where the PT stands
  {'k':'rev','id':..,'sub':node}
Transformations:
  {'k':'offset','m':{ch:num}} {'k':'scale','m':{ch:num}} {'k':'parallel','m':{ch:num}}
  {'k':'linear','ins':[..],'outs':[..],'mat':[[num..]..]}  {'k':'chain','ts':[...]}  {'k':'identity'}
"""
import fractions
import warnings

import vlib

F = fractions.Fraction


def terms(x):
    """[(name, coefficient)] of a JSON number"""
    return [(x[i], F(x[i + 1])) for i in range(1, len(x), 2)] if isinstance(x, list) else []


def num(x, env=None):
    """exact value of a JSON number under the environment name -> value (harness-side evaluation: used for budget and
    validity checks of generated cases only, never for the comparison)"""
    if isinstance(x, list):
        return F(x[0]) + sum(F((env or {})[n]) * k for n, k in terms(x))
    return F(x)


def map_env(node, env):
    """environment below a MappingPT node: mapped names evaluated in the outer environment, others pass through"""
    pm = node.get('pmap') or {}
    if not pm:
        return env
    return dict(env or {}, **{k: num(e, env) for k, e in pm.items()})


def _py(x):
    """exact fraction -> python number handed to qupulse (int when integral, else float; dyadic => exact)"""
    f = F(x)
    if f.denominator == 1:
        return int(f)
    v = f.numerator / f.denominator
    assert F(v) == f, 'non-dyadic value %s' % f
    return v


def _expr(x):
    """JSON number -> what is written into the template (number or expression string with the loop index)"""
    if isinstance(x, list):
        return '%r' % _py(x[0]) + ''.join(' + %s*(%r)' % (n, _py(k)) for n, k in terms(x))
    return _py(x)


def children(node):
    k = node['k']
    if k == 'seq':
        return list(node['subs'])
    if k in ('rep', 'for'):
        return [node['body']]
    if k in ('map', 'par', 'arith', 'rev'):
        return [node['sub']]
    return []


def node_at(tree, path):
    n = tree
    for i in path:
        n = children(n)[i]
    return n


def all_paths(tree, prefix=()):
    out = [list(prefix)]
    for i, c in enumerate(children(tree)):
        out.extend(all_paths(c, tuple(prefix) + (i,)))
    return out


def build_pt(node, objs=None, path=(), share=None):
    """real template for the JSON node; objs (dict path-tuple -> template object) is filled when given; share (dict)
    makes structurally equal sub-trees ONE template object (aliasing: the same object in several places)"""
    if share is not None:
        import json
        key = json.dumps(node, sort_keys=True)
        if key in share:
            _fill_objs(node, share[key], objs, path)
            return share[key][()]
        local = {}
        pt = _build_pt(node, local, (), share)
        share[key] = local
        _fill_objs(node, local, objs, path)
        return pt
    return _build_pt(node, objs, path, None)


def _fill_objs(node, local, objs, path):
    if objs is not None:
        for p, o in local.items():
            objs[tuple(path) + tuple(p)] = o


def _build_pt(node, objs=None, path=(), share=None):
    from qupulse.pulses import (ConstantPT, TablePT, SequencePT, RepetitionPT, ForLoopPT, MappingPT, TimeReversalPT,
                                ParallelChannelPT, ArithmeticPT)
    k = node['k']
    ident = node.get('id')
    meas = [(m[0], _expr(m[1]), _expr(m[2])) for m in node.get('meas', [])] or None
    sub = lambda key, i=0: build_pt(node[key], objs, tuple(path) + (i,), share)
    if k == 'const':
        pt = ConstantPT(_expr(node['dur']), {c: _expr(v) for c, v in node['vals'].items()}, identifier=ident,
                        measurements=meas)
    elif k == 'table':
        pt = TablePT({c: [(_expr(t), _expr(v), ip) for t, v, ip in es] for c, es in node['entries'].items()},
                     identifier=ident, measurements=meas)
    elif k == 'func':
        from qupulse.pulses import FunctionPT
        pt = FunctionPT('(%r)*t + (%s)' % (_py(node['a']), _expr(node['b'])), _expr(node['dur']), channel=node['ch'],
                        identifier=ident, measurements=meas)
    elif k == 'amc':
        from qupulse.pulses import AtomicMultiChannelPT
        pt = AtomicMultiChannelPT(*[build_pt(s) for s in node['subs']], identifier=ident, measurements=meas)
    elif k == 'seq':
        pt = SequencePT(*[build_pt(s, objs, tuple(path) + (i,), share) for i, s in enumerate(node['subs'])],
                        identifier=ident, measurements=meas)
    elif k == 'rep':
        # (round 6: the count may be an affine expression of top-level parameters, written like every other expression)
        pt = RepetitionPT(sub('body'), str(_expr(node['n'])) if isinstance(node['n'], list) else node['n'],
                          identifier=ident, measurements=meas)
    elif k == 'for':
        pt = ForLoopPT(sub('body'), node['idx'], tuple(node['range']), identifier=ident, measurements=meas)
    elif k == 'map':
        pt = MappingPT(sub('sub'), channel_mapping=dict(node['chmap']), identifier=ident,
                       measurement_mapping=dict(node['mmap']) if node.get('mmap') else None,
                       parameter_mapping={k: str(_expr(e)) for k, e in node['pmap'].items()} if node.get('pmap') else None,
                       allow_partial_parameter_mapping=True)
    elif k == 'par':
        pt = ParallelChannelPT(sub('sub'), {c: _expr(v) for c, v in node['ov'].items()}, identifier=ident)
    elif k == 'arith':
        sc = node['scalar']
        sc = {c: _expr(v) for c, v in sc.items()} if isinstance(sc, dict) else _expr(sc)
        inner = sub('sub')
        pt = ArithmeticPT(inner, node['op'], sc, identifier=ident) if node['side'] == 'l' else \
            ArithmeticPT(sc, node['op'], inner, identifier=ident)
    elif k == 'rev':
        pt = TimeReversalPT(sub('sub'), identifier=ident)
    else:
        raise ValueError(k)
    if objs is not None:
        objs[tuple(path)] = pt
    return pt


def build_trafo(t):
    import numpy as np
    from qupulse.program.transformation import (OffsetTransformation, ScalingTransformation, LinearTransformation,
                                                ParallelChannelTransformation, chain_transformations)
    if t is None:
        return None
    k = t['k']
    if k == 'identity':
        from qupulse.program.transformation import IdentityTransformation
        return IdentityTransformation()
    if k == 'offset':
        return OffsetTransformation({c: _py(v) for c, v in t['m'].items()})
    if k == 'scale':
        return ScalingTransformation({c: _py(v) for c, v in t['m'].items()})
    if k == 'parallel':
        return ParallelChannelTransformation({c: _py(v) for c, v in t['m'].items()})
    if k == 'linear':
        return LinearTransformation(np.array([[float(_py(x)) for x in row] for row in t['mat']]), t['ins'], t['outs'])
    if k == 'chain':
        return chain_transformations(*[build_trafo(x) for x in t['ts']])
    raise ValueError(k)


def _leaves(loop, start, out):
    """(start, waveform) for every played leaf, repetitions unrolled; returns the end time"""
    for _ in range(loop.repetition_count):
        if loop.is_leaf():
            out.append((start, loop.waveform))
            start = start + vlib.to_fraction(loop.waveform.duration)
        else:
            for ch in loop:
                start = _leaves(ch, start, out)
    return start


def observe(program, step, into_array=False):
    """what the program plays on the grid k*step in [0, duration), by walking the leaves in playback order and
    sampling every leaf waveform on its own local times (this is what an AWG upload does)."""
    import numpy as np
    if program is None:
        return {'none': True}
    leaves = []
    end = _leaves(program, F(0), leaves)
    dur = vlib.to_fraction(program.duration)
    if end != dur:
        return {'crash': 'sum of leaf durations %s != program.duration %s' % (end, dur)}
    chans = None
    for _, wf in leaves:
        cs = sorted(wf.defined_channels)
        if chans is None:
            chans = cs
        elif cs != chans:
            # seen when a ParallelChannelPT adds a channel after a channel-changing global transformation was applied
            return {'raise': 'ChannelSetsDiffer'}
    step = F(step)
    samples = {c: [] for c in chans}
    k = 0
    for (s, wf) in leaves:
        d = vlib.to_fraction(wf.duration)
        loc = []
        while k * step < s + d:
            loc.append(k * step - s)
            k += 1
        if not loc:
            continue
        times = np.array([float(x) for x in loc])
        assert all(F(float(x)) == x for x in loc)
        for c in chans:
            vals = wf.get_sampled(c, times)
            if into_array:
                # the way an upload samples: into memory the caller provides (pre-filled with a sentinel)
                buf = np.full(len(times), 12345.678)
                ret = wf.get_sampled(c, times, output_array=buf)
                # (a sample that is NaN without an array and still the sentinel in the provided one is ONE defect seen twice
                #  - the sample is never written: it stays in the observation as NaN, which the specification rejects and the
                #  model is compared on; since round 6 the driver compares cases of known findings with the model too, so it
                #  must not be turned into a crash here.  Any other difference is a failed case.)
                same = lambda a, b: len(a) == len(b) and all(x == y or (x != x and y != y) or (y != y and x == 12345.678)
                                                             for x, y in zip(a, b))
                if not same(list(map(float, buf)), list(map(float, vals))) or \
                        not same(list(map(float, ret)), list(map(float, vals))):
                    return {'crash': 'get_sampled(%r) into a provided output_array differs from get_sampled without '
                                     'one on leaf %r' % (c, type(wf).__name__)}
            for v in vals:
                v = float(v)
                samples[c].append(None if v != v else vlib.frac_json(v))
    wins = []
    for name, (begins, lengths) in program.get_measurement_windows().items():
        for b, l in zip(begins, lengths):
            wins.append([name, vlib.frac_json(float(b)), vlib.frac_json(float(l))])
    wins.sort(key=lambda w: (w[0], F(w[1]), F(w[2])))
    return {'dur': vlib.frac_json(dur), 'chans': chans, 'samples': samples, 'windows': wins}


def resolve_S(tree, S, objs):
    out = set()
    for s in S:
        if s['by'] == 'name':
            out.add(s['name'])
        else:
            out.add(objs[tuple(s['path'])])
    return out


def py_params(params):
    return {k: _py(v) for k, v in (params or {}).items()}


def run_options(tree, S, G, step, params=None, share=False, built=None, cp=None):
    """-> observation of create_program(parameters=params, to_single_waveform=S, global_transformation=G); `built` =
    (template, objs) of an earlier call: the SAME template objects are compiled again; `cp` = further arguments of
    create_program: {'chmap': channel_mapping, 'mmap': measurement_mapping (complete), 'builder': explicit LoopBuilder,
    'params_none': parameters=None instead of {}, 'into_array': sample into provided arrays as well,
    'params_as': 'scope' | 'str' (the parameters as a DictScope / as strings)}"""
    cp = cp or {}
    with warnings.catch_warnings():
        warnings.simplefilter('ignore')
        if built is None:
            objs = {}
            built = (build_pt(tree, objs, share={} if share else None), objs)
        pt, objs = built
        kw = {}
        if cp.get('chmap'):
            kw['channel_mapping'] = dict(cp['chmap'])
        if cp.get('mmap') is not None:
            kw['measurement_mapping'] = dict(cp['mmap'])
        if cp.get('builder'):
            from qupulse.program.loop import LoopBuilder
            kw['program_builder'] = LoopBuilder()
        pp = py_params(params)
        if pp and cp.get('params_as') == 'str':
            pp = {k: repr(v) for k, v in pp.items()}
        elif pp and cp.get('params_as') == 'scope':
            from qupulse.parameter_scope import DictScope
            from qupulse.utils.types import FrozenDict
            pp = DictScope(values=FrozenDict(pp))
        prog = pt.create_program(parameters=None if cp.get('params_none') and not pp else pp,
                                 to_single_waveform=resolve_S(tree, S, objs) if S or not cp.get('params_none') else None,
                                 global_transformation=build_trafo(G), **kw)
        return observe(prog, step, into_array=bool(cp.get('into_array')))
