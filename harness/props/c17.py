"""C17 — the increment-command program (LinSpaceBuilder -> to_increment_commands -> LinSpaceVM) plays the same voltage
staircase as the default Loop program of the same template; hardware amplitude/offset scaling scales it accordingly."""
import fractions
import os

import vlib
from vlib import gZ, gQ, gbool, glist
from props.c17_gen import pregen  # noqa: F401  (translator ties to linspace.py, see c17_gen.py)
from props.c17_fam import H, IT, REP, SEQ, fs, families

F = fractions.Fraction
PID = 'C17'
COQ_DIRS = ['common', 'C17']
TARGETS = ['C17/Props.vo', 'C17/Corr.vo', 'C17/GenEq.vo', 'C17/GenObjEq.vo', 'C17/GenBaseEq.vo', 'C17/GenTrEq.vo', 'C17/ProofsSExpr.vo', 'C17/GenSExprEq.vo']
MODEL_TARGETS = ['C17/Corr.vo']
PROPS_FILE = 'C17/Props.v'
PROPS_MODULE = 'QV.C17.Props'
CORR_IMPORTS = ['QV.C17.Model', 'QV.C17.Spec', 'QV.C17.Scope', 'QV.C17.SExpr', 'QV.C17.Corr']
CHECK_CORR = 'check_corr'
CHECK_SPEC = 'check_spec'
SHARD = 150
RULE = ('templates = trees of ConstantPT holds (1-3 channels, every channel order; voltages plain float / int / affine '
        'in the enclosing ForLoopPT indices with dyadic coefficients drawn from a small pool so that dependency keys '
        'collide), SequencePT, RepetitionPT (count 0,1,2,3), ForLoopPT (start/stop/step incl. negative step, length '
        '0..4, non-aligned stop), holds rendered directly or through MappingPT (affine re-parametrisation), loop-index '
        'rebinding mappings (scopes resolved by the model), registers shared across depths, zero durations, zero coefficients '
        'through parameters; exhaustive small nests (thorough: depth 3, 2-3 channels in every order); deterministic families '
        '(c17_fam.py) for stateful / aliasing / name-coincidence classes: repetition whose body sweeps a register with another '
        'entry state, second hold starting bit-exactly at the register value, bare loop index (shared scope object) as left '
        'operand of a sum with a later use in template-dict order, amplitude != 1 and offset != 0 on Set-only and Increment '
        'programs, swap mappings, shadowed loop indices, indices called like channels; reuse of template / program objects; '
        'index-dependent hold durations (refusal expected); templates played through a Transformation (global_transformation of '
        'create_program: Scaling / Offset / ParallelChannel / Linear / chains; ArithmeticPT, ParallelChannelPT, channel swap by MappingPT; '
        'the case tree carries the denoted voltages, the template is rendered from the pre-image).  Real pipeline '
        'create_program(program_builder=LinSpaceBuilder) -> to_increment_commands -> LinSpaceVM, observation = '
        'history + total time; independent oracle = unrolled default Loop program.  scale cases: the same through '
        'ProgramEntry(program_type=Linspace) with power-of-two amplitudes, dyadic offsets and unused (None) outputs.  '
        'Non-trivial = at least one iteration of length >= 2 with an index-dependent voltage; distinct = canonical JSON.')
TRUSTED = [
    'Coq 8.16.1 kernel + vm_compute',
    'harness: template rendering of the source term (the Coq staircase of the source term is compared with the unrolled '
    'default Loop program on every case, so a rendering error shows as a disagreement), exact float->rational conversion',
    'qupulse default program builder (Loop) and ConstantWaveform.constant_value as the reference staircase',
    'sympy/lambdify evaluation of affine expressions over SimpleExpression (not modelled; observed through the builder output)',
    'translate/py2gallina_c17.py: primitive table coq/C17/GenLib.v (dict = insertion-ordered association list, list index = '
    'nth_error, float equality on Q), attribute types of the schemas, value semantics (aliasing is invisible to the translation), '
    'hand-written LinSpaceVM.__init__ state (gvm_init) and command embedding',
]
ASSUMPTIONS = [
    'generated voltages/coefficients are dyadic rationals of small magnitude: float arithmetic of builder, translator and '
    'VM is exact, and distinct factors differ by more than the increment resolution 1e-9 (DepKey rounding is injective)',
    'ranges do not depend on outer indices; durations are constants (index-dependent durations are refused by the code: '
    'observed and proved for the translated _add_hold_node); a loop index may be shadowed by an inner loop of the same name',
    'every hold defines exactly the channels of the builder channel tuple (subset/superset channel tuples are outside '
    'the quantifier; observed: a missing channel shifts the remaining voltages to lower channel indices); hardware outputs are '
    'listed in the builder channel order (commands carry only the channel index)',
]

CHANNEL_POOL = ['a', 'b', 'c']
IDX_NAMES = ['i', 'j', 'k', 'l']
COEF_POOL = [F(1, 2), F(1, 4), F(1), F(-1, 2), F(2), F(-1), F(3, 2), F(1, 8)]
ERRMAP = {'AttributeError': 'EAttr', 'AssertionError': 'EAssert', 'KeyError': 'EKey', 'IndexError': 'EIndex'}


# ---------------------------------------------------------------------------------------------------------------------
# source trees (JSON) and their two readings: a qupulse template and a Gallina `src` term

def _num_repr(x, as_int):
    x = F(x)
    if as_int and x.denominator == 1:
        return '%d' % x.numerator
    return repr(float(x))


def volt_expr(v, remap):
    """Expression (python number or string) of a voltage.  remap: index name -> (var, scale, shift) for holds rendered
    through a MappingPT: index = (var - shift) / scale is substituted by the mapping var := scale*index + shift."""
    k = v['k']
    if k == 'plain':
        if v.get('param'):
            return v['param']
        return float(F(v['v']))
    if k == 'int':
        if v.get('param'):
            return v['param']
        return str(int(v['v'])) if v.get('as_str') else int(v['v'])
    base = F(v['base'])
    terms = []
    for name, c in v['coefs'].items():
        c = F(c)
        if v.get('cparam', {}).get(name):
            terms.append('%s*%s' % (v['cparam'][name], name))
            continue
        if v.get('dparam', {}).get(name) and name not in remap:
            terms.append('%s/%s' % (name, v['dparam'][name]))      # SimpleExpression.__truediv__
            continue
        var = name
        if name in remap:
            var, s, o = remap[name][:3]
            if len(remap[name]) > 3:
                # the index enters through two mapped variables: SimpleExpression + SimpleExpression on the same name
                var2, s2, o2 = remap[name][3:]
                c2 = c / 2 / s2
                base -= c2 * o2
                terms.append((c2, var2))
                c = c / 2
            c = c / s
            base -= c * o
        terms.append((c, var))
    # rendering style: exercises SimpleExpression.__mul__/__rmul__/__truediv__/__add__/__radd__/__sub__/__rsub__/__neg__
    style = v.get('style', 0)
    if style == 5:
        # bare style: a coefficient of exactly 1 / -1 is written as the bare variable (the scope object itself becomes an
        # operand of SimpleExpression.__add__/__sub__); the base comes last
        out = ''
        for t in terms:
            if isinstance(t, str):
                out += ' + ' + t
                continue
            c, var = t
            if c == 1:
                out += ' + ' + var
            elif c == -1:
                out += ' - ' + var
            else:
                out += ' + (%s)*%s' % (_num_repr(c, v.get('ints')), var)
        if base != 0 or not out:
            out += ' + (%s)' % _num_repr(base, v.get('ints'))
        out = out.strip()
        return out[2:] if out.startswith('+ ') else out
    out = '(%s)' % _num_repr(base, v.get('ints'))
    for k, t in enumerate(terms):
        if isinstance(t, str):
            out += ' + ' + t
            continue
        c, var = t
        st = (style + k) % 5
        if st == 1:
            out += ' + %s*(%s)' % (var, _num_repr(c, v.get('ints')))
        elif st == 2 and c != 0 and (1 / c).denominator in (1, 2, 4, 8) and abs(1 / c) <= 64:
            out += ' + %s/(%s)' % (var, _num_repr(1 / c, v.get('ints')))
        elif st == 3:
            out += ' - (%s)*%s' % (_num_repr(-c, v.get('ints')), var)
        elif st == 4:
            out = '%s*(%s) + ' % (var, _num_repr(c, v.get('ints'))) + out if k == 0 else out + ' - %s*(%s)' % (var, _num_repr(-c, v.get('ints')))
        else:
            out += ' + (%s)*%s' % (_num_repr(c, v.get('ints')), var)
    return out


def build_template(t, memo=None):
    """memo (a dict): structurally equal sub-trees become the very same template OBJECT (case flag `share`)"""
    if memo is not None:
        import json
        key = json.dumps(t, sort_keys=True)
        if key not in memo:
            memo[key] = _build_template(t, memo)
        return memo[key]
    return _build_template(t, None)


# ---- round 5: templates played through a Transformation (family `trafo`): the tree carries the DENOTED voltages, the template is
# rendered from the pre-image under the transformation

def _vform(v):
    if v['k'] in ('plain', 'int'):
        return F(v['v']), {}
    return F(v['base']), {n: F(c) for n, c in v['coefs'].items()}


def _oform(o):
    if isinstance(o, dict):
        return F(o['base']), {n: F(c) for n, c in o['coefs'].items()}
    return F(o), {}


def _fadd(f, g):
    coefs = dict(f[1])
    for n, c in g[1].items():
        coefs[n] = coefs.get(n, F(0)) + c
    return f[0] + g[0], coefs


def _fscale(f, k):
    return f[0] * k, {n: c * k for n, c in f[1].items()}


def _vunform(f):
    coefs = {n: c for n, c in f[1].items() if c != 0}
    if not coefs:
        return {'k': 'plain', 'v': fs(f[0])}
    return {'k': 'aff', 'base': fs(f[0]), 'coefs': {n: fs(c) for n, c in coefs.items()}}


def _inv_ops(forms, ops):
    """forms: channel -> (base, coefs) AFTER the operations (applied first to last); returns the forms before them"""
    forms = dict(forms)
    for op in reversed(ops):
        kind = op[0]
        if kind == 'scale':
            for ch, k in op[1].items():
                if ch in forms:
                    forms[ch] = _fscale(forms[ch], 1 / F(k))
        elif kind == 'offset':
            for ch, o in op[1].items():
                if ch in forms:
                    forms[ch] = _fadd(forms[ch], _fscale(_oform(o), F(-1)))
        elif kind == 'rsub':          # mapping - template: every channel is negated, the channels of the mapping get the offset
            for ch in list(forms):
                forms[ch] = _fadd(_oform(op[1].get(ch, '0')), _fscale(forms[ch], F(-1)))
        elif kind == 'par':
            for ch in op[1]:
                forms.pop(ch, None)
        elif kind == 'chmap':         # MappingPT(channel_mapping={inner: outer}): the outer channel plays the inner one's value
            forms = {inner: forms[outer] for inner, outer in op[1].items()}
        elif kind == 'linear':
            (c0, c1), m = op[1], [[F(x) for x in row] for row in op[2]]
            det = m[0][0] * m[1][1] - m[0][1] * m[1][0]
            inv = [[m[1][1] / det, -m[0][1] / det], [-m[1][0] / det, m[0][0] / det]]
            f0, f1 = forms[c0], forms[c1]
            forms[c0] = _fadd(_fscale(f0, inv[0][0]), _fscale(f1, inv[0][1]))
            forms[c1] = _fadd(_fscale(f0, inv[1][0]), _fscale(f1, inv[1][1]))
        else:
            raise ValueError(kind)
    return forms


def _preimage(t, ops):
    k = t['t']
    if k == 'hold':
        forms = _inv_ops({ch: _vform(v) for ch, v in t['v'].items()}, ops)
        h = {x: y for x, y in t.items() if x not in ('v', 'vorder')}
        h['v'] = {ch: _vunform(f) for ch, f in forms.items()}
        for ch, v in h['v'].items():
            if v['k'] == 'aff' and t['v'].get(ch, {}).get('style') == 5:
                v['style'] = 5            # bare rendering: a coefficient of exactly 1 is the scope object itself
        return h
    if k == 'seq':
        return {'t': 'seq', 'l': [_preimage(x, ops) for x in t['l']]}
    return dict(t, body=_preimage(t['body'], ops))


def _num(x):
    x = F(x)
    return int(x) if x.denominator == 1 and abs(x) < 4 and x.numerator % 2 else float(x)


def _mk_transformation(ops):
    import numpy as np
    from qupulse.program.transformation import (ScalingTransformation, OffsetTransformation, ParallelChannelTransformation,
                                                LinearTransformation, chain_transformations)
    ts = []
    for op in ops:
        if op[0] == 'scale':
            ts.append(ScalingTransformation({ch: _num(k) for ch, k in op[1].items()}))
        elif op[0] == 'offset':
            ts.append(OffsetTransformation({ch: _num(o) for ch, o in op[1].items()}))
        elif op[0] == 'par':
            ts.append(ParallelChannelTransformation({ch: _num(v) for ch, v in op[1].items()}))
        elif op[0] == 'linear':
            ts.append(LinearTransformation(np.array([[float(F(x)) for x in row] for row in op[2]]), tuple(op[1]), tuple(op[1])))
        else:
            raise ValueError(op[0])
    return chain_transformations(*ts)


def _wrap_template(pt, ops, how):
    from qupulse.pulses import ParallelChannelPT
    from qupulse.pulses.arithmetic_pulse_template import ArithmeticPulseTemplate
    for op in ops:
        kind = op[0]
        if kind == 'scale':
            if how == 'div':
                pt = ArithmeticPulseTemplate(pt, '/', {ch: float(1 / F(k)) for ch, k in op[1].items()})
            else:
                pt = ArithmeticPulseTemplate(pt, '*', {ch: _num(k) for ch, k in op[1].items()})
        elif kind == 'offset':
            def expr(o, sign):
                if isinstance(o, dict):
                    return ' + '.join(['(%r)' % float(sign * F(o['base']))] + ['(%r)*%s' % (float(sign * F(c)), n) for n, c in o['coefs'].items()])
                return _num(sign * F(o))
            if how == 'sub':
                pt = ArithmeticPulseTemplate(pt, '-', {ch: expr(o, -1) for ch, o in op[1].items()})
            else:
                pt = ArithmeticPulseTemplate(pt, '+', {ch: expr(o, 1) for ch, o in op[1].items()})
        elif kind == 'rsub':
            pt = ArithmeticPulseTemplate({ch: _num(o) for ch, o in op[1].items()}, '-', pt)
        elif kind == 'par':
            pt = ParallelChannelPT(pt, {ch: _num(v) for ch, v in op[1].items()})
        elif kind == 'chmap':
            from qupulse.pulses import MappingPT
            pt = MappingPT(pt, channel_mapping=dict(op[1]))
        else:
            raise ValueError(kind)
    return pt


def _build_template(t, memo):
    from qupulse.pulses import ConstantPT, SequencePT, RepetitionPT, ForLoopPT, MappingPT
    k = t['t']
    if k == 'wrap':
        return _wrap_template(build_template(_preimage(t['body'], t['ops']), memo), t['ops'], t.get('how'))
    if k == 'hold':
        remap = {name: (m['var'], F(m['scale']), F(m['shift'])) + ((m['var2'], F(m['scale2']), F(m['shift2'])) if 'var2' in m else ())
                 for name, m in t.get('via_map', {}).items()}
        dur = F(t['dur'])
        dur = int(dur) if dur.denominator == 1 else float(dur)
        # 'vorder': the order of the template's amplitude dict = the order in which the channel expressions are evaluated
        meas = [('m', 0, 1)] if t.get('meas') and dur >= 1 else None
        if t.get('split') and len(t['v']) > 1 and not remap:
            from qupulse.pulses import AtomicMultiChannelPT
            pt = AtomicMultiChannelPT(*[ConstantPT(dur, {ch: volt_expr(t['v'][ch], remap)}) for ch in t.get('vorder', t['v'])], measurements=meas)
        else:
            pt = ConstantPT(dur, {ch: volt_expr(t['v'][ch], remap) for ch in t.get('vorder', t['v'])}, measurements=meas)
        if remap:
            pm = {}
            for name, r in remap.items():
                for vso in (r[:3], r[3:]):
                    if vso:
                        var, s, o = vso
                        pm[var] = '(%s)*%s + (%s)' % (_num_repr(s, True), name, _num_repr(o, True))
            pt = MappingPT(pt, parameter_mapping=pm, allow_partial_parameter_mapping=True)
        return pt
    if k == 'seq':
        return SequencePT(*[build_template(x, memo) for x in t['l']])
    if k == 'rep':
        return RepetitionPT(build_template(t['body'], memo), t['n'])
    if k == 'iter':
        return ForLoopPT(build_template(t['body'], memo), t['idx'], (t['start'], t['stop'], t['step']))
    if k == 'remap':
        return MappingPT(build_template(t['body'], memo),
                         parameter_mapping={t['idx']: '(%s)*%s + (%s)' % (_num_repr(t['scale'], True), t['idx'],
                                                                          _num_repr(t['shift'], True))},
                         allow_partial_parameter_mapping=True)
    raise ValueError(k)


def params_of(t, acc=None):
    acc = {} if acc is None else acc
    if t['t'] == 'hold':
        for v in t['v'].values():
            if v.get('param'):
                acc[v['param']] = int(v['v']) if v['k'] == 'int' else float(F(v['v']))
            for name, p in v.get('cparam', {}).items():
                acc[p] = float(F(v['coefs'][name]))
            for name, p in v.get('dparam', {}).items():
                acc[p] = float(1 / F(v['coefs'][name]))
    elif t['t'] == 'seq':
        for x in t['l']:
            params_of(x, acc)
    else:
        params_of(t['body'], acc)
    return acc


def g_volt(v, idxs, subst):
    """Gallina volt.  idxs: enclosing index names outermost first.  subst: index name -> (scale, shift) of enclosing
    rebinding mappings (index := scale*index + shift), applied to the affine form."""
    if v['k'] == 'plain':
        return '(VPlain %s)' % gQ(F(v['v']))
    if v['k'] == 'int':
        return '(VInt %s)' % gZ(int(v['v']))
    base = F(v['base'])
    coefs = {n: F(c) for n, c in v['coefs'].items()}
    for name, (s, o) in subst:
        if name in coefs:
            base += coefs[name] * o
            coefs[name] = coefs[name] * s
    # an index name that is bound again further in is shadowed: the coefficient belongs to the innermost loop of that name
    return '(VAff %s %s)' % (gQ(base), glist(gQ, [coefs.get(n, F(0)) if n not in idxs[k + 1:] else F(0)
                                                   for k, n in enumerate(idxs)]))


def g_src(t, channels, idxs=(), subst=()):
    k = t['t']
    if k == 'hold':
        return '(SHold %s %s)' % (gQ(F(t['dur'])), glist(lambda ch: g_volt(t['v'][ch], idxs, subst), channels))
    if k == 'seq':
        return '(SSeq %s)' % glist(lambda x: g_src(x, channels, idxs, subst), t['l'])
    if k == 'rep':
        return '(SRep %s %s)' % (gZ(t['n']), g_src(t['body'], channels, idxs, subst))
    if k == 'iter':
        # an inner loop over the same name would shadow a rebinding; generators keep names distinct
        return '(SIter %s %s %s %s)' % (gZ(t['start']), gZ(t['stop']), gZ(t['step']),
                                        g_src(t['body'], channels, idxs + (t['idx'],), subst))
    if k == 'remap':
        return g_src(t['body'], channels, idxs, ((t['idx'], (F(t['scale']), F(t['shift']))),) + tuple(subst))
    if k == 'wrap':
        return g_src(t['body'], channels, idxs, subst)
    raise ValueError(k)


def g_src2(t, channels, idxs=()):
    """Gallina `src2` term (coq/C17/Scope.v): rebinding mappings stay in the term, the model resolves the scopes"""
    k = t['t']
    if k == 'hold':
        return '(S2Hold %s %s)' % (gQ(F(t['dur'])), glist(lambda ch: g_volt(t['v'][ch], idxs, ()), channels))
    if k == 'seq':
        return '(S2Seq %s)' % glist(lambda x: g_src2(x, channels, idxs), t['l'])
    if k == 'rep':
        return '(S2Rep %s %s)' % (gZ(t['n']), g_src2(t['body'], channels, idxs))
    if k == 'iter':
        return '(S2Iter %s %s %s %s)' % (gZ(t['start']), gZ(t['stop']), gZ(t['step']),
                                         g_src2(t['body'], channels, idxs + (t['idx'],)))
    if k == 'remap':
        return '(S2Remap %s %s %s %s)' % (vlib.gnat(idxs.index(t['idx'])), gQ(F(t['scale'])), gQ(F(t['shift'])),
                                          g_src2(t['body'], channels, idxs))
    if k == 'wrap':
        return g_src2(t['body'], channels, idxs)
    raise ValueError(k)


def walk(t):
    yield t
    if t['t'] == 'seq':
        for x in t['l']:
            yield from walk(x)
    elif t['t'] != 'hold':
        yield from walk(t['body'])


# ---------------------------------------------------------------------------------------------------------------------
# generators

def pname(prefix, value):
    """parameter name determined by (kind, value): two uses of one name always carry the same value"""
    f = F(value)
    return '%s%s%d_%d' % (prefix, 'm' if f < 0 else '', abs(f.numerator), f.denominator)


def rnd_dyadic(rng, lo=-16, hi=16, den=8):
    return F(rng.randint(lo, hi), den)


def gen_range(rng, want_len=None):
    step = rng.choice([1, 1, 1, 2, -1, -2, 3, -3])
    n = want_len if want_len is not None else rng.choice([0, 1, 1, 2, 2, 3, 3, 4])
    start = rng.randint(-3, 4)
    if n == 0:
        stop = start - step * rng.randint(0, 2)
    else:
        # any stop in (start+(n-1)*step, start+n*step] (for step>0) gives length n: pick aligned and non-aligned ones
        jitter = rng.randint(0, abs(step) - 1)
        stop = start + n * step - (jitter if step > 0 else -jitter)
    assert len(range(start, stop, step)) == n
    return start, stop, step


def gen_volt(rng, idxs, opts):
    r = rng.random()
    if r < opts.get('p_int', 0.01):
        v = {'k': 'int', 'v': rng.randint(-3, 3)}
        m = rng.random()
        if m < 0.3:
            v['as_str'] = True
        elif m < 0.5:
            v['param'] = pname('pi', v['v'])
        return v
    if not idxs or r < 0.35:
        v = {'k': 'plain', 'v': fs(rng.choice([F(3, 2), F(-1, 2), F(5, 2)]) if rng.random() < 0.5 else rnd_dyadic(rng))}
        if rng.random() < 0.1:
            v['param'] = pname('pv', v['v'])
        return v
    coefs = {}
    names = list(idxs)
    rng.shuffle(names)
    for name in names[:rng.choice([1, 1, 1, 2, 2, len(names)])]:
        coefs[name] = fs(rng.choice(COEF_POOL))
    v = {'k': 'aff', 'base': fs(rnd_dyadic(rng, -8, 8, 4) if rng.random() < 0.7 else F(0)), 'coefs': coefs}
    if rng.random() < 0.15:
        v['ints'] = True
    if rng.random() < 0.6:
        v['style'] = rng.randint(1, 4)
    if rng.random() < 0.12:
        name = rng.choice(list(coefs))
        c = F(coefs[name])
        if c != 0 and (1 / c).denominator in (1, 2, 4, 8) and not v.get('cparam', {}).get(name):
            v['dparam'] = {name: pname('pd', 1 / c)}
    if rng.random() < opts.get('p_zero_coef', 0.03):
        name = rng.choice(list(coefs))
        coefs[name] = '0'
        v['cparam'] = {name: 'pc%d' % rng.randint(0, 9)}
        v.pop('dparam', None)
    return v


def gen_hold(rng, chans, idxs, opts):
    t = {'t': 'hold', 'dur': fs(rng.choice([1, 1, 2, 3, F(1, 2), F(5, 4)])), 'v': {}}
    if rng.random() < opts.get('p_zero_dur', 0.03):
        t['dur'] = '0'
    for ch in chans:
        t['v'][ch] = gen_volt(rng, idxs, opts)
    if idxs and rng.random() < opts.get('p_map', 0.15):
        used = sorted({n for v in t['v'].values() if v['k'] == 'aff' for n in v['coefs'] if not v.get('cparam', {}).get(n)})
        vm = {}
        for name in used:
            if rng.random() < 0.7:
                vm[name] = {'var': 'm_' + name, 'scale': fs(rng.choice([1, 2, -1, F(1, 2), -2])), 'shift': fs(rng.randint(-2, 2))}
                if rng.random() < 0.35:
                    vm[name].update(var2='n_' + name, scale2=fs(rng.choice([1, 2, -1, -2])), shift2=fs(rng.randint(-2, 2)))
        if vm:
            # every aff voltage of this hold must use the mapped variable for a mapped index
            t['via_map'] = vm
            for v in t['v'].values():
                v.pop('dparam', None)
    return t


def gen_tree(rng, chans, idxs, depth, opts, budget):
    """budget: [remaining number of unrolled steps] (mutable list of one int)"""
    r = rng.random()
    if not idxs and depth >= 2 and rng.random() < 0.8:
        r = rng.choice([0.4, 0.6, 0.9, 0.9, 0.9])      # outside any loop: mostly open an iteration
    if depth <= 0 or budget[0] <= 1 or r < 0.34:
        budget[0] -= 1
        return gen_hold(rng, chans, idxs, opts)
    if r < 0.54:
        n = rng.choice([2, 2, 3])
        return {'t': 'seq', 'l': [gen_tree(rng, chans, idxs, depth - 1, opts, budget) for _ in range(n)]}
    if r < 0.72:
        n = rng.choice(opts.get('counts', [0, 1, 1, 2, 2, 3]))
        sub = [max(1, budget[0] // max(1, n))]
        body = gen_tree(rng, chans, idxs, depth - 1, opts, sub)
        budget[0] -= max(1, n) * 1
        return {'t': 'rep', 'n': n, 'body': body}
    free = [n for n in IDX_NAMES if n not in idxs]
    if not free:
        budget[0] -= 1
        return gen_hold(rng, chans, idxs, opts)
    name = free[0]
    start, stop, step = gen_range(rng, opts.get('len'))
    n = len(range(start, stop, step))
    sub = [max(1, budget[0] // max(1, n))]
    body = gen_tree(rng, chans, idxs + (name,), depth - 1, opts, sub)
    budget[0] -= max(1, n)
    ensure_index_used(rng, body, name, chans)
    t = {'t': 'iter', 'idx': name, 'start': start, 'stop': stop, 'step': step, 'body': body}
    return t


def ensure_index_used(rng, body, name, chans):
    holds = [x for x in walk(body) if x['t'] == 'hold']
    for h in holds:
        for v in h['v'].values():
            if v['k'] == 'aff' and name in v['coefs']:
                return
    h = rng.choice(holds)
    ch = rng.choice(sorted(h['v']))
    v = h['v'][ch]
    if v['k'] == 'aff':
        v['coefs'][name] = fs(rng.choice(COEF_POOL))
        if 'via_map' in h and name not in h['via_map']:
            pass
    else:
        h['v'][ch] = {'k': 'aff', 'base': fs(rnd_dyadic(rng, -8, 8, 4)), 'coefs': {name: fs(rng.choice(COEF_POOL))}}


def mk_run(rng, tree, chans, exact=True):
    order = list(chans)
    rng.shuffle(order)
    c = {'kind': 'run', 'channels': order, 'tree': tree, 'exact': exact}
    if rng.random() < 0.25:
        # the same template object builds the default and the linspace program, the program is translated twice and the
        # second command list is run (stale caches, state left behind by the first use)
        c['reuse'] = True
    return c


def boundary_cases():
    """the shapes named in DESIGN §5 C17 / Appendix A and in the tests of the pinned suite (scaled down)"""
    out = []
    a_i = lambda base='0', c='1/2': (base, {'i': c})
    out.append((IT('i', (0, 3, 1), REP(1, H(1, a=a_i()))), ['a']))                       # Appendix A: count-1 repetition
    out.append((IT('i', (0, 3, 1), REP(2, H(1, a=a_i()))), ['a']))
    out.append((IT('i', (0, 3, 1), REP(3, H(1, a=a_i()))), ['a']))
    out.append((H(1, a=2), ['a']))                                                        # Appendix A: int amplitude
    out.append((IT('i', (0, 3, 1), H(1, a=2, b=a_i())), ['a', 'b']))
    out.append((IT('i', (0, 4, 1), H(1, a=a_i('-1', '1/4'))), ['a']))                     # SingleRampTest
    out.append((IT('j', (0, 3, 1), IT('i', (0, 4, 1), H(1, a=('-1', {'i': '1/4'}), b=('-1/2', {'j': '1/2'})))), ['a', 'b']))
    out.append((REP(3, IT('j', (0, 3, 1), IT('i', (0, 4, 1), H(1, a=('-1', {'i': '1/4', 'j': '1/8'}),
                                                              b=('-1/2', {'j': '1/2', 'i': '-1/4'}))))), ['a', 'b']))
    out.append((IT('j', (0, 2, 1), IT('i', (0, 3, 1), SEQ(H('1/2', a='-1/2', b='-1/4'),
                                                          H(1, a=('-1', {'i': '1/4'}), b=('-1/2', {'j': '1/2'})),
                                                          H('1/2', a='1/8', b='1/4')))), ['a', 'b']))
    out.append((IT('j', (0, 2, 1), REP(2, IT('i', (0, 3, 1), H(1, a=('0', {'i': '1/4', 'j': '1'}))))), ['a']))   # F4
    out.append((IT('j', (0, 2, 1), SEQ(H(1, a=('0', {'j': '1/2'}), b='1/2'),
                                       IT('i', (0, 2, 1), H(1, a=('0', {'j': '1/2'}), b=('0', {'i': '1/2'}))))), ['a', 'b']))  # F5
    # one register shared by holds at different depths (key ignores trailing zero factors), former AssertionError
    a_j = ('0', {'j': '1/2'})
    out.append((IT('j', (0, 3, 1), SEQ(IT('i', (0, 3, 1), H(1, a=a_j, b=('0', {'i': '1/2'}))), H(1, a=a_j, b='1/2'))), ['a', 'b']))
    out.append((IT('j', (1, 7, 2), SEQ(H(1, a=a_j, b='1/2'),
                                       IT('i', (0, 2, 1), SEQ(H(1, a=a_j, b=('0', {'i': '1/2'})),
                                                              IT('k', (0, 2, 1), H(1, a=('0', {'j': '1/2', 'k': '1/4'}), b=('0', {'i': '1/2'}))))),
                                       H(1, a=('1/4', {'j': '1/2'}), b='1/4'))), ['b', 'a']))
    out.append((IT('j', (0, 2, 1), REP(2, SEQ(H(1, a=a_j, b='1/2'), IT('i', (0, 2, 1), H(1, a=a_j, b=('0', {'i': '1/2'})))))), ['a', 'b']))
    # a repetition whose body changes one register known at its entry and leaves another one alone
    out.append((IT('j', (0, 2, 1), SEQ(H(1, a=('0', {'j': '1/2'})),
                                       REP(2, IT('i', (0, 3, 1), H(1, a=('0', {'i': '1/4', 'j': '1'})))))), ['a']))
    out.append((IT('j', (0, 3, 1), SEQ(H(1, a=('0', {'j': '1/2'}), b=('1', {'j': '1/4'})),
                                       REP(3, SEQ(H(1, a=('0', {'j': '1/2'}), b='1/2'),
                                                  IT('i', (0, 2, 1), H(1, a=('0', {'i': '1/4', 'j': '1'}), b=('1', {'j': '1/4'}))))))), ['b', 'a']))
    out.append((IT('j', (0, 3, 1), SEQ(H(1, a=('0', {'j': '1/2'})),
                                       REP(2, SEQ(IT('i', (0, 3, 1), H(1, a=('0', {'i': '1/4', 'j': '1'}))),
                                                  H(1, a=('0', {'j': '1/2'})))))), ['a']))
    out.append((SEQ(H(1, a='3/2'), REP(3, SEQ(H(1, a='3/2'), H(1, a='5/2')))), ['a']))    # F3 plain
    out.append((IT('j', (0, 2, 1), SEQ(H(1, a=('0', {'j': '1/2'})), REP(2, SEQ(H(1, a=('0', {'j': '1/2'})), H(1, a='5/2'))))), ['a']))
    out.append((IT('i', (5, 0, -2), H(1, a=a_i('1', '1/4'))), ['a']))
    out.append((IT('i', (1, 7, 2), H(1, a=a_i('1', '1/4'), b=a_i('0', '1/2'))), ['b', 'a']))
    out.append((IT('i', (2, 2, 1), H(1, a=a_i())), ['a']))                                 # empty range
    out.append((IT('i', (2, 3, 1), H(1, a=a_i())), ['a']))                                 # length one
    out.append((REP(0, H(1, a='1')), ['a']))
    out.append((IT('i', (0, 3, 1), {'t': 'remap', 'idx': 'i', 'scale': '1', 'shift': '1', 'body': REP(2, H(1, a=a_i('0', '1/4')))}), ['a']))  # F6
    out.append((IT('i', (0, 3, 1), {'t': 'remap', 'idx': 'i', 'scale': '1', 'shift': '1', 'body': H(1, a=a_i('0', '1/4'))}), ['a']))
    return [{'kind': 'run', 'channels': ch, 'tree': t, 'exact': True} for t, ch in out]


def enum_small(tier):
    """exhaustive small scope: nests of <= 2 (quick) / 3 (thorough) levels out of {iter, rep} over one or two holds,
    lengths <= 3, counts <= 2; voltages of channel a affine in every enclosing index.  quick: one channel.  thorough:
    additionally two channels in both channel orders (b plain / affine in the innermost index / affine in the outermost
    index only, i.e. a key with stripped trailing zeros) at depth 3 and three channels in all six orders at depth 2."""
    import itertools
    lens = [1, 2, 3]
    counts = [1, 2]

    def volt(ch, idxs, var, bmode):
        if not idxs:
            return {'k': 'plain', 'v': fs(F(3 + var, 2) + {'a': 0, 'b': F(1, 4), 'c': F(-1, 8)}[ch])}
        if ch == 'a':
            return {'k': 'aff', 'base': fs(F(var, 4)), 'coefs': {n: fs(COEF_POOL[(k + var) % 3]) for k, n in enumerate(idxs)}}
        if ch == 'b':
            if bmode == 0:
                return {'k': 'plain', 'v': fs(F(var + 1, 4))}
            n = idxs[-1] if bmode == 1 else idxs[0]
            return {'k': 'aff', 'base': fs(F(1 + var, 8)), 'coefs': {n: fs(COEF_POOL[(3 + var) % len(COEF_POOL)])}}
        return {'k': 'aff', 'base': fs(F(-var, 2)), 'coefs': {n: fs(COEF_POOL[(k + 5 + var) % len(COEF_POOL)]) for k, n in enumerate(idxs)}}

    def enum(chs, depth, bmode):
        def hold(idxs, var):
            return {'t': 'hold', 'dur': '1', 'v': {ch: volt(ch, idxs, var, bmode) for ch in chs}}

        def plain_hold():
            return {'t': 'hold', 'dur': '1', 'v': {ch: {'k': 'plain', 'v': fs(F(5, 2) + k)} for k, ch in enumerate(chs)}}

        def bodies(idxs, d):
            yield hold(idxs, 0)
            if idxs:
                yield SEQ(hold(idxs, 0), hold(idxs, 1))
                yield SEQ(hold(idxs, 0), plain_hold())
            if d <= 0:
                return
            for b in bodies(idxs, d - 1):
                for c in counts:
                    yield REP(c, b)
            name = IDX_NAMES[len(idxs)]
            for b in bodies(idxs + (name,), d - 1):
                if not any(x['t'] == 'hold' and any(v['k'] == 'aff' and name in v['coefs'] for v in x['v'].values()) for x in walk(b)):
                    continue
                for n in lens:
                    yield IT(name, (0, n, 1), b)
        return list(bodies((), depth))

    out = []
    depth = 2 if tier == 'quick' else 3
    for b in enum(('a',), depth, 0):
        out.append({'kind': 'run', 'channels': ['a'], 'tree': b, 'exact': True})
    if tier != 'quick':
        for bmode in (0, 1, 2):
            for b in enum(('a', 'b'), 3, bmode):
                for order in itertools.permutations(('a', 'b')):
                    out.append({'kind': 'run', 'channels': list(order), 'tree': b, 'exact': True})
        for b in enum(('a', 'b', 'c'), 2, 1):
            for order in itertools.permutations(('a', 'b', 'c')):
                out.append({'kind': 'run', 'channels': list(order), 'tree': b, 'exact': True})
    return out


def gen_cases(rng, tier, ctx):
    cases = boundary_cases()
    cases.extend(families(rng, tier))
    # G: hold durations that depend on a loop index (outside the quantifier): the translator must refuse them
    for n in (2, 3):
        for d1 in ('1/2', '1', '0'):
            cases.append({'kind': 'dur', 'channels': ['a'], 'n': n, 'dur': ['1', d1], 'a': ['1/4', '1/2']})
    cases.append({'kind': 'dur', 'channels': ['a'], 'n': 4, 'dur': ['2', '-1/4'], 'a': ['0', '0']})
    cases.extend(gen_sexpr_cases(rng, tier))
    small = enum_small(tier)
    if tier == 'quick':
        # all one-channel nests of depth <= 2 plus a sample of the thorough tier's multi-channel / depth-3 enumeration
        extra = enum_small('thorough')
        rng.shuffle(extra)
        small = small + extra[:170]
    cases.extend(small)
    n = {'quick': 1, 'thorough': 8}[tier]
    # A: iterations and sequences only (the class covered by the staircase theorem and its generalisation)
    for _ in range(240 if tier == 'quick' else 300 * n):   # round 4/5: random cases made room for deterministic families
        chans = CHANNEL_POOL[:rng.choice([1, 1, 2, 2, 3])]
        opts = {'counts': [1], 'p_int': 0.0}
        tree = gen_tree_norep(rng, chans, (), rng.choice([2, 3, 3, 4]), opts, [rng.choice([12, 30, 60])])
        cases.append(mk_run(rng, tree, chans))
    # B: everything
    for _ in range(380 if tier == 'quick' else 450 * n):
        chans = CHANNEL_POOL[:rng.choice([1, 1, 2, 2, 3])]
        tree = gen_tree(rng, chans, (), rng.choice([2, 3, 3, 4]), {}, [rng.choice([12, 30, 60])])
        cases.append(mk_run(rng, tree, chans))
    # C: malformed / int stream
    for _ in range(40 * n):
        chans = CHANNEL_POOL[:rng.choice([1, 2])]
        tree = gen_tree(rng, chans, (), rng.choice([1, 2, 3]), {'p_int': 0.25}, [20])
        cases.append(mk_run(rng, tree, chans))
    # D: rebinding of the loop index by a mapping around a sub-tree
    for _ in range(40 * n):
        chans = CHANNEL_POOL[:rng.choice([1, 2])]
        start, stop, step = gen_range(rng, rng.choice([2, 3]))
        inner = gen_tree(rng, chans, ('i',), rng.choice([0, 1, 2]), {'p_map': 0.0, 'p_zero_coef': 0.0, 'p_int': 0.0}, [10])
        ensure_index_used(rng, inner, 'i', chans)
        tree = IT('i', (start, stop, step), {'t': 'remap', 'idx': 'i', 'scale': fs(rng.choice([1, 1, 2, -1])),
                                             'shift': fs(rng.randint(-2, 2)), 'body': inner})
        cases.append(mk_run(rng, tree, chans))
    # E: decimal (non-dyadic) values: compared within the increment resolution
    for _ in range(30 * n):
        tree = IT('i', (0, rng.randint(2, 6), 1), H(1, a=(fs(F(rng.randint(-20, 20), 10)), {'i': fs(F(rng.randint(1, 30), 100))})))
        if rng.random() < 0.5:
            tree = IT('j', (0, rng.randint(1, 3), 1), tree)
            tree['body']['body']['v']['a']['coefs']['j'] = fs(F(rng.randint(1, 9), 1000))
        c = mk_run(rng, tree, ['a'], exact=False)
        cases.append(c)
    # F: hardware scaling
    for _ in range(120 * n):
        chans = CHANNEL_POOL[:rng.choice([1, 2, 2, 3])]
        opts = {'counts': [1], 'p_int': 0.0}
        tree = gen_tree_norep(rng, chans, (), rng.choice([1, 2, 3]), opts, [20])
        order = list(chans)
        rng.shuffle(order)
        hw = [[ch, fs(rng.choice([1, 2, F(1, 2), 4, F(1, 4), -2])), fs(rnd_dyadic(rng, -8, 8, 4))] for ch in order]
        if rng.random() < 0.3:
            for _ in range(rng.choice([1, 2, 2])):
                hw.insert(rng.randint(0, len(hw)), [None, fs(rng.choice([1, 2, F(1, 2), 8])), fs(rnd_dyadic(rng, -8, 8, 4))])
        cases.append({'kind': 'scale', 'channels': order, 'hw': hw, 'tree': tree, 'reuse': rng.random() < 0.25})
    return cases


def gen_tree_norep(rng, chans, idxs, depth, opts, budget):
    """like gen_tree but without repetitions"""
    while True:
        t = gen_tree(rng, chans, idxs, depth, opts, list(budget))
        if not any(x['t'] == 'rep' for x in walk(t)):
            return t


# ---------------------------------------------------------------------------------------------------------------------
# implementation

def _unroll_default(loop, chans):
    out = []
    t = [F(0)]

    def go(l):
        for _ in range(int(l.repetition_count)):
            if l.is_leaf():
                wf = l.waveform
                out.append([vlib.frac_json(t[0]), [vlib.frac_json(wf.constant_value(ch)) for ch in chans]])
                t[0] += vlib.to_fraction(wf.duration)
            else:
                for c in l:
                    go(c)
    go(loop)
    return out, vlib.frac_json(t[0])


def _val(x):
    x = float(x)
    if x != x:
        return None
    return vlib.frac_json(x)


def _direct_volt(v):
    """a voltage as a user of the builder API writes it: python arithmetic on the SimpleExpression of the loop indices (what
    LinSpaceBuilder.inner_scope injects), in several operator orders (`dstyle`): reaches __radd__ / __rsub__ / __neg__ /
    __truediv__ of SimpleExpression, which the rendering of the templates by sympy never produces"""
    from qupulse.program import SimpleExpression
    import numpy as np
    if v.get('np'):
        # numpy scalar types (float32 is exact on the dyadic values used, unsigned / small ints for int voltages)
        if v['k'] == 'plain':
            return np.float32(float(F(v['v'])))
        if v['k'] == 'int':
            return np.uint8(v['v']) if 0 <= v['v'] < 256 else np.int16(v['v'])
        return SimpleExpression(np.float64(float(F(v['base']))), {n: np.float32(float(F(c))) for n, c in v['coefs'].items()})
    if v['k'] == 'plain':
        return float(F(v['v']))
    if v['k'] == 'int':
        return int(v['v'])
    base = float(F(v['base']))
    coefs = [(n, float(F(c))) for n, c in v['coefs'].items()]
    style = v.get('dstyle', 0)
    if style == 0:
        return SimpleExpression(base, {n: c for n, c in coefs})
    idx = {n: SimpleExpression(base=0, offsets={n: 1}) for n, _ in coefs}
    if style == 1:                      # number + c * i + ...      (float.__add__ -> SimpleExpression.__radd__, __rmul__)
        e = base
        for n, c in coefs:
            e = e + c * idx[n]
        return e
    if style == 2:                      # number - (-c) * i - ...   (__rsub__, __neg__, __sub__, __mul__)
        e = base
        for k, (n, c) in enumerate(coefs):
            e = e - idx[n] * (-c)
        return e
    e = None                            # i / (1/c) + ... + number  (__truediv__, __add__ of two expressions, __add__ of a number)
    for n, c in coefs:
        term = idx[n] / (1 / c) if c != 0 else idx[n] * 0.0
        e = term if e is None else e + term
    return e + base if e is not None else SimpleExpression(base, {})


def drive_builder(builder, t):
    """build the program by calling the ProgramBuilder interface directly (no pulse templates)"""
    from qupulse.utils.types import TimeType
    k = t['t']
    if k == 'hold':
        d = F(t['dur'])
        builder.hold_voltage(TimeType.from_fraction(d.numerator, d.denominator), {ch: _direct_volt(v) for ch, v in t['v'].items()})
    elif k == 'seq':
        with builder.with_sequence() as b:
            for x in t['l']:
                drive_builder(b, x)
    elif k == 'rep':
        n = t['n']
        if t.get('np'):
            import numpy as np
            n = np.uint8(n) if t['np'] == 8 else np.uint64(n)
        for b in builder.with_repetition(n):
            drive_builder(b, t['body'])
    elif k == 'iter':
        if t.get('np'):
            import numpy as np
            r = range(np.int64(t['start']), np.int16(t['stop']), np.int8(t['step']))
        else:
            r = range(t['start'], t['stop'], t['step'])
        for b in builder.with_iteration(t['idx'], r):
            drive_builder(b, t['body'])
    else:
        raise ValueError(k)


def _case_template(case):
    """the template of a case and the keyword arguments of create_program (`gt`: the tree denotes the voltages AFTER the global
    transformation; the template is rendered from the pre-image)"""
    memo = {} if case.get('share') else None
    if case.get('gt'):
        return build_template(_preimage(case['tree'], case['gt']), memo), {'global_transformation': _mk_transformation(case['gt'])}
    return build_template(case['tree'], memo), {}


def run_impl(case):
    import warnings
    warnings.simplefilter('ignore')
    from qupulse.program.linspace import LinSpaceBuilder, LinSpaceVM, to_increment_commands
    from qupulse.utils.types import TimeType
    chans = case['channels']
    if case['kind'] == 'dur':
        return run_impl_dur(case)
    if case['kind'] == 'sexpr':
        return run_impl_sexpr(case)
    try:
        with vlib.time_limit(20):
            pt, kw = _case_template(case)
            params = params_of(case['tree'])
            default = pt.create_program(parameters=params, **kw)
            if default is None:
                dflt, dtot = [], '0'
            else:
                dflt, dtot = _unroll_default(default, chans)
    except vlib.Timeout:
        return {'hang': True}
    except Exception as e:
        return {'crash': 'reference program failed: %s: %s' % (type(e).__name__, e)}
    obs = {'dflt': dflt, 'dflt_total': dtot, 'steps': 0}
    try:
        with vlib.time_limit(20):
            if not case.get('reuse'):
                pt, kw = _case_template(case)
            if case.get('direct'):
                builder = LinSpaceBuilder(tuple(chans))
                drive_builder(builder, case['tree'])
                prog = builder.to_program()
            else:
                prog = pt.create_program(parameters=params, program_builder=LinSpaceBuilder(tuple(chans)), **kw)
            if prog is None:
                obs.update(hist=[], total='0')
                return obs
            if case['kind'] == 'scale':
                from qupulse.hardware.awgs.base import ProgramEntry, _ProgramType
                hw = case['hw']
                entry = ProgramEntry(prog, channels=tuple(h[0] for h in hw), markers=(),
                                     amplitudes=tuple(float(F(h[1])) for h in hw),
                                     offsets=tuple(float(F(h[2])) for h in hw),
                                     voltage_transformations=tuple(None for _ in hw), sample_rate=TimeType.from_float(1.0),
                                     program_type=_ProgramType.Linspace)
                cmds = entry._transformed_commands
                if case.get('reuse'):
                    # a second entry from the same program object must not see the first one's scaling
                    entry = ProgramEntry(prog, channels=tuple(h[0] for h in hw), markers=(),
                                         amplitudes=tuple(float(F(h[1])) for h in hw),
                                         offsets=tuple(float(F(h[2])) for h in hw),
                                         voltage_transformations=tuple(None for _ in hw), sample_rate=TimeType.from_float(1.0),
                                         program_type=_ProgramType.Linspace)
                    cmds = entry._transformed_commands
            else:
                cmds = to_increment_commands(prog)
                if case.get('reuse'):
                    cmds = to_increment_commands(prog)
            vm = LinSpaceVM(len(chans))
            vm.set_commands(cmds)
            n = 0
            while vm.current_command < len(vm.commands):
                vm.step()
                n += 1
                if n > 200000:
                    return {'hang': True}
            obs['steps'] = n
            obs['hist'] = [[vlib.frac_json(t), [_val(v) for v in vals]] for t, vals in vm.history]
            obs['total'] = vlib.frac_json(vm.time)
            if case.get('fam') or case.get('reuse'):
                # LinSpaceVM.run() (the loop the users call) on a second machine must do what the steps above did
                vm2 = LinSpaceVM(len(chans))
                vm2.set_commands(cmds)
                vm2.run()
                h2 = [[vlib.frac_json(t), [_val(v) for v in vals]] for t, vals in vm2.history]
                if h2 != obs['hist'] or vlib.frac_json(vm2.time) != obs['total'] or vm2.current_command != vm.current_command:
                    return {'crash': 'LinSpaceVM.run() differs from stepping until the end'}
            return obs
    except vlib.Timeout:
        return {'hang': True}
    except (AttributeError, AssertionError, KeyError, IndexError) as e:
        obs['err'] = ERRMAP[type(e).__name__]
        return obs
    except Exception as e:
        return {'crash': '%s: %s' % (type(e).__name__, e)}


SX_NAMES = ['i', 'j', 'k', 'ab']


def _sx_eval(e, leaf_idx, leaf_num):
    k = e[0]
    if k == 'num':
        return leaf_num(F(e[1]))
    if k == 'idx':
        return leaf_idx(e[1])
    if k == 'neg':
        return -_sx_eval(e[1], leaf_idx, leaf_num)
    if k == 'div':
        return _sx_eval(e[1], leaf_idx, leaf_num) / leaf_num(F(e[2]))
    a, b = _sx_eval(e[1], leaf_idx, leaf_num), _sx_eval(e[2], leaf_idx, leaf_num)
    return a + b if k == 'add' else a - b if k == 'sub' else a * b


def run_impl_sexpr(case):
    """python operators on SimpleExpression (qupulse/program/__init__.py) for an expression tree over loop indices, and value(scope)"""
    from qupulse.program import SimpleExpression
    env = {n: int(v) for n, v in case['env'].items()}
    try:
        r = _sx_eval(case['expr'], lambda n: SimpleExpression(base=0, offsets={n: 1}), lambda q: float(q))
    except (TypeError, ZeroDivisionError) as e:
        return {'sx': 'err', 'exc': type(e).__name__}
    except Exception as e:
        return {'crash': '%s: %s' % (type(e).__name__, e)}
    try:
        if isinstance(r, SimpleExpression):
            return {'sx': 'exp', 'base': vlib.frac_json(r.base), 'offsets': [[n, vlib.frac_json(c)] for n, c in r.offsets.items()],
                    'value': vlib.frac_json(r.value(env))}
        return {'sx': 'num', 'num': vlib.frac_json(r)}
    except Exception as e:
        return {'crash': 'SimpleExpression.value: %s: %s' % (type(e).__name__, e)}


def g_sx(e):
    k = e[0]
    if k == 'num':
        return '(SXNum %s)' % gQ(F(e[1]))
    if k == 'idx':
        return '(SXIdx %s)' % vlib.gnat(SX_NAMES.index(e[1]))
    if k == 'neg':
        return '(SXNeg %s)' % g_sx(e[1])
    if k == 'div':
        return '(SXDiv %s %s)' % (g_sx(e[1]), gQ(F(e[2])))
    return '(SX%s %s %s)' % ({'add': 'Add', 'sub': 'Sub', 'mul': 'Mul'}[k], g_sx(e[1]), g_sx(e[2]))


def gen_sexpr_cases(rng, tier):
    """SimpleExpression arithmetic: deterministic operator table (every operator with expression / number on either side, nested,
    repeated names, a two-letter name) + random affine trees; a few trees the operators must refuse (index * index, x / 0)"""
    I, J, K, AB = ('idx', 'i'), ('idx', 'j'), ('idx', 'k'), ('idx', 'ab')
    N = lambda x: ('num', fs(x))
    det = [I, N('3/2'), ('add', I, N('1/4')), ('add', N('1/4'), I), ('add', I, J), ('add', I, I), ('add', ('add', J, I), ('add', I, K)),
           ('sub', I, N('1/2')), ('sub', N('1/2'), I), ('sub', I, J), ('sub', I, I), ('sub', ('add', I, J), ('sub', J, K)), ('neg', I),
           ('neg', ('sub', N(2), ('mul', N('1/2'), J))), ('mul', I, N('3/4')), ('mul', N('-2'), I), ('mul', N(0), I), ('mul', N(2), N(3)),
           ('mul', ('add', ('mul', N('1/2'), I), ('mul', J, N('1/4'))), N(-4)), ('div', I, '2'), ('div', ('add', I, N(1)), '-4'),
           ('div', N(3), '8'), ('add', ('mul', N('1/2'), AB), I), ('sub', ('mul', N(2), AB), ('mul', AB, N(2))),
           ('add', N('1/4'), ('add', ('mul', N('1/2'), I), ('mul', N('-1/4'), J))), ('sub', N('1/4'), ('mul', ('neg', I), N('1/2'))),
           ('mul', I, J), ('mul', ('add', I, N(1)), ('sub', J, N(1))), ('div', I, '0'), ('div', N(1), '0'), ('mul', ('mul', I, N(2)), I)]
    envs = [{'i': 3, 'j': -2, 'k': 5, 'ab': 7}, {'i': 0, 'j': 0, 'k': 0, 'ab': 0}, {'i': -1, 'j': 4, 'k': 1, 'ab': -3}]
    out = [{'kind': 'sexpr', 'channels': [], 'expr': e, 'env': envs[k % 3]} for k, e in enumerate(det)]

    def tree(depth, want_idx):
        if depth == 0 or rng.random() < 0.2:
            return rng.choice([I, J, K, AB]) if want_idx else N(rnd_dyadic(rng, -8, 8, 4))
        op = rng.choice(['add', 'add', 'sub', 'sub', 'neg', 'mul', 'div'])
        if op == 'neg':
            return ('neg', tree(depth - 1, want_idx))
        if op == 'div':
            return ('div', tree(depth - 1, want_idx), fs(rng.choice([2, -2, 4, F(1, 2), 8, 1])))
        if op == 'mul':
            a, b = tree(depth - 1, want_idx), tree(depth - 1, False)
            return ('mul', a, b) if rng.random() < 0.5 else ('mul', b, a)
        a, b = tree(depth - 1, want_idx and rng.random() < 0.7), tree(depth - 1, rng.random() < 0.6)
        return (op, a, b) if rng.random() < 0.5 else (op, b, a)
    for _ in range(60 if tier == 'quick' else 600):
        out.append({'kind': 'sexpr', 'channels': [], 'expr': tree(rng.choice([1, 2, 3, 4]), True),
                    'env': {n: rng.randint(-4, 6) for n in SX_NAMES}})
    return out


def _sx_jsonable(e):
    return [e[0]] + [_sx_jsonable(x) if isinstance(x, (tuple, list)) else x for x in e[1:]]


def run_impl_dur(case):
    """for i in range(n): hold(duration = d0 + d1*i, a = b + c*i).  Reference: the default program of the template.  The
    linspace program is built by driving LinSpaceBuilder directly with a SimpleExpression duration (through the template
    ConstantPT.build_waveform already fails on `duration > 0`; recorded as obs['template_path'])"""
    from qupulse.pulses import ConstantPT, ForLoopPT
    from qupulse.program import SimpleExpression
    from qupulse.program.linspace import LinSpaceBuilder, LinSpaceVM, to_increment_commands
    from qupulse.utils.types import TimeType
    n = case['n']
    d0, d1 = (F(x) for x in case['dur'])
    b, c = (F(x) for x in case['a'])
    try:
        with vlib.time_limit(20):
            pt = ForLoopPT(ConstantPT('(%r) + (%r)*i' % (float(d0), float(d1)), {'a': '(%r) + (%r)*i' % (float(b), float(c))}), 'i', (0, n, 1))
            dflt, dtot = _unroll_default(pt.create_program(), ['a'])
    except Exception as e:
        return {'crash': 'reference program failed: %s: %s' % (type(e).__name__, e)}
    obs = {'dflt': dflt, 'dflt_total': dtot, 'steps': 0}
    try:
        pt.create_program(program_builder=LinSpaceBuilder(('a',)))
        obs['template_path'] = 'built'
    except Exception as e:
        obs['template_path'] = type(e).__name__
    try:
        with vlib.time_limit(20):
            builder = LinSpaceBuilder(('a',))
            for bb in builder.with_iteration('i', range(n)):
                bb.hold_voltage(SimpleExpression(TimeType.from_fraction(d0.numerator, d0.denominator),
                                                 {'i': TimeType.from_fraction(d1.numerator, d1.denominator)}),
                                {'a': SimpleExpression(float(b), {'i': float(c)})})
            prog = builder.to_program()
            cmds = to_increment_commands(prog)
            vm = LinSpaceVM(1)
            vm.set_commands(cmds)
            vm.run()
            obs['hist'] = [[vlib.frac_json(t), [_val(v) for v in vals]] for t, vals in vm.history]
            obs['total'] = vlib.frac_json(vm.time)
            return obs
    except vlib.Timeout:
        return {'hang': True}
    except NotImplementedError:
        obs['err'] = 'ENotImpl'
        return obs
    except (AttributeError, AssertionError, KeyError, IndexError) as e:
        obs['err'] = ERRMAP[type(e).__name__]
        return obs
    except Exception as e:
        return {'crash': '%s: %s' % (type(e).__name__, e)}


# ---------------------------------------------------------------------------------------------------------------------
# Gallina

def g_oq(x):
    return 'None' if x is None else '(Some %s)' % gQ(F(x))


def g_hist(h):
    return glist(lambda e: '(%s, %s)' % (gQ(F(e[0])), glist(g_oq, e[1])), h)


def g_steps(h):
    return glist(lambda e: '(%s, %s)' % (gQ(F(e[0])), glist(lambda x: gQ(F(x)), e[1])), h)


def g_iobs(obs):
    if 'err' in obs:
        return '(IErr %s)' % obs['err']
    return '(IHist %s %s)' % (g_hist(obs['hist']), gQ(F(obs['total'])))


def fuel_of(case, obs):
    if case['kind'] in ('dur', 'sexpr'):
        return 64
    return 64 + 2 * obs.get('steps', 0) + len(obs['dflt']) * (len(case['channels']) + 12) * 2


def to_coq(case, obs):
    if 'crash' in obs or 'hang' in obs:
        return 'CCrash'
    chans = case['channels']
    if case['kind'] == 'sexpr':
        env = glist(lambda n: '(%s, %s)' % (vlib.gnat(SX_NAMES.index(n)), '(%d)%%Z' % int(case['env'][n])), sorted(case['env']))
        if obs['sx'] == 'err':
            o = 'SOErr'
        elif obs['sx'] == 'num':
            o = '(SONum %s)' % gQ(F(obs['num']))
        else:
            o = '(SOExp %s %s %s)' % (gQ(F(obs['base'])), glist(lambda nc: '(%s, %s)' % (vlib.gnat(SX_NAMES.index(nc[0])), gQ(F(nc[1]))), obs['offsets']),
                                     gQ(F(obs['value'])))
        return '(CSExpr %s %s %s)' % (g_sx(case['expr']), env, o)
    if case['kind'] == 'dur':
        return '(CDur %s %s %s %s)' % (glist(gQ, [F(case['dur'][1])]), g_iobs(obs), g_steps(obs['dflt']), gQ(F(obs['dflt_total'])))
    if case['kind'] == 'run' and _has(case['tree'], lambda x: x['t'] == 'remap'):
        return '(CRun2 %s %d%%positive %s %s %s %s %s)' % (
            vlib.gnat(len(chans)), fuel_of(case, obs), g_src2(case['tree'], chans), gbool(case.get('exact', True)), g_iobs(obs),
            g_steps(obs['dflt']), gQ(F(obs['dflt_total'])))
    src = g_src(case['tree'], chans)
    if case['kind'] == 'run':
        return '(CRun %s %d%%positive %s %s %s %s %s)' % (
            vlib.gnat(len(chans)), fuel_of(case, obs), src, gbool(case.get('exact', True)), g_iobs(obs),
            g_steps(obs['dflt']), gQ(F(obs['dflt_total'])))
    names = {ch: k for k, ch in enumerate(chans)}
    hw = glist(lambda h: '(%s, (%s, %s))' % ('None' if h[0] is None else '(Some %s)' % vlib.gN(names[h[0]]),
                                            gQ(F(h[1])), gQ(F(h[2]))), case['hw'])
    by = {}
    for h in case['hw']:
        if h[0] is not None and h[0] not in by:
            by[h[0]] = (F(h[1]), F(h[2]))
    by_idx = glist(lambda ch: '(%s, %s)' % (gQ(by[ch][0]), gQ(by[ch][1])), chans)
    return '(CScale %s %d%%positive %s %s %s %s %s %s)' % (
        vlib.gnat(len(chans)), fuel_of(case, obs), src, hw, by_idx, g_iobs(obs), g_steps(obs['dflt']),
        gQ(F(obs['dflt_total'])))


# ---------------------------------------------------------------------------------------------------------------------
# evidence helpers

def _has(tree, pred):
    return any(pred(x) for x in walk(tree))


def nontrivial(case, obs):
    if case['kind'] in ('dur', 'sexpr'):
        return True
    for x in walk(case['tree']):
        if x['t'] == 'iter' and len(range(x['start'], x['stop'], x['step'])) >= 2:
            if _has(x['body'], lambda h: h['t'] == 'hold' and any(v['k'] == 'aff' and F(v['coefs'].get(x['idx'], 0)) != 0
                                                                 for v in h['v'].values())):
                return True
    return False


def histogram_keys(case, obs):
    keys = [case['kind'], 'channels:%d' % len(case['channels'])]
    if case['kind'] == 'dur':
        return keys + ['dur:template_path=%s' % obs.get('template_path'), 'obs:' + obs.get('err', 'hist')]
    if case['kind'] == 'sexpr':
        return keys + ['sexpr:' + obs.get('sx', 'crash')]
    if case.get('fam'):
        keys.append('fam:' + case['fam'])
    kinds = {x['t'] for x in walk(case['tree'])}
    keys.extend('has:' + k for k in sorted(kinds))
    depth = 0

    def d(t, cur):
        nonlocal depth
        if t['t'] == 'iter':
            cur += 1
            depth = max(depth, cur)
        if t['t'] == 'seq':
            for x in t['l']:
                d(x, cur)
        elif t['t'] != 'hold':
            d(t['body'], cur)
    d(case['tree'], 0)
    keys.append('iter_depth:%d' % depth)
    for x in walk(case['tree']):
        if x['t'] == 'iter':
            keys.append('range_len:%d' % len(range(x['start'], x['stop'], x['step'])))
            if x['step'] < 0:
                keys.append('negative_step')
        if x['t'] == 'rep':
            keys.append('rep_count:%d' % x['n'])
        if x['t'] == 'hold' and 'via_map' in x:
            keys.append('hold_via_mapping')
    if 'err' in obs:
        keys.append('obs:' + obs['err'])
    elif 'hist' in obs:
        keys.append('obs:hist')
        keys.append('hist_len:%s' % ('0' if not obs['hist'] else '1-9' if len(obs['hist']) < 10 else '10-49' if len(obs['hist']) < 50 else '50+'))
    else:
        keys.append('obs:crash')
    if case.get('gt'):
        keys.extend('global_transformation:' + op[0] for op in case['gt'])
    for x in walk(case['tree']):
        if x['t'] == 'wrap':
            keys.extend('wrapped:' + op[0] for op in x['ops'])
        if x['t'] == 'hold' and x.get('split'):
            keys.append('hold_as_AtomicMultiChannelPT')
        if x['t'] == 'hold' and x.get('meas'):
            keys.append('hold_with_measurement')
    if case.get('reuse'):
        keys.append('reused_objects')
    if case['kind'] == 'scale' and any(h[0] is None for h in case['hw']):
        keys.append('scale:unused_outputs')
    if not case.get('exact', True):
        keys.append('inexact_decimal')
    return keys


# ---------------------------------------------------------------------------------------------------------------------
# known findings

def _reachable_holds(t, live=True):
    if t['t'] == 'hold':
        if live and F(t['dur']) > 0:
            yield t
    elif t['t'] == 'seq':
        for x in t['l']:
            yield from _reachable_holds(x, live)
    elif t['t'] == 'rep':
        yield from _reachable_holds(t['body'], live and t['n'] > 0)
    elif t['t'] == 'iter':
        yield from _reachable_holds(t['body'], live and len(range(t['start'], t['stop'], t['step'])) > 0)
    else:
        yield from _reachable_holds(t['body'], live)


def classify(case, obs):
    if 'crash' in obs or 'hang' in obs:
        return None
    return None


def _py_spec_ok(case, obs):
    """python reading of check_spec (used by search_failing / shrink): the implementation's history is the staircase of
    the default program; scale cases: with channel k replaced by (v - offset_k) / amplitude_k"""
    if case['kind'] == 'dur' and obs.get('err') == 'ENotImpl':
        return True          # explicit refusal: nothing is played
    if case['kind'] == 'sexpr':
        if 'sx' not in obs:
            return False
        try:
            want = _sx_eval(case['expr'], lambda n: F(int(case['env'][n])), lambda q: q)
        except ZeroDivisionError:
            return obs['sx'] == 'err'
        if obs['sx'] == 'err':
            def idx(e):
                return e[0] == 'idx' or any(idx(x) for x in e[1:] if isinstance(x, (tuple, list)))

            def affine(e):
                if e[0] in ('num', 'idx'):
                    return True
                if e[0] == 'mul':
                    return affine(e[1]) and affine(e[2]) and not (idx(e[1]) and idx(e[2]))
                return all(affine(x) for x in e[1:] if isinstance(x, (tuple, list)))
            return not affine(case['expr'])
        return F(obs['value'] if obs['sx'] == 'exp' else obs['num']) == want
    if 'hist' not in obs:
        return False
    if len(obs['hist']) != len(obs['dflt']) or F(obs['total']) != F(obs['dflt_total']):
        return False
    tol = 0 if case.get('exact', True) else F(1, 10 ** 9) * (len(obs['hist']) + 1)
    by = {}
    if case['kind'] == 'scale':
        for h in case['hw']:
            if h[0] is not None and h[0] not in by:
                by[h[0]] = (F(h[1]), F(h[2]))
    for (t1, v1), (t2, v2) in zip(obs['hist'], obs['dflt']):
        if F(t1) != F(t2) or len(v1) != len(v2):
            return False
        for ch, a, b in zip(case['channels'], v1, v2):
            if case['kind'] == 'scale':
                amp, off = by[ch]
                b = (F(b) - off) / amp
            if a is None or abs(F(a) - F(b)) > tol:
                return False
    return True


def search_failing(ctx, broken):
    """spec oracle against the implementation on a fresh stream (python reading of check_spec), known findings skipped"""
    import random
    rng = random.Random(ctx.get('seed', 0) + 17)
    known, _ = vlib.load_known_findings()
    known = known.get(PID, {})
    for case in gen_cases(rng, 'quick', ctx):
        obs = run_impl(case)
        if 'crash' in obs or 'hang' in obs:
            return case, obs, 'implementation crashed or hung'
        if not _py_spec_ok(case, obs):
            try:
                fid = classify(case, obs)
            except Exception:
                fid = None
            if fid in known:
                continue
            return case, obs, 'LinSpaceVM history differs from the staircase of the default program'
    return None


def shrink(case, obs, ctx):
    """greedy structural shrinking that keeps `spec fails and is not a known finding`"""
    known, _ = vlib.load_known_findings()
    known = known.get(PID, {})

    def bad(c):
        o = run_impl(c)
        if 'crash' in o or 'hang' in o:
            return None
        if _py_spec_ok(c, o):
            return None
        try:
            if classify(c, o) in known:
                return None
        except Exception:
            return None
        return o
    if bad(case) is None:
        return case, obs
    import copy
    cur, cur_obs = case, obs
    for _ in range(40):
        progressed = False
        for cand in _shrink_candidates(cur):
            o = bad(cand)
            if o is not None:
                cur, cur_obs, progressed = cand, o, True
                break
        if not progressed:
            break
    return cur, cur_obs


def _shrink_candidates(case):
    import copy
    if case['kind'] in ('dur', 'sexpr'):
        return
    tree = case['tree']

    def variants(t):
        k = t['t']
        if k == 'seq':
            for i in range(len(t['l'])):
                if len(t['l']) > 1:
                    yield {'t': 'seq', 'l': t['l'][:i] + t['l'][i + 1:]}
                for v in variants(t['l'][i]):
                    yield {'t': 'seq', 'l': t['l'][:i] + [v] + t['l'][i + 1:]}
            if len(t['l']) == 1:
                yield t['l'][0]
        elif k == 'rep':
            yield t['body']
            if t['n'] > 1:
                yield dict(t, n=t['n'] - 1)
            for v in variants(t['body']):
                yield dict(t, body=v)
        elif k == 'iter':
            n = len(range(t['start'], t['stop'], t['step']))
            if n > 1:
                yield dict(t, stop=t['start'] + (n - 1) * t['step'])
            if t['start'] != 0 or t['step'] != 1:
                yield dict(t, start=0, step=1, stop=n)
            for v in variants(t['body']):
                yield dict(t, body=v)
        elif k == 'remap':
            for v in variants(t['body']):
                yield dict(t, body=v)
        elif k == 'hold':
            if 'via_map' in t:
                h = dict(t)
                del h['via_map']
                yield h
    for v in variants(tree):
        c = copy.deepcopy(case)
        c['tree'] = copy.deepcopy(v)
        yield c
    if len(case['channels']) > 1:
        for drop in case['channels']:
            c = copy.deepcopy(case)
            c['channels'] = [x for x in case['channels'] if x != drop]
            for h in walk(c['tree']):
                if h['t'] == 'hold':
                    h['v'].pop(drop, None)
            yield c


MANIFEST = {
    'level_text': 'Proof of total correctness of the modelled pipeline (round 6: the translator half of totality) + exact correspondence. Proved in Coq (unbounded, closed under the global context): '
                  '(1) C17_staircase: for every source built from constant holds (plain / int / affine voltages, any number of '
                  'channels), sequences, iterations with any start/stop/step and repetitions of any count, nested to any depth: '
                  'whenever the modelled pipeline LinSpaceBuilder -> to_increment_commands -> LinSpaceVM returns a history it is '
                  'exactly the staircase of the source (same start times, same voltages as rationals, no NaN) with the same total '
                  'duration, for any fuel; hypotheses: one voltage per channel, steps <> 0, and no dependency-key collision by '
                  'rounding (two different slopes of one channel within 1e-9).  (2) the same for templates with loop-index rebinding '
                  'mappings.  (3) hardware scaling for ALL command lists.  (4) ties to the CURRENT source text, regenerated on every '
                  'run by a fail-closed translator: DepState.required_increment_from equals the model kernel; the command dataclasses, '
                  'LinSpaceVM.change_state/step/set_commands (one translated step refines one model step under a state relation, same '
                  'exception kinds; set_commands builds the label table the model searches for; run with fuel refines the model run) and '
                  '_TranslationState.set_voltage/_set_indexed_voltage/_add_hold_node (append exactly the model commands, same state) are '
                  'translated and proved against the model; ProgramEntry._transform_linspace_commands (comprehension + in-place rescaling loop) '
                  'is translated and proved equal to the model transformation; C17_staircase_source_vm: the staircase theorem with the translated VM in '
                  'place of the modelled one; index-dependent hold durations are refused (NotImplementedError).  Round 4: the rest of the '
                  'translator (DepKey.from_voltages, dependencies() of the node classes, new_loop, get_dependency_state, '
                  '_entry_state_unchanged_since, _add_repetition_node with the entry-state snapshot, _add_iteration_node, add_node, '
                  'to_increment_commands), LinSpaceVM.__init__/run and LinSpaceBuilder as a state machine (hold_voltage, with_repetition/'
                  'with_iteration/with_sequence split at the yield, to_program) are translated as well and proved equal to / refinements of '
                  'the model (C17_add_node_is_source, C17_to_increment_commands_is_source, C17_builder_is_source); C17_staircase_source_all: the '
                  'staircase theorem on translated code only (builder, translator, VM), for sources with loop indices by name; SimpleExpression '
                  'arithmetic (operators + value) is modelled, translated and proved to keep the value of every expression tree.  (5) refutation: the '
                  'round-1 statement is false without the key-collision guard.  Round 5 (audit): (6) C17_staircase_total_if_translated: if the '
                  'translator returns a command list, the VM runs it to the end (no KeyError / IndexError), returns the same history for every '
                  'fuel above a bound, and that history is the staircase; the builder never fails.  (7) index rebinding mappings: the substitution '
                  'used in (2) computes an independent denotation over rational index environments (C17_scope_flatten_is_denotation).  Round 6: (8) '
                  'C17_translator_returns(_program): to_increment_commands returns a command list for every program with the structure of a builder '
                  'output (no assertion of required_increment_from / _set_indexed_voltage fires; no key-collision hypothesis), also stated for the '
                  'function translated from the current source (C17_source_translator_returns); C17_staircase_total: for every well-formed source '
                  'without a key collision the modelled pipeline returns, for every fuel above a bound, one history, and it is the staircase; (9) the labels of a '
                  'translated program are pairwise different, so the label assertion of the translated LinSpaceVM.set_commands does not fire, and '
                  'C17_staircase_source_all_total: the total statement on code translated from the source only (builder, translator, VM; the driver and the '
                  'positional reading of names stay hand-written).  NOT proved: that the default Loop program plays the '
                  'staircase of the source term -- compared on every case; the tolerance clause for slopes within 1e-9 and float rounding -- '
                  'tested on a decimal stream; templates played through a Transformation and parameter / channel mappings -- tested only '
                  '(family trafo, new in round 5; never generated before).  The model is tied to /repo on every run by the exact '
                  'correspondence check (real pipeline vs model vs independently unrolled default Loop program).',
    'level_note': 'Trusted: Coq kernel/vm_compute; harness rendering of source terms to templates (cross-checked against the '
                  'default program on every case); qupulse Loop builder as reference; float arithmetic is exact on the generated '
                  'dyadic values (decimal values are a separate stream compared within resolution x steps); the translator with its '
                  'primitive table (GenLib.v), schemas and value semantics (aliasing is invisible to it); for C17_staircase_source_all the '
                  'hand-written driver (what the pulse templates call on the builder) and the positional reading of named sources.  Still '
                  'only hand-modelled (tied by the correspondence check alone): the sorting of the voltages by channel index in hold_voltage, '
                  'inner_scope, how the templates drive the builder.  Repaired in /repo: count-1 repetition played twice, int '
                  'voltages (round 1); repetition entry state, zero-factor aliasing, register shared across depths, index rebinding '
                  'under a repetition, unused outputs in the hardware scaling (round 2); shadowed loop index -> AssertionError (round 3, '
                  'a68b904); SimpleExpression.value iterated over the keys of its offsets (round 4, 0264c55).  No known finding left.',
    'technique': 'Coq proof over a hand-written executable model (builder, whole translator, VM, _transform_linspace_commands and the '
                 'increment kernel translated from source on every run and proved against it) + exact correspondence '
                 'check against the real pipeline',
    'design_ref': 'DESIGN.md §5 C17',
}
