"""C17 — deterministic case families for input classes the random generator does not reach reliably (round 3).

Every family is a full product over small parameter sets; the quick tier takes a stride of it whose offset comes from the
rng (all members are visited over the seeds), the thorough tier takes all of it.

  fam_rep_entry     a repetition (count >= 2) whose body is a complete sweep on a register that already has a DIFFERENT
                    state at the loop entry (left by a preceding sweep of the same slope, or by the previous line of a tilted
                    scan), while no channel of the body depends only on an enclosing index (so only the entry-state snapshot
                    can force the unrolled first pass)
  fam_equal_slope   two consecutive holds of one channel with the same slope where the second starts bit-exactly at the
                    value the register holds (split sweep; line jump of a tilted scan that cancels; the same hold twice)
  fam_alias         a loop index with coefficient exactly 1 written bare as the LEFT operand of a sum with a term of another
                    index (sympy orders the operands by symbol name), and a later use of the same index (a channel evaluated
                    later in the template's dict order, a following hold): aliasing of the shared scope object
  fam_scale         hardware scaling with amplitude != 1 AND offset != 0, separately on programs that consist of Set
                    commands only and on programs with Increment commands
  fam_single_pass   (round 4) an iteration with exactly one element that does not start at 0: its index still shifts the base
  fam_rep_plain     (round 4) a repetition whose first hold repeats the plain level left right before it and whose body ends on
                    another plain level: only the plain-voltage part of the entry snapshot forces the unrolled first pass
  fam_direct        (round 4) the builder interface called directly: with_repetition(0), operator orders of SimpleExpression
  fam_types         (round 4) numpy scalar / unsigned dtypes through the builder interface, shared template objects, hash-colliding keys
  fam_trafo         (round 5, clause audit: "transformations that keep affinity" were never generated) the template is played
                    through a Transformation: `global_transformation=` of create_program (Scaling / Offset / ParallelChannel /
                    Linear mixing two channels / chains), ArithmeticPT (*, /, +, -, mapping - template, index dependent offsets)
                    and ParallelChannelPT around the whole tree or around every hold; holds as AtomicMultiChannelPT, measurements
  fam_names         name coincidences: a swap mapping {i: j, j: i} around a hold, an index called like a channel, the identity
                    mapping of an index (m_i := i hands the shared scope object through under another name)
"""
import fractions
import itertools

F = fractions.Fraction


def fs(x):
    return str(F(x))


def H(dur, **v):
    """hand-written hold: H(1, a='1.5') plain, a=('0', {'i': '1/2'}) affine, a=2 int"""
    d = {}
    for ch, x in v.items():
        if isinstance(x, tuple):
            d[ch] = {'k': 'aff', 'base': fs(x[0]), 'coefs': {n: fs(c) for n, c in x[1].items()}}
        elif isinstance(x, int):
            d[ch] = {'k': 'int', 'v': x}
        else:
            d[ch] = {'k': 'plain', 'v': fs(x)}
    return {'t': 'hold', 'dur': fs(dur), 'v': d}


def IT(idx, rng_, body):
    return {'t': 'iter', 'idx': idx, 'start': rng_[0], 'stop': rng_[1], 'step': rng_[2], 'body': body}


def REP(n, body):
    return {'t': 'rep', 'n': n, 'body': body}


def SEQ(*l):
    return {'t': 'seq', 'l': list(l)}


def _run(tree, chans, fam):
    return {'kind': 'run', 'channels': list(chans), 'tree': tree, 'exact': True, 'fam': fam}


def _with_b(hold, bval):
    h = {'t': 'hold', 'dur': hold['dur'], 'v': dict(hold['v'])}
    if isinstance(bval, tuple):
        h['v']['b'] = {'k': 'aff', 'base': fs(bval[0]), 'coefs': {n: fs(c) for n, c in bval[1].items()}}
    else:
        h['v']['b'] = {'k': 'plain', 'v': fs(bval)}
    return h


def _map_holds(t, f):
    k = t['t']
    if k == 'hold':
        return f(t)
    if k == 'seq':
        return {'t': 'seq', 'l': [_map_holds(x, f) for x in t['l']]}
    return dict(t, body=_map_holds(t['body'], f))


def _idx_in_scope(t, path=()):
    """yields (hold, enclosing index names)"""
    if t['t'] == 'hold':
        yield t, path
    elif t['t'] == 'seq':
        for x in t['l']:
            yield from _idx_in_scope(x, path)
    elif t['t'] == 'iter':
        yield from _idx_in_scope(t['body'], path + (t['idx'],))
    else:
        yield from _idx_in_scope(t['body'], path)


def _two_channel_variants(tree, fam):
    """the one-channel tree itself, and with a second channel b that is plain / sweeps on the innermost index of each hold
    (never a function of an enclosing index only), in both builder channel orders"""
    yield _run(tree, ['a'], fam)
    for mode in ('plain', 'inner'):
        scopes = {id(h): p for h, p in _idx_in_scope(tree)}

        def add(h, mode=mode, scopes=scopes):
            p = scopes[id(h)]
            if mode == 'plain' or not p:
                return _with_b(h, '1/2')
            return _with_b(h, ('-1/4', {p[-1]: '1/2'}))
        t2 = _map_holds(tree, add)
        yield _run(t2, ['a', 'b'], fam)
        yield _run(t2, ['b', 'a'], fam)


def fam_rep_entry(thorough):
    fam = 'rep_entry'
    out = []
    slopes = ['1/4', '-1/2', '1', '1/8'] if thorough else ['1/4', '-1/2']
    # (a) sweep A followed by a repeated sweep B with the same slope (same register), other base
    for c in slopes:
        for m, n in [(4, 3), (2, 2), (3, 3), (1, 2), (3, 1), (2, 4)]:
            for cnt in (2, 3):
                for b2 in ('1', fs(F(c) * (m - 1)), fs(F(c) * m), '0'):
                    first = IT('i', (0, m, 1), H(1, a=('0', {'i': c})))
                    rep = REP(cnt, IT('j', (0, n, 1), H(1, a=(b2, {'j': c}))))
                    out.extend(_two_channel_variants(SEQ(first, rep), fam))
    # (b) tilted scan whose lines are repeated: the body's first increment is the line jump
    for c in slopes[:2]:
        for n in (2, 3, 4):
            for d in ('1/8', fs(F(c) * (n - 1)), '-1/4'):
                for cnt in (2, 3):
                    for kr in ((0, 3, 1), (2, -1, -1), (1, 6, 2)):
                        line = IT('i', (0, n, 1), H(1, a=('0', {'k': d, 'i': c})))
                        out.extend(_two_channel_variants(IT('k', kr, REP(cnt, line)), fam))
    # (c) the body ends in another register / a plain voltage of the channel; nested repetitions; negative steps
    for c in slopes[:2]:
        for cnt in (2, 3):
            first = IT('i', (0, 3, 1), H(1, a=('0', {'i': c})))
            sweep = IT('j', (0, 3, 1), H(1, a=('1', {'j': c})))
            down = IT('j', (4, 0, -2), H(1, a=('1', {'j': c})))
            for body in (SEQ(sweep, H(1, a='5/2')), SEQ(H(1, a='5/2'), sweep), SEQ(sweep, IT('j', (0, 2, 1), H(1, a=('0', {'j': '3/2'})))),
                         REP(2, sweep), down, SEQ(sweep, sweep)):
                out.extend(_two_channel_variants(SEQ(first, REP(cnt, body)), fam))
                out.extend(_two_channel_variants(SEQ(first, H(2, a='-1/2'), REP(cnt, body)), fam))
    # (d) the same inside an outer loop whose index the swept channel does not use
    for cnt in (2, 3):
        first = IT('i', (0, 3, 1), H(1, a=('0', {'i': '1/4'})))
        rep = REP(cnt, IT('j', (0, 2, 1), H(1, a=('1', {'j': '1/4'}))))
        out.extend(_two_channel_variants(IT('k', (0, 2, 1), SEQ(H(1, a=('0', {'k': '2'})), first, rep)), fam))
    return out


def fam_equal_slope(thorough):
    fam = 'equal_slope'
    out = []
    slopes = ['1/4', '-1/2', '1', '3/2'] if thorough else ['1/4', '-1/2']
    # (a) a sweep split in two: the second half starts exactly at the value the register holds
    for c in slopes:
        for n in (2, 3, 4):
            for m in (1, 2, 3):
                for b0 in ('0', '1/2'):
                    end = F(b0) + F(c) * (n - 1)
                    first = IT('i', (0, n, 1), H(1, a=(b0, {'i': c})))
                    second = IT('j', (0, m, 1), H(1, a=(fs(end), {'j': c})))
                    out.extend(_two_channel_variants(SEQ(first, second), fam))
                    if b0 == '0':
                        out.extend(_two_channel_variants(REP(2, SEQ(first, second)), fam))
                        # another register of the channel in between: the Increment(0) must be emitted to re-activate
                        mid = IT('j', (0, 2, 1), H(1, a=('0', {'j': '2'})))
                        out.append(_run(SEQ(first, mid, second), ['a'], fam))
                        out.append(_run(SEQ(first, H(1, a=fs(end)), second), ['a'], fam))
    # (b) ranges with start/step: the first sweep ends at start + step*(n-1)
    for c in slopes[:2]:
        for (st, sp, n) in [(1, 2, 3), (5, -2, 3), (-2, 3, 2)]:
            rng1 = (st, st + sp * n, sp)
            end = F(c) * (st + sp * (n - 1))
            first = IT('i', rng1, H(1, a=('0', {'i': c})))
            second = IT('j', rng1, H(1, a=(fs(end - F(c) * st), {'j': c})))
            out.extend(_two_channel_variants(SEQ(first, second), fam))
    # (c) tilted scan whose line jump cancels: outer factor == inner factor * (inner length - 1)
    for fi in slopes:
        for L in (2, 3, 4):
            for nx in (2, 3):
                fo = F(fi) * (L - 1)
                scan = IT('x', (0, nx, 1), IT('y', (0, L, 1), H(1, a=('0', {'x': fs(fo), 'y': fi}))))
                out.extend(_two_channel_variants(scan, fam))
                out.append(_run(IT('y', (0, L, 1), IT('x', (0, nx, 1), H(1, a=('1/4', {'y': fs(F(fi) * (nx - 1)), 'x': fi})))), ['a'], fam))
    # (d) the same hold twice in one loop body (second: increment 0 on the active register)
    for c in slopes[:2]:
        for n in (1, 2, 3):
            h = H(1, a=('1/4', {'i': c}))
            out.extend(_two_channel_variants(IT('i', (0, n, 1), SEQ(h, dict(h, dur='2'))), fam))
            out.extend(_two_channel_variants(IT('i', (0, n, 1), SEQ(h, h, H(1, a='3/2'), h)), fam))
            out.extend(_two_channel_variants(IT('i', (0, n, 1), REP(2, h)), fam))
    return out


def fam_alias(thorough):
    fam = 'alias'
    out = []
    pairs = [('i', 'j'), ('j', 'i'), ('i', 'k'), ('k', 'j')] if thorough else [('i', 'j'), ('j', 'i')]
    for outer, inner in pairs:
        lo, hi = sorted((outer, inner))       # sympy puts the term of `lo` first
        coef_sets = [{lo: '1', hi: '1/2'}, {lo: '1/2', hi: '1'}, {lo: '1', hi: '1'}, {lo: '1', hi: '-1'}, {lo: '-1', hi: '1/4'}]
        for coefs in coef_sets:
            for base in ('0', '1/4'):
                a = {'k': 'aff', 'base': base, 'coefs': dict(coefs), 'style': 5}

                def nest(body):
                    return IT(outer, (0, 3, 1), IT(inner, (0, 2, 1), body))
                # later use by another channel: b uses lo / hi / bare lo; template dict order a,b and b,a
                for bcoefs in ({lo: '1/4'}, {hi: '1/4'}, {lo: '1'}, {lo: '1', hi: '1/8'}):
                    b = {'k': 'aff', 'base': '0', 'coefs': dict(bcoefs), 'style': 5}
                    for vorder in (['a', 'b'], ['b', 'a']):
                        h = {'t': 'hold', 'dur': '1', 'v': {'a': a, 'b': b}, 'vorder': vorder}
                        out.append(_run(nest(h), ['a', 'b'], fam))
                        if thorough:
                            out.append(_run(nest(h), ['b', 'a'], fam))
                # later use by a following hold of the same body / after the inner loop
                for later in ({lo: '1/4'}, {hi: '1/4'}, {lo: '1'}):
                    h1 = {'t': 'hold', 'dur': '1', 'v': {'a': a}}
                    h2 = {'t': 'hold', 'dur': '1', 'v': {'a': {'k': 'aff', 'base': '0', 'coefs': dict(later), 'style': 5}}}
                    out.append(_run(nest(SEQ(h1, h2)), ['a'], fam))
                    if set(later) == {outer}:
                        out.append(_run(IT(outer, (0, 3, 1), SEQ(IT(inner, (0, 2, 1), h1), h2)), ['a'], fam))
                # the bare index handed through by an identity mapping (m_x := x)
                hm = {'t': 'hold', 'dur': '1', 'v': {'a': a, 'b': {'k': 'aff', 'base': '0', 'coefs': {lo: '1/4'}, 'style': 5}},
                      'via_map': {lo: {'var': 'm_' + lo, 'scale': '1', 'shift': '0'}}}
                out.append(_run(nest(hm), ['a', 'b'], fam))
    return out


def fam_names(thorough):
    fam = 'names'
    out = []
    swaps = [{'i': {'var': 'j', 'scale': '1', 'shift': '0'}, 'j': {'var': 'i', 'scale': '1', 'shift': '0'}},
             {'i': {'var': 'j', 'scale': '2', 'shift': '1'}, 'j': {'var': 'i', 'scale': '-1', 'shift': '0'}}]
    for ca, cb in (({'i': '1/2'}, {'j': '1/4'}), ({'i': '1/2', 'j': '1'}, {'i': '1/4'}), ({'j': '1'}, {'i': '1', 'j': '-1/2'})):
        for style in (0, 5):
            for swap in swaps:
                # the hold is written with the two index names exchanged and wrapped in the mapping {i: j, j: i}
                h0 = {'t': 'hold', 'dur': '1',
                      'v': {'a': {'k': 'aff', 'base': '1/4', 'coefs': dict(ca), 'style': style},
                            'b': {'k': 'aff', 'base': '0', 'coefs': dict(cb), 'style': style}}}
                h = dict(h0, via_map=swap)
                for nest in (lambda b: IT('i', (0, 3, 1), IT('j', (0, 2, 1), b)), lambda b: IT('j', (1, 4, 1), IT('i', (0, 2, 1), b)),
                             lambda b: IT('i', (0, 2, 1), REP(2, IT('j', (0, 2, 1), b)))):
                    out.append(_run(nest(h), ['a', 'b'], fam))
                    out.append(_run(nest(SEQ(h, h0)), ['b', 'a'], fam))
    # a loop index bound again by an inner loop of the same name (shadowing; former AssertionError, repaired a68b904)
    for c_out, c_in in (('1/2', '1/4'), ('1', '1'), ('-1/2', '2')):
        outer_h = H(1, a=('4', {'i': c_out}), b=('0', {'i': '1'}))
        inner_h = H(1, a=('0', {'i': c_in}), b='1/2')
        for inner_rng in ((0, 2, 1), (3, 0, -1), (1, 2, 1)):
            inner = IT('i', inner_rng, inner_h)
            for body in (SEQ(outer_h, inner), SEQ(inner, outer_h), SEQ(outer_h, REP(2, inner), outer_h)):
                out.append(_run(IT('i', (0, 3, 1), body), ['a', 'b'], fam))
                out.append(_run(REP(2, IT('i', (1, 4, 2), body)), ['b', 'a'], fam))
    mid = IT('j', (0, 2, 1), SEQ(H(1, a=('0', {'i': '1/2', 'j': '1/4'})), IT('i', (0, 3, 1), H(1, a=('1', {'i': '1/8', 'j': '1'})))))
    out.append(_run(IT('i', (0, 2, 1), mid), ['a'], fam))
    # loop indices called like the channels
    out.append(_run(IT('a', (0, 3, 1), IT('b', (0, 2, 1), H(1, a=('0', {'a': '1/2', 'b': '1/4'}), b=('1', {'b': '1/2'})))), ['a', 'b'], fam))
    out.append(_run(IT('b', (0, 3, 1), H(1, a=('0', {'b': '1/2'}), b=('1', {'b': '1'}))), ['b', 'a'], fam))
    return out


def fam_scale(thorough):
    out = []
    amps = ['2', '1/2', '-2', '4', '1'] if thorough else ['2', '1/2', '-2', '1']
    offs = ['1/4', '-1', '3/2', '0'] if thorough else ['1/4', '-1', '0']
    set_only = [
        SEQ(H(1, a='3/2'), H(1, a='-1/2'), H(2, a='3/2')),
        SEQ(H(1, a=2), H(1, a='1/4')),
        IT('i', (3, 4, 1), SEQ(H(1, a=('1/2', {'i': '1/4'})), H(1, a=('0', {'i': '-1/2'})))),   # length 1: registers are only Set
        REP(3, SEQ(H(1, a='1'), H(1, a='-2'))),
    ]
    with_inc = [
        IT('i', (0, 4, 1), H(1, a=('1', {'i': '1/4'}))),
        IT('j', (0, 3, 1), IT('i', (0, 3, 1), H(1, a=('-1/2', {'j': '1/2', 'i': '1/4'})))),
        IT('i', (5, 0, -2), SEQ(H(1, a=('0', {'i': '1/2'})), H(1, a='3/2'))),
        SEQ(IT('i', (0, 3, 1), H(1, a=('0', {'i': '1/4'}))), REP(2, IT('j', (0, 2, 1), H(1, a=('1', {'j': '1/4'}))))),
    ]
    for amp, off in itertools.product(amps, offs):
        for kind, trees in (('scale_set', set_only), ('scale_inc', with_inc)):
            for tree in trees:
                out.append({'kind': 'scale', 'channels': ['a'], 'hw': [['a', amp, off]], 'tree': tree, 'fam': kind})
                def add_b(h, kind=kind):
                    names = _first_idx(h)
                    if kind == 'scale_set' or not names:
                        return _with_b(h, '1/2')
                    return _with_b(h, ('-1/4', {names[0]: '1/2'}))
                t2 = _map_holds(tree, add_b)
                # the outputs are listed in the builder's channel order (commands carry only the channel index)
                out.append({'kind': 'scale', 'channels': ['a', 'b'], 'tree': t2, 'fam': kind,
                            'hw': [['a', amp, off], [None, '8', '5/4'], ['b', '1/2', '-3/4']]})
                out.append({'kind': 'scale', 'channels': ['b', 'a'], 'tree': t2, 'fam': kind,
                            'hw': [[None, '8', '5/4'], ['b', '1/2', '-3/4'], ['a', amp, off]]})
    return out


def fam_single_pass(thorough):
    """round 4 (seed C17-5): an iteration whose range has exactly ONE element and does not start at 0 (range(3, 4), range(2, 5, 7),
    range(-2, -3, -1)): the loop is never incremented, but its index still contributes `start * coefficient` to the base.  The
    single-pass loop is the inner / the outer / the middle level of a nest, alone, under a repetition, next to a sibling hold that
    uses only the other index; voltages depend on it on one or both channels."""
    fam = 'single_pass'
    out = []
    singles = [(3, 4, 1), (2, 5, 7), (-2, -3, -1), (5, 4, -3), (1, 2, 1)] if thorough else [(3, 4, 1), (2, 5, 7), (-2, -3, -1)]
    zero_starts = [(0, 1, 1), (0, 5, 7)]                # same shape, start 0: the contribution vanishes
    for rj in singles + zero_starts:
        for ci, cj in (('1/4', '1/8'), ('-1/2', '1'), ('0', '1/2')):
            a = ('1/4', {'i': ci, 'j': cj}) if ci != '0' else ('1/4', {'j': cj})
            b = ('1', {'j': '-1/4'}) if ci != '0' else ('1', {'j': '-1/4', 'i': '1/2'})    # every enclosing index is used
            h = H(1, a=a, b=b)
            hi = H(1, a=('0', {'i': '1/2'}), b='1/2')
            hj = H(1, a=('1/4', {'j': cj}), b=('1', {'j': '-1/4'}))
            for chans in (['a', 'b'], ['b', 'a']):
                out.append(_run(IT('j', rj, SEQ(hj, H(2, a='1/2', b=('0', {'j': '1'})))), chans, fam))     # alone
                out.append(_run(IT('i', (0, 3, 1), IT('j', rj, h)), chans, fam))                       # inner
                out.append(_run(IT('j', rj, IT('i', (0, 3, 1), h)), chans, fam))                       # outer
                out.append(_run(IT('i', (1, 4, 2), SEQ(hi, IT('j', rj, h), hi)), chans, fam))          # between siblings
            out.append(_run(REP(2, IT('j', rj, IT('i', (0, 2, 1), h))), ['a', 'b'], fam))               # repeated
            out.append(_run(IT('k', (0, 2, 1), IT('j', rj, IT('i', (0, 2, 1), H(1, a=(a[0], dict(a[1], k='2')), b=b)))), ['a', 'b'], fam))   # middle
            out.append(_run(IT('j', rj, IT('i', (4, 5, 1), h)), ['a', 'b'], fam))                       # two single passes
            out.append(_run(IT('j', rj, H(1, a=('1/4', {'j': cj}))), ['a'], fam))
    return out


def fam_rep_plain(thorough):
    """round 4 (seed C17-6): a repetition (count >= 2) whose FIRST hold repeats, on some channel, exactly the plain level the hold
    right before the repetition left there (its Set is elided against the entry state) and whose body ENDS on a different plain
    level of that channel, while all index dependent registers and active registers are the same at the end of the body as at its
    entry: only the plain-voltage part of the entry snapshot forces the unrolled first pass.  At top level, after a sweep, inside
    a sweep (other channel swept), one or both channels keeping their level, body of 2 / 3 holds, nested repetition."""
    fam = 'rep_plain'
    out = []
    levels = [('1/8', '3/8', '1/4', '-3/8'), ('0', '1/2', '1', '1/2'), ('1/4', '-1/4', '1/4', '3/4')]
    if thorough:
        levels += [('3/2', '0', '-3/2', '0'), ('1', '1', '2', '1')]
    for cnt in (2, 3):
        for (a0, b0, a1, b1) in levels:
            rest, pulse = H(1, a=a0, b=b0), H(2, a=a1, b=b1)
            init_a = H(1, a='7/8', b=b0)             # only channel b keeps its level across the entry
            init_b = H(1, a=a0, b='-7/8')            # only channel a
            for chans in (['a', 'b'], ['b', 'a']):
                out.append(_run(SEQ(rest, REP(cnt, SEQ(rest, pulse))), chans, fam))
                out.append(_run(SEQ(init_a, REP(cnt, SEQ(rest, pulse))), chans, fam))
                out.append(_run(SEQ(init_b, REP(cnt, SEQ(rest, pulse))), chans, fam))
                out.append(_run(SEQ(pulse, rest, REP(cnt, SEQ(rest, pulse, H(1, a=a1, b=b0)))), chans, fam))
            out.append(_run(SEQ(H(1, a=a0), REP(cnt, SEQ(H(1, a=a0), H(2, a=a1)))), ['a'], fam))
            out.append(_run(SEQ(rest, REP(2, REP(cnt, SEQ(rest, pulse)))), ['a', 'b'], fam))
            out.append(_run(REP(2, SEQ(rest, REP(cnt, SEQ(rest, pulse)))), ['a', 'b'], fam))
            # inside a sweep: channel a is swept (its register state is the same at entry and exit of the body), b plays plain levels
            for c in ('1/8', '-1/4'):
                h0 = H(1, a=('-1/4', {'i': c}), b=b0)
                h1 = H(1, a=('-1/4', {'i': c}), b=b1)
                for chans in (['a', 'b'], ['b', 'a']):
                    out.append(_run(IT('i', (0, 4, 1), SEQ(h0, REP(cnt, SEQ(h0, h1)))), chans, fam))
                    out.append(_run(IT('i', (2, 0, -1), SEQ(h1, h0, REP(cnt, SEQ(h0, h1, h1)))), chans, fam))
                # after a complete sweep of a: the repetition starts on the level b had during the sweep
                sw = IT('i', (0, 3, 1), H(1, a=('0', {'i': c}), b=b0))
                out.append(_run(SEQ(sw, REP(cnt, SEQ(H(1, a='1/2', b=b0), H(1, a='1/2', b=b1)))), ['a', 'b'], fam))
    return out


def _direct(case, dstyle=0):
    def f(h):
        h2 = {'t': 'hold', 'dur': h['dur'], 'v': {}}
        for ch, v in h['v'].items():
            h2['v'][ch] = dict(v, dstyle=dstyle) if v['k'] == 'aff' else v
        return h2
    return dict(case, tree=_map_holds(case['tree'], f), direct=True, fam='direct')


def fam_direct(thorough):
    """round 4 (coverage audit): the program is built by calling the ProgramBuilder interface directly instead of through pulse
    templates (two code paths that must stay in sync).  Reaches what the templates never do: `with_repetition(0)` (RepetitionPT
    does not call the builder for a count of 0), voltages written as python arithmetic on the index expressions (number + c*i,
    number - i*(-c), i/(1/c) + number: __radd__/__rsub__/__neg__/__truediv__ of SimpleExpression).  Reference = default program of
    the corresponding template."""
    out = []
    h = H(1, a=('1/4', {'i': '1/2'}), b='1/2')
    h2 = H(2, a=('0', {'i': '-1/4'}), b=('1', {'i': '1'}))
    p1, p2 = H(1, a='1/2', b='-1'), H(1, a='3/2', b='-1')
    zero = [REP(0, p1), SEQ(p1, REP(0, p2), p2), SEQ(REP(0, p1), p2), REP(2, SEQ(p1, REP(0, p2))), REP(0, REP(2, p1)), REP(3, REP(0, p1)),
            IT('i', (0, 3, 1), SEQ(h, REP(0, h2), h2)), IT('i', (0, 3, 1), REP(0, h)), IT('i', (1, 4, 2), SEQ(REP(0, h), h)),
            SEQ(p1, IT('i', (0, 2, 1), REP(0, h)), p1), REP(2, IT('i', (0, 2, 1), SEQ(REP(0, h2), h)))]
    for t in zero:
        for chans in (['a', 'b'], ['b', 'a']):
            out.append(_direct(_run(t, chans, 'direct')))
            out.append(_run(t, chans, 'direct'))                      # the same through the templates
    nest = IT('j', (2, -1, -1), IT('i', (0, 3, 1), SEQ(H(1, a=('1/4', {'i': '1/2', 'j': '-1/4'}), b=('0', {'j': '2'})),
                                                       REP(2, H(1, a=('0', {'i': '1/8'}), b='1/2')))))
    for ds in (0, 1, 2, 3):
        out.append(_direct(_run(nest, ['a', 'b'], 'direct'), ds))
        out.append(_direct(_run(IT('i', (3, 4, 1), SEQ(h, h2)), ['b', 'a'], 'direct'), ds))
        out.append(_direct(_run(SEQ(IT('i', (0, 3, 1), h), REP(2, IT('i', (0, 2, 1), h2))), ['a', 'b'], 'direct'), ds))
    # members of the round-4 families driven directly (no mapping / dict-order variants in those)
    for k, c in enumerate(fam_single_pass(thorough)[::6] + fam_rep_plain(thorough)[::6]):
        out.append(_direct(c, k % 4))
    return out


def _np(t, bits):
    """the same tree with numpy scalar types everywhere (direct mode only): voltages float32 / uint8, SimpleExpression over float64 /
    float32, repetition counts uint8 / uint64, range bounds int64 / int16 / int8"""
    k = t['t']
    if k == 'hold':
        return {'t': 'hold', 'dur': t['dur'], 'v': {ch: dict(v, np=True) for ch, v in t['v'].items()}}
    if k == 'seq':
        return {'t': 'seq', 'l': [_np(x, bits) for x in t['l']]}
    return dict(t, body=_np(t['body'], bits), np=bits)


def fam_types(thorough):
    """round 4 (classes named in the brief): numpy scalar / unsigned dtypes handed to the builder interface (counts as uint8 / uint64:
    `count - 1` must not wrap; voltages float32 / uint8); the very same template OBJECT at several places of one tree (`share`);
    dependency keys whose python hashes collide (hash(-1) == hash(-2): slopes -1e-9 and -2e-9 on one channel, bases far apart)."""
    out = []
    h = H(1, a=('1/4', {'i': '1/2'}), b=3)
    p1, p2 = H(1, a='1/2', b=200), H(2, a='-3/2', b=7)
    trees = [REP(1, SEQ(p1, p2)), REP(2, SEQ(p1, p2)), SEQ(p1, REP(3, SEQ(p1, p2))), IT('i', (0, 3, 1), SEQ(h, REP(2, h))),
             REP(2, IT('i', (3, 0, -1), h)), SEQ(IT('i', (0, 3, 1), h), REP(2, IT('i', (0, 2, 1), H(1, a=('1', {'i': '1/2'}), b=0)))),
             REP(255, p1) if thorough else REP(17, p1)]
    for t in trees:
        for bits in (8, 64):
            out.append(dict(_run(_np(t, bits), ['a', 'b'], 'types'), direct=True))
    # the same object several times among the children of a sequence / as body of two loops
    hh = H(1, a=('0', {'i': '1/4'}), b='1/2')
    pp = H(1, a='1/8', b='3/8')
    for t in (SEQ(pp, pp, REP(2, SEQ(pp, H(2, a='1/4', b='-3/8'))), pp), IT('i', (0, 3, 1), SEQ(hh, hh, REP(2, hh))),
              SEQ(IT('i', (0, 3, 1), hh), IT('i', (0, 3, 1), hh)), SEQ(REP(2, IT('i', (0, 2, 1), hh)), REP(2, IT('i', (0, 2, 1), hh))),
              IT('j', (0, 2, 1), SEQ(IT('i', (0, 2, 1), H(1, a=('0', {'i': '1/4', 'j': '1'}), b='1/2')), IT('i', (0, 2, 1), H(1, a=('0', {'i': '1/4', 'j': '1'}), b='1/2'))))):
        for chans in (['a', 'b'], ['b', 'a']):
            out.append(dict(_run(t, chans, 'types'), share=True))
            out.append(dict(_run(t, chans, 'types'), share=True, reuse=True))
    # colliding hashes of dependency keys: DepKey((-1,)) and DepKey((-2,)) (and (-1, -2) / (-2, -1))
    e = F(1, 10 ** 9)
    for s1, s2 in ((-1, -2), (-2, -1), (1, -1)):
        t = IT('i', (0, 4, 1), SEQ(H(1, a=('1', {'i': fs(s1 * e)})), H(1, a=('3', {'i': fs(s2 * e)})), H(1, a=('1', {'i': fs(s1 * e)}))))
        out.append(dict(_run(t, ['a'], 'types'), exact=False))
        t2 = IT('j', (0, 2, 1), IT('i', (0, 3, 1), SEQ(H(1, a=('1', {'j': fs(s1 * e), 'i': fs(s2 * e)})), H(1, a=('4', {'j': fs(s2 * e), 'i': fs(s1 * e)})))))
        out.append(dict(_run(t2, ['a'], 'types'), exact=False))
    return out


def fam_trafo(thorough):
    """round 5 (clause audit): `transformations that keep affinity` of the quantifier.  The tree of a case carries the voltages the
    template DENOTES (after the transformation); the harness renders the pre-image (c17.py `_preimage`) and applies the
    transformation: `gt` = global_transformation of create_program (default and linspace program alike), `wrap` nodes = ArithmeticPT /
    ParallelChannelPT around a sub-template.  The transformed values reach hold_voltage as SimpleExpression arithmetic done by the
    Transformation classes (expr * float, expr + float, matrix @ object array: np.float64 * expr + np.float64 * expr)."""
    fam = 'trafo'
    out = []
    trees = [
        IT('i', (0, 4, 1), H(1, a=('-1', {'i': '1/4'}), b='1/2')),
        IT('j', (0, 3, 1), IT('i', (0, 3, 1), H(1, a=('0', {'i': '1/4', 'j': '1/8'}), b=('-1/2', {'j': '1/2'})))),
        IT('j', (0, 2, 1), IT('i', (0, 3, 1), SEQ(H(1, a='-1/2', b='-1/4'), H(2, a=('-1', {'i': '1/4'}), b=('-1/2', {'j': '1/2'})),
                                                  H(1, a='1/8', b='1/4')))),
        SEQ(H(1, a='1/8', b='3/8'), REP(3, SEQ(H(1, a='1/8', b='3/8'), H(2, a='1/4', b='-3/8')))),
        SEQ(IT('i', (0, 3, 1), H(1, a=('0', {'i': '1/4'}), b='1/2')), REP(2, IT('j', (0, 2, 1), H(1, a=('1', {'j': '1/4'}), b='1/2')))),
        IT('i', (3, 4, 1), SEQ(H(1, a=('1/2', {'i': '1/4'}), b=('0', {'i': '-1/2'})), H(1, a='1', b='2'))),
        IT('i', (5, 0, -2), REP(2, H(1, a=('0', {'i': '1/2'}), b=('1', {'i': '1'})))),
    ]
    if not thorough:
        trees = trees[:5]
    lin = lambda m: ['linear', ['a', 'b'], m]
    kwarg_ops = [
        [['scale', {'a': '2'}]], [['scale', {'a': '1/2', 'b': '-2'}]], [['offset', {'a': '1/2'}]], [['offset', {'a': '-1', 'b': '1/4'}]],
        [['scale', {'a': '2'}], ['offset', {'a': '1/4'}]], [['offset', {'a': '1/4'}], ['scale', {'a': '2'}]],
        [['par', {'c': '3/2'}]], [['scale', {'a': '2'}], ['par', {'c': '-1/2'}]],
        [lin([['1', '1/2'], ['0', '1']])], [lin([['1', '1'], ['1', '-1']])], [lin([['0', '1'], ['1', '0']])],
        [lin([['1', '0'], ['1/4', '1']]), ['offset', {'b': '1/2'}]],
    ]
    wrap_ops = [
        ([['scale', {'a': '2', 'b': '1/2'}]], None), ([['scale', {'a': '-1/4'}]], 'div'), ([['offset', {'a': '1/2', 'b': '-1/4'}]], None),
        ([['offset', {'b': '3/4'}]], 'sub'), ([['rsub', {'a': '1', 'b': '0'}]], None), ([['rsub', {'a': '1/2'}]], None),
        ([['par', {'c': '3/2'}]], None), ([['scale', {'b': '2'}], ['offset', {'b': '1/4'}], ['par', {'c': '1/8'}]], None),
        ([['chmap', {'a': 'b', 'b': 'a'}]], None), ([['chmap', {'a': 'b', 'b': 'a'}], ['scale', {'a': '2'}]], None),   # channel swap by MappingPT
    ]

    def with_c(tree, ops):
        vals = {}
        for op in ops:
            if op[0] == 'par':
                vals.update(op[1])
        if not vals:
            return tree, ['a', 'b']

        def add(h):
            h2 = {'t': 'hold', 'dur': h['dur'], 'v': dict(h['v'])}
            for ch, val in vals.items():
                h2['v'][ch] = {'k': 'plain', 'v': fs(val)}
            return h2
        return _map_holds(tree, add), ['a', 'b'] + sorted(vals)

    def flags(t, n):
        # every third member: holds as AtomicMultiChannelPT of one-channel ConstantPTs / with a measurement window
        if n % 3 == 1:
            return _map_holds(t, lambda h: dict(h, split=True))
        if n % 3 == 2:
            return _map_holds(t, lambda h: dict(h, meas=True))
        return t

    n = 0
    for tree in trees:
        for ops in kwarg_ops:
            t, chans = with_c(tree, ops)
            for order in (chans, chans[::-1]):
                n += 1
                out.append(dict(_run(flags(t, n), order, fam), gt=ops))
        for ops, how in wrap_ops:
            t, chans = with_c(tree, ops)
            for k, order in enumerate((chans, chans[::-1])):
                n += 1
                whole = {'t': 'wrap', 'ops': ops, 'how': how, 'body': flags(t, n)}
                out.append(_run(whole, order, fam))
                per_hold = _map_holds(flags(t, n + 1), lambda h: {'t': 'wrap', 'ops': ops, 'how': how, 'body': h})
                out.append(_run(per_hold, order, fam))
        # an offset that depends on the innermost loop index of each hold (SimpleExpression + SimpleExpression in OffsetTransformation)
        scopes = {id(h): p for h, p in _idx_in_scope(tree)}

        def idx_off(h):
            p = scopes[id(h)]
            off = {'base': '1/4', 'coefs': {p[-1]: '1/2'}} if p else '1/4'
            return {'t': 'wrap', 'ops': [['offset', {'a': off}]], 'how': None, 'body': h}
        t = _map_holds(tree, idx_off)
        out.append(_run(t, ['a', 'b'], fam))
        out.append(dict(_run(t, ['b', 'a'], fam), gt=[['scale', {'a': '2', 'b': '-1'}]]))     # under a global transformation as well
    # the value of a channel is the BARE loop index (the scope object shared by all holds of the loop body) and becomes the LEFT
    # operand of the sum with an index dependent offset; the index is used again by the next hold (aliasing class of C17-2)
    for name, other in (('i', 'j'), ('j', 'i')):
        off = {'base': '1/4', 'coefs': {name: '1/2', other: '1/8'}}
        bare = {'t': 'hold', 'dur': '1', 'v': {'a': {'k': 'aff', 'base': '1/4', 'coefs': {name: '3/2', other: '1/8'}, 'style': 5},
                                               'b': {'k': 'aff', 'base': '0', 'coefs': {name: '1/4'}, 'style': 5}}}
        h1 = {'t': 'wrap', 'ops': [['offset', {'a': off}]], 'how': None, 'body': bare}
        h2 = H(1, a=('0', {name: '1/4'}), b=('1', {name: '1'}))
        for chans in (['a', 'b'], ['b', 'a']):
            out.append(_run(IT(other, (0, 2, 1), IT(name, (0, 3, 1), SEQ(h1, h2))), chans, fam))
            out.append(_run(IT(name, (1, 4, 1), SEQ(IT(other, (0, 2, 1), h1), h2)), chans, fam))
    return out


def _first_idx(h):
    for v in h['v'].values():
        if v['k'] == 'aff':
            return [n for n in v['coefs']]
    return []


def families(rng, tier):
    thorough = tier != 'quick'
    out = []
    strides = {'rep_entry': 8, 'equal_slope': 5, 'alias': 3, 'names': 2, 'scale': 3, 'single_pass': 4, 'rep_plain': 4, 'direct': 2, 'types': 1, 'trafo': 5}
    for name, f in (('rep_entry', fam_rep_entry), ('equal_slope', fam_equal_slope), ('alias', fam_alias), ('names', fam_names),
                    ('scale', fam_scale), ('single_pass', fam_single_pass), ('rep_plain', fam_rep_plain), ('direct', fam_direct), ('types', fam_types), ('trafo', fam_trafo)):
        cases = f(thorough)
        if not thorough:
            k = strides[name]
            cases = cases[rng.randrange(k)::k]
        out.extend(cases)
    return out
