"""C02 round 3 — input classes the round-1/2 generators could not produce (all are ordinary `prog` cases, i.e. judged
by the same Coq model / specification; only the way the templates are CONSTRUCTED and CALLED differs):

  share   the same template OBJECT at several places of one tree (build_pt memoises structurally equal subtrees when the
          case says share=True) - under one mapping, under different measurement mappings, inside a repetition / for
          loop / reversal, as both operands of an ArithmeticAtomicPT
  twice   create_program called twice on the same object; the SECOND program is the observation, the first must agree
  rebind  a MappingPT that rebinds the loop index (to an expression of itself, of another index, of a parameter)
          between a ForLoopPT and a measured RepetitionPT / atom
  rename  measurement names that coincide after renaming, swap / cyclic renamings, renaming onto a dropped name,
          the same at the top-level measurement mapping
  tparam  a parameter called `t` (the time variable inside FunctionPT / TablePT expressions) in declarations

`C` is the c02 module (helpers, constants), `g` its generator object."""
import copy
import fractions
import itertools

F = fractions.Fraction


def _A(C, name, b, dur=2, chs=('A',), cls='const', length=1):
    return {'k': 'atom', 'cls': cls, 'dur': C.e_c(dur) if not isinstance(dur, list) else dur,
            'ms': [[name, C.e_c(b) if not isinstance(b, list) else b, C.e_c(length)]], 'chs': list(chs)}


def _swap_map(C, body, rng=None, how=None):
    names = sorted(n for n in C.meas_names(body) if n is not None)
    mm = {}
    if len(names) >= 2:
        a, b = names[0], names[1]
        how = how or rng.choice(['swap', 'collide', 'drop-collide', 'cycle'])
        if how == 'swap':
            mm = {a: b, b: a}
        elif how == 'collide':
            mm = {a: b}
        elif how == 'drop-collide':
            mm = {a: None, b: a}
        else:
            c = names[2] if len(names) > 2 else 'm5'
            mm = {a: b, b: c}
            if c in names:
                mm[c] = a
    elif names:
        mm = {names[0]: 'm%d' % ((int(names[0][1:]) + 1) % C.NMEAS)}
    return {'k': 'map', 'pm': {}, 'mm': mm, 'cs': [], 'body': body}


def _measured(C, g, chs, d, tries=20):
    for _ in range(tries):
        x = g.node(chs, [], d)
        if any(n is not None for n in C.meas_names(x)) and not (C.free_params(x) & {'i0', 'i1', 'i2'}):
            return x
    return _A(C, 'm0', 0, chs=chs)


def gen_share(rng, g, C):
    chs = ['A', 'B'] if rng.random() < 0.4 else ['A']
    r = rng.random()
    if r < 0.3:
        x = g.atomic(chs, [], g.dur_expr([]), rng.choice([0, 1, 2]))
        if not C.meas_names(x):
            x = _A(C, 'm%d' % rng.randrange(C.NMEAS), rng.choice(C.TIMES), chs=chs, cls=rng.choice(['const', 'table', 'point']))
    else:
        x = _measured(C, g, chs, rng.choice([1, 1, 2]))
    cp = lambda: copy.deepcopy(x)
    other = g.atom(chs, [])
    idx_atom = {'k': 'atom', 'cls': 'const', 'dur': ['+', C.e_c(1), ['v', 'i0']], 'chs': list(chs),
                'ms': [['m%d' % rng.randrange(C.NMEAS), ['*', C.e_c(F(1, 2)), ['v', 'i0']], C.e_c(F(1, 2))]]}
    ctx = rng.choice(['seq2', 'seq_map', 'rep_seq', 'for', 'rev', 'nested', 'arith', 'seq3', 'for_first', 'single'])
    if ctx == 'arith' and not (C.kinds(x)[0] in ('atom', 'multi', 'arith') and set(C.kinds(x)) <= {'atom', 'multi', 'arith', 'map'}):
        ctx = 'seq2'
    if ctx == 'seq2':
        t = {'k': 'seq', 'ms': g.decls([]), 'subs': [cp(), cp()]}
    elif ctx == 'seq3':
        t = {'k': 'seq', 'ms': g.decls([]), 'subs': [cp(), other, cp()]}
    elif ctx == 'seq_map':
        subs = [cp(), _swap_map(C, cp(), rng)]
        if rng.random() < 0.5:
            subs.reverse()
        t = {'k': 'seq', 'ms': g.decls([]), 'subs': subs + ([cp()] if rng.random() < 0.3 else [])}
    elif ctx == 'rep_seq':
        t = {'k': 'seq', 'ms': g.decls([]),
             'subs': [{'k': 'rep', 'ms': g.decls([]), 'count': C.e_c(rng.choice([1, 2, 3])), 'body': cp()}, cp()]}
    elif ctx == 'for':
        t = {'k': 'for', 'ms': g.decls([]), 'idx': 'i0', 'start': C.e_c(0), 'stop': C.e_c(rng.choice([1, 2, 3])),
             'step': C.e_c(1), 'body': {'k': 'seq', 'ms': g.decls(['i0']), 'subs': [cp(), idx_atom, cp()]}}
    elif ctx == 'for_first':
        # the shared node is the FIRST child of the iteration's sequence (its window list is what a guard extends)
        t = {'k': 'for', 'ms': g.decls([]), 'idx': 'i0', 'start': C.e_c(0), 'stop': C.e_c(rng.choice([2, 3])),
             'step': C.e_c(1), 'body': {'k': 'seq', 'ms': g.decls([]), 'subs': [cp(), idx_atom]}}
    elif ctx == 'rev':
        t = {'k': 'seq', 'ms': g.decls([]), 'subs': [cp(), {'k': 'rev', 'body': {'k': 'seq', 'ms': [], 'subs': [cp(), other]}}]}
    elif ctx == 'nested':
        t = {'k': 'seq', 'ms': g.decls([]), 'subs': [{'k': 'seq', 'ms': g.decls([]), 'subs': [cp(), other]}, cp()]}
    elif ctx == 'single':
        t = {'k': 'seq', 'ms': g.decls([]), 'subs': [cp(), {'k': 'single', 'body': {'k': 'seq', 'ms': [], 'subs': [cp(), cp()]}}]}
    else:
        t = {'k': 'arith', 'ms': g.decls([]), 'op': rng.choice(['+', '-']), 'l': cp(), 'r': cp()}
    if rng.random() < 0.3:
        t = {'k': 'seq', 'ms': [], 'subs': [t, copy.deepcopy(t)]}
    return {'kind': 'prog', 'pt': t, 'env': g.env(), 'mm': g.top_mm(t), 'share': True,
            'twice': rng.random() < 0.4, 'family': 'share:' + ctx}


def _rebind_exprs(C, idx, rng=None):
    v = ['v', idx]
    out = [['+', v, C.e_c(1)], ['*', C.e_c(2), v], ['*', v, v], ['-', C.e_c(3), v], ['+', ['v', 'a'], v]]
    return out if rng is None else rng.choice(out)


def gen_rebind(rng, g, C):
    chs = ['A']
    i = 'i0'
    dur = rng.choice([['+', C.e_c(1), ['v', i]], ['+', C.e_c(F(1, 2)), ['*', C.e_c(F(1, 2)), ['*', ['v', i], ['v', i]]]],
                      ['+', ['v', 'a'], ['*', ['v', i], ['v', i]]]])
    atom = {'k': 'atom', 'cls': rng.choice(['const', 'table', 'point', 'func']), 'dur': dur, 'chs': chs,
            'ms': [['m%d' % rng.randrange(C.NMEAS), rng.choice([['*', C.e_c(F(1, 2)), ['v', i]], ['*', ['v', i], ['v', i]], C.e_c(0)]),
                    C.e_c(rng.choice([F(1, 2), 1]))]]}
    rep = {'k': 'rep', 'ms': [['m%d' % rng.randrange(C.NMEAS), rng.choice([['v', i], ['*', C.e_c(F(1, 4)), ['v', i]], C.e_c(F(1, 2))]),
                               C.e_c(1)]] if rng.random() < 0.8 else [],
           'count': rng.choice([C.e_c(2), C.e_c(3), ['v', 'n1'], C.e_c(1)]), 'body': atom}
    shape = rng.choice(['for-map-rep', 'for-rep-map', 'for-map-rep-map', 'for-map-for', 'for-map-atom', 'for-seq-map'])
    mk = lambda body, key=i: {'k': 'map', 'pm': {key: _rebind_exprs(C, i, rng)}, 'mm': {}, 'cs': [], 'body': body}
    if shape == 'for-map-rep':
        body = mk(rep)
    elif shape == 'for-rep-map':
        body = dict(rep, body=mk(atom))
    elif shape == 'for-map-rep-map':
        body = mk(dict(rep, body=mk(atom)))
    elif shape == 'for-map-atom':
        body = mk(atom)
    elif shape == 'for-seq-map':
        body = {'k': 'seq', 'ms': [['m%d' % rng.randrange(C.NMEAS), ['v', i], C.e_c(1)]], 'subs': [mk(rep), copy.deepcopy(atom)]}
    else:
        # an inner loop whose index is bound to an expression of the OUTER index by a mapping around it, and an inner
        # mapping that renames the inner index to the outer one's name (shadowing)
        inner_atom = {'k': 'atom', 'cls': 'const', 'dur': ['+', C.e_c(1), ['v', 'i1']], 'chs': chs,
                      'ms': [['m%d' % rng.randrange(C.NMEAS), ['*', C.e_c(F(1, 2)), ['v', 'i1']], C.e_c(F(1, 2))]]}
        inner = {'k': 'for', 'ms': g.decls([i]), 'idx': 'i1', 'start': C.e_c(0), 'stop': ['+', C.e_c(1), ['v', i]], 'step': C.e_c(1),
                 'body': {'k': 'seq', 'ms': [], 'subs': [inner_atom, copy.deepcopy(atom)]}}
        body = mk(inner)
    rg = rng.choice([(0, 2, 1), (0, 3, 1), (0, 3, 2), (2, 0, -1), (1, 3, 1), (0, 1, 1)])
    t = {'k': 'for', 'ms': g.decls([]), 'idx': i, 'start': C.e_c(rg[0]), 'stop': C.e_c(rg[1]), 'step': C.e_c(rg[2]), 'body': body}
    if i not in C.free_params(body):
        t['body'] = g.force_index(body, i, chs)
    if rng.random() < 0.3:
        t = {'k': rng.choice(['rev', 'single']), 'body': t}
    return {'kind': 'prog', 'pt': t, 'env': g.env(), 'mm': g.top_mm(t), 'family': 'rebind:' + shape,
            'twice': rng.random() < 0.2}


def gen_rename(rng, g, C):
    chs = ['A', 'B'] if rng.random() < 0.3 else ['A']
    for _ in range(30):
        x = g.node(chs, [], rng.choice([1, 2, 2, 3]))
        names = sorted(n for n in C.meas_names(x) if n is not None)
        if len(names) >= 2 and not (C.free_params(x) & {'i0', 'i1', 'i2'}):
            break
    else:
        x = {'k': 'seq', 'ms': [['m0', C.e_c(0), C.e_c(1)]], 'subs': [_A(C, 'm0', 0, chs=chs), _A(C, 'm1', F(1, 2), chs=chs)]}
    how = rng.choice(['swap', 'collide', 'drop-collide', 'cycle'])
    t = _swap_map(C, x, how=how)
    r = rng.random()
    if r < 0.3:                       # two mappings directly nested: merged by the constructor
        t = _swap_map(C, t, rng)
    elif r < 0.5:                     # ... kept apart by a constraint on the inner one
        t['cs'] = [[True, ['v', 'a'], C.e_c(100)]]
        t = _swap_map(C, t, rng)
    elif r < 0.7:                     # a declaration with one of the names between the two mappings
        t = _swap_map(C, {'k': 'seq', 'ms': [[rng.choice(sorted(C.meas_names(t) - {None}) or ['m0']), C.e_c(F(1, 4)), C.e_c(F(1, 4))]],
                          'subs': [t]}, rng)
    names = sorted(n for n in C.meas_names(t) if n is not None)
    mm = None
    r = rng.random()
    if r < 0.35 and len(names) >= 2:
        mm = {n: n for n in names}
        mm[names[0]], mm[names[1]] = names[1], names[0]
    elif r < 0.55 and len(names) >= 2:
        mm = {n: names[0] for n in names}               # everything onto one name
    elif r < 0.7 and names:
        mm = {n: n for n in names}
        mm[names[0]] = None
    elif r < 0.85:
        mm = g.top_mm(t)
    return {'kind': 'prog', 'pt': t, 'env': g.env(), 'mm': mm, 'family': 'rename:' + how, 'twice': rng.random() < 0.15}


def gen_tparam(rng, g, C):
    """a parameter called t in begins / lengths (and, through a mapping, bound to an expression of itself)"""
    chs = ['A']
    tv = ['v', 't']
    decl = lambda: ['m%d' % rng.randrange(C.NMEAS), rng.choice([tv, ['*', C.e_c(F(1, 2)), tv], ['+', tv, C.e_c(F(1, 2))]]),
                    rng.choice([C.e_c(1), tv])]
    atom = lambda: {'k': 'atom', 'cls': rng.choice(['const', 'table', 'point', 'func']), 'dur': C.e_c(rng.choice([2, 3])),
                    'chs': chs, 'ms': [decl()]}
    x = atom()
    r = rng.random()
    if r < 0.3:
        t = {'k': 'seq', 'ms': [decl()], 'subs': [x, atom()]}
    elif r < 0.6:
        t = {'k': 'seq', 'ms': [], 'subs': [x, {'k': 'map', 'pm': {'t': rng.choice([['*', C.e_c(2), tv], ['+', tv, C.e_c(1)], ['v', 'a']])},
                                                 'mm': {}, 'cs': [], 'body': atom()}]}
    elif r < 0.8:
        t = {'k': 'rep', 'ms': [decl()], 'count': C.e_c(2), 'body': x}
    else:
        t = {'k': 'rev', 'body': {'k': 'seq', 'ms': [decl()], 'subs': [x, atom()]}}
    env = g.env()
    env['t'] = str(rng.choice([F(0), F(1, 2), F(1), F(3, 2)]))
    return {'kind': 'prog', 'pt': t, 'env': env, 'mm': g.top_mm(t), 'family': 'tparam', 'twice': rng.random() < 0.2}


# ---- exhaustive small scopes ------------------------------------------------------------------------------------------

def enum_alias(C):
    A0 = _A(C, 'm0', 0)
    A1 = _A(C, 'm1', F(1, 2), dur=1)
    AI = {'k': 'atom', 'cls': 'const', 'dur': ['+', C.e_c(1), ['v', 'i0']], 'chs': ['A'],
          'ms': [['m2', ['*', C.e_c(F(1, 2)), ['v', 'i0']], C.e_c(F(1, 2))]]}
    own = [['m3', C.e_c(F(1, 2)), C.e_c(1)]]
    xs = [A0,
          {'k': 'seq', 'ms': own, 'subs': [A0, A1]},
          {'k': 'multi', 'ms': own, 'subs': [A0]},
          {'k': 'arith', 'ms': own, 'op': '+', 'l': A0, 'r': A0},
          {'k': 'rep', 'ms': own, 'count': C.e_c(2), 'body': A0},
          {'k': 'for', 'ms': own, 'idx': 'i0', 'start': C.e_c(0), 'stop': C.e_c(2), 'step': C.e_c(1),
           'body': {'k': 'seq', 'ms': [], 'subs': [A0, AI]}}]
    out = []
    for x in xs:
        cp = lambda: copy.deepcopy(x)
        has_idx = x['k'] == 'for'
        ctxs = [{'k': 'seq', 'ms': [], 'subs': [cp(), cp()]},
                {'k': 'seq', 'ms': own, 'subs': [cp(), A1, cp()]},
                {'k': 'seq', 'ms': [], 'subs': [cp(), _swap_map(C, cp(), how='swap')]},
                {'k': 'seq', 'ms': [], 'subs': [_swap_map(C, cp(), how='collide'), cp()]},
                {'k': 'rep', 'ms': own, 'count': C.e_c(2), 'body': {'k': 'seq', 'ms': [], 'subs': [cp(), cp()]}},
                {'k': 'rev', 'body': {'k': 'seq', 'ms': own, 'subs': [cp(), A1, cp()]}},
                {'k': 'seq', 'ms': own, 'subs': [{'k': 'seq', 'ms': own, 'subs': [cp()]}, cp()]},
                {'k': 'seq', 'ms': [], 'subs': [cp(), {'k': 'single', 'body': {'k': 'seq', 'ms': [], 'subs': [cp(), cp()]}}]}]
        if not has_idx:
            ctxs.append({'k': 'for', 'ms': own, 'idx': 'i0', 'start': C.e_c(0), 'stop': C.e_c(2), 'step': C.e_c(1),
                         'body': {'k': 'seq', 'ms': [], 'subs': [cp(), AI]}})
            ctxs.append({'k': 'for', 'ms': [], 'idx': 'i0', 'start': C.e_c(0), 'stop': C.e_c(3), 'step': C.e_c(1),
                         'body': {'k': 'seq', 'ms': own, 'subs': [cp(), AI, cp()]}})
        for t in ctxs:
            for twice in (False, True):
                out.append({'kind': 'prog', 'pt': t, 'env': {p: '1' for p in C.PARAMS}, 'mm': None, 'share': True,
                            'twice': twice, 'family': 'share:enum'})
    return out


def enum_rebind(C):
    i = ['v', 'i0']
    atom = {'k': 'atom', 'cls': 'const', 'dur': ['+', C.e_c(1), i], 'chs': ['A'],
            'ms': [['m0', ['*', C.e_c(F(1, 2)), i], C.e_c(F(1, 2))]]}
    out = []
    for rg, e, inner, w in itertools.product([(0, 2, 1), (0, 3, 2), (2, 0, -1)], _rebind_exprs(C, 'i0'), [0, 1, 2, 3], [0, 1]):
        mk = lambda body: {'k': 'map', 'pm': {'i0': e}, 'mm': {}, 'cs': [], 'body': body}
        rep = {'k': 'rep', 'ms': [['m1', i, C.e_c(1)]], 'count': C.e_c(2), 'body': atom}
        body = [mk(atom), mk(rep), dict(rep, body=mk(atom)), mk(dict(rep, body=mk(atom)))][inner]
        t = {'k': 'for', 'ms': [['m2', C.e_c(0), C.e_c(1)]] if w else [], 'idx': 'i0', 'start': C.e_c(rg[0]),
             'stop': C.e_c(rg[1]), 'step': C.e_c(rg[2]), 'body': body}
        out.append({'kind': 'prog', 'pt': t, 'env': {p: '1' for p in C.PARAMS}, 'mm': None, 'family': 'rebind:enum'})
    return out


def enum_rename(C):
    body = {'k': 'seq', 'ms': [['m0', C.e_c(F(1, 4)), C.e_c(F(1, 4))]], 'subs': [_A(C, 'm0', 0), _A(C, 'm1', F(1, 2), dur=1)]}
    opts = ['-', 'm0', 'm1', 'm2', None]
    out = []
    for v0, v1 in itertools.product(opts, repeat=2):
        mm = {n: v for n, v in (('m0', v0), ('m1', v1)) if v != '-'}
        t = {'k': 'map', 'pm': {}, 'mm': mm, 'cs': [], 'body': body}
        ext = sorted(n for n in C.meas_names(t) if n is not None)
        tops = [None]
        if len(ext) >= 2:
            s = {n: n for n in ext}
            s[ext[0]], s[ext[1]] = ext[1], ext[0]
            tops.append(s)
        if ext:
            tops.append({n: ext[-1] for n in ext})
        for top in tops:
            out.append({'kind': 'prog', 'pt': t, 'env': {p: '1' for p in C.PARAMS}, 'mm': top, 'family': 'rename:enum'})
            out.append({'kind': 'prog', 'pt': {'k': 'seq', 'ms': [['m1', C.e_c(0), C.e_c(1)]], 'subs': [t, copy.deepcopy(body)]},
                        'env': {p: '1' for p in C.PARAMS},
                        'mm': None if top is None else dict({'m0': 'm0', 'm1': 'm1'}, **top), 'share': True,
                        'family': 'rename:enum'})
    return out
