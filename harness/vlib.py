"""Shared machinery of the qupulse verification framework (see /verif/DESIGN.md, /verif/FRAMEWORK.md).

Everything here is property-independent:
  * Gallina printers for Python values (exact: ints, Fractions, floats via as_integer_ratio)
  * building the Coq development (incremental `make` under flock) and reading Print Assumptions
  * evaluating generated `cases_*.v` files with vm_compute inside coqc (sharded, parallel)
  * known-finding bookkeeping, replay files, evidence files
"""
import contextlib
import fcntl
import fractions
import hashlib
import json
import os, threading
import random
import re
import shutil
import signal
import subprocess
import sys
import time

VERIF = '/verif'
COQ = os.path.join(VERIF, 'coq')
REPO = os.environ.get('VERIF_REPO', '/repo')
CASES = os.path.join(COQ, 'cases')
BUILD = os.path.join(VERIF, 'build')
COQC_TIMEOUT = 600

# Axioms of the standard library a theorem may depend on (each named in DESIGN §6); anything else is rejected.
AXIOM_WHITELIST = {
    'functional_extensionality_dep', 'FunctionalExtensionality.functional_extensionality_dep',
    'Eqdep.Eq_rect_eq.eq_rect_eq', 'eq_rect_eq', 'JMeq_eq', 'JMeq.JMeq_eq',
    'Classical_Prop.classic', 'classic', 'proof_irrelevance', 'ProofIrrelevance.proof_irrelevance',
    'propositional_extensionality', 'PropExtensionality.propositional_extensionality',
    'ClassicalDedekindReals.sig_forall_dec', 'ClassicalDedekindReals.sig_not_dec',
    'sig_forall_dec', 'sig_not_dec',
}

FORBIDDEN_RE = re.compile(
    r'\b(Admitted|admit|Axiom|Axioms|Parameter|Parameters|Conjecture|Admit\s+Obligations|bypass_check|'
    r'Unset\s+Guard\s+Checking|Unset\s+Positivity\s+Checking|Unset\s+Universe\s+Checking|type-in-type|impredicative-set)\b')


# --------------------------------------------------------------------------------------------------------------------
# Gallina printers

def gZ(n):
    n = int(n)
    return '(%d)%%Z' % n


def gN(n):
    n = int(n)
    assert n >= 0
    return '%d%%N' % n


def gnat(n):
    n = int(n)
    assert 0 <= n < 5000, 'nat literal too large: %r' % n
    return '%d%%nat' % n


def gbool(b):
    return 'true' if b else 'false'


def to_fraction(x):
    """Exact rational value of an int / Fraction / float / TimeType / mpq / numpy scalar."""
    if isinstance(x, fractions.Fraction):
        return x
    if isinstance(x, bool):
        return fractions.Fraction(int(x))
    if isinstance(x, int):
        return fractions.Fraction(x)
    if isinstance(x, float):
        return fractions.Fraction(*x.as_integer_ratio())
    if hasattr(x, 'numerator') and hasattr(x, 'denominator'):
        num = x.numerator() if callable(x.numerator) else x.numerator
        den = x.denominator() if callable(x.denominator) else x.denominator
        return fractions.Fraction(int(num), int(den))
    if hasattr(x, 'item'):
        return to_fraction(x.item())
    if hasattr(x, 'p') and hasattr(x, 'q'):  # sympy Rational
        return fractions.Fraction(int(x.p), int(x.q))
    raise TypeError('no exact rational for %r (%s)' % (x, type(x)))


def gQ(x):
    f = to_fraction(x)
    return '(%d # %d)' % (f.numerator, f.denominator)


def gopt(p, x):
    return 'None' if x is None else '(Some %s)' % p(x)


def glist(p, xs):
    return '[' + '; '.join(p(x) for x in xs) + ']'


def gpair(pa, pb, ab):
    return '(%s, %s)' % (pa(ab[0]), pb(ab[1]))


def gstr(s):
    assert all(32 <= ord(c) < 127 and c != '"' for c in s), s
    return '"%s"%%string' % s


def frac_json(x):
    """JSON-able exact representation of a rational (for replay/evidence files)."""
    f = to_fraction(x)
    return '%d/%d' % (f.numerator, f.denominator) if f.denominator != 1 else str(f.numerator)


def frac_parse(s):
    return fractions.Fraction(s)


# --------------------------------------------------------------------------------------------------------------------
# process helpers

class Timeout(Exception):
    pass


@contextlib.contextmanager
def time_limit(seconds):
    """Raise Timeout in the main thread if the body runs longer than `seconds` (wall clock)."""
    def handler(signum, frame):
        raise Timeout()
    old = signal.signal(signal.SIGALRM, handler)
    signal.setitimer(signal.ITIMER_REAL, seconds)
    try:
        yield
    finally:
        signal.setitimer(signal.ITIMER_REAL, 0)
        signal.signal(signal.SIGALRM, old)


def sh(cmd, timeout=None, cwd=None, env=None):
    r = subprocess.run(cmd, cwd=cwd, env=env, stdout=subprocess.PIPE, stderr=subprocess.STDOUT, text=True,
                       timeout=timeout)
    return r.returncode, r.stdout


@contextlib.contextmanager
def build_lock():
    os.makedirs(BUILD, exist_ok=True)
    with open(os.path.join(BUILD, '.coq.lock'), 'w') as fh:
        fcntl.flock(fh, fcntl.LOCK_EX)
        try:
            yield
        finally:
            fcntl.flock(fh, fcntl.LOCK_UN)


def write_if_changed(path, text):
    try:
        with open(path) as fh:
            if fh.read() == text:
                return False
    except FileNotFoundError:
        pass
    os.makedirs(os.path.dirname(path), exist_ok=True)
    tmp = path + '.tmp.%d' % os.getpid()
    with open(tmp, 'w') as fh:
        fh.write(text)
    os.replace(tmp, path)
    return True


# --------------------------------------------------------------------------------------------------------------------
# Coq build / assumptions

def scan_forbidden(paths):
    """grep the given .v files for constructs the brief forbids. Returns list of 'file:line: text'."""
    hits = []
    for p in paths:
        with open(p) as fh:
            txt = fh.read()
        # strip comments (non-nested is enough for our sources; nested handled by loop)
        prev = None
        while prev != txt:
            prev = txt
            txt = re.sub(r'\(\*(?:(?!\(\*|\*\)).)*\*\)', lambda m: '\n' * m.group(0).count('\n'), txt, flags=re.S)
        for i, line in enumerate(txt.split('\n'), 1):
            if FORBIDDEN_RE.search(line):
                hits.append('%s:%d: %s' % (p, i, line.strip()))
    return hits


def coq_sources(subdirs):
    out = []
    for d in subdirs:
        root = os.path.join(COQ, d)
        for dp, _, fns in os.walk(root):
            for fn in sorted(fns):
                if fn.endswith('.v'):
                    out.append(os.path.join(dp, fn))
    return out


def _coqdep(files):
    """{vo: (v, [dep vo, ...])} for the given .v files (paths relative to COQ)."""
    rc, out = sh(['coqdep', '-R', '.', 'QV'] + files, cwd=COQ, timeout=300)
    deps = {}
    for line in out.split('\n'):
        if ':' not in line:
            continue
        lhs, rhs = line.split(':', 1)
        tgts = lhs.split()
        if not tgts or not tgts[0].endswith('.vo'):
            continue
        vo = os.path.normpath(tgts[0])
        rs = [os.path.normpath(x) for x in rhs.split()]
        v = [x for x in rs if x.endswith('.v')]
        deps[vo] = (v[0] if v else vo[:-1], [x for x in rs if x.endswith('.vo')])
    return deps


_SERIAL = threading.Lock()


def _coqc_retrying(cmd, cwd, timeout):
    """Run coqc.  A coqc that was killed by a signal or died without a Coq error message (the kernel's OOM killer,
    "Fatal error: out of memory") says nothing about the development: it is re-run, one at a time, up to two more
    times.  A genuine Coq error (message starting with "Error:") is returned at once."""
    def run():
        return subprocess.run(cmd, cwd=cwd, stdout=subprocess.PIPE, stderr=subprocess.STDOUT, text=True, timeout=timeout)
    r = run()
    for attempt in range(2):
        if r.returncode == 0 or (r.returncode > 0 and 'Error:' in r.stdout and 'ut of memory' not in r.stdout):
            return r
        with _SERIAL:
            time.sleep(5 * (attempt + 1))
            r = run()
    return r



def coq_make(targets, jobs=8, timeout=1500):
    """(Re)build the given .vo targets (paths relative to /verif/coq) and what they depend on.

    Own dependency-driven builder (coqdep + coqc, full .vo compilation) with ONE LOCK PER PROPERTY DIRECTORY, so that
    checks of different properties never wait for each other (the shared coq_makefile build is used by setup.sh only).
    Returns (ok, log)."""
    import concurrent.futures
    targets = [os.path.normpath(t) for t in targets]
    dirs = sorted({t.split('/')[0] for t in targets} | {'common'})
    os.makedirs(BUILD, exist_ok=True)
    lockpath = os.path.join(BUILD, '.coq.%s.lock' % '_'.join(d for d in dirs if d != 'common'))
    t_end = time.time() + timeout
    with open(lockpath, 'w') as lk:
        fcntl.flock(lk, fcntl.LOCK_EX)
        try:
            files = []
            for d in dirs:
                for dp, _, fns in os.walk(os.path.join(COQ, d)):
                    files += [os.path.relpath(os.path.join(dp, f), COQ) for f in sorted(fns) if f.endswith('.v')]
            deps = _coqdep(files)
            for _ in range(3):          # dependencies into other directories (not expected): pull them in
                extra = sorted({d[:-1] for _, ds in deps.values() for d in ds
                                if d not in deps and os.path.exists(os.path.join(COQ, d[:-1]))})
                if not extra:
                    break
                deps.update(_coqdep(extra))
            need, stack = set(), list(targets)
            while stack:
                t = stack.pop()
                if t in need:
                    continue
                if t not in deps:
                    return False, 'File "%s", line 1, characters 0-0:\nError: no source for target %s' % (t[:-1], t)
                need.add(t)
                stack += [d for d in deps[t][1] if d in deps or os.path.exists(os.path.join(COQ, d[:-1]))]
            log, done, rebuilt, failed = [], set(), set(), []

            def mtime(path):
                try:
                    return os.path.getmtime(os.path.join(COQ, path))
                except OSError:
                    return None

            def stale(vo):
                m = mtime(vo)
                if m is None or m < (mtime(deps[vo][0]) or 0):
                    return True
                return any(d in rebuilt or (mtime(d) or 0) > m for d in deps[vo][1] if d in need)

            def build(vo):
                v = deps[vo][0]
                left = max(30, int(t_end - time.time()))
                try:
                    r = _coqc_retrying(['coqc', '-R', '.', 'QV', '-w',
                                        '-notation-overridden,-deprecated-hint-without-locality,'
                                        '-deprecated-instance-without-locality,-ambiguous-paths', v], COQ, left)
                    return vo, r.returncode, 'COQC %s\n%s' % (v, r.stdout)
                except subprocess.TimeoutExpired:
                    return vo, 124, 'COQC %s\nFile "%s", line 1, characters 0-0:\nError: coqc timed out' % (v, v)

            with concurrent.futures.ThreadPoolExecutor(max_workers=jobs) as ex:
                running = {}
                while (len(done) < len(need) or running) and not failed:
                    for vo in sorted(need - done - set(running.values())):
                        if all(d in done or d not in need for d in deps[vo][1]):
                            if stale(vo):
                                running[ex.submit(build, vo)] = vo
                            else:
                                done.add(vo)
                    if not running:
                        if len(done) < len(need):
                            continue
                        break
                    fin, _ = concurrent.futures.wait(list(running), return_when=concurrent.futures.FIRST_COMPLETED)
                    for f in fin:
                        vo, rc, out = f.result()
                        del running[f]
                        log.append(out)
                        if rc != 0:
                            failed.append(vo)
                        else:
                            rebuilt.add(vo)
                            done.add(vo)
            return (not failed), '\n'.join(log)
        finally:
            fcntl.flock(lk, fcntl.LOCK_UN)


def first_coq_error(log):
    m = re.search(r'File "([^"]+)", line (\d+), characters [^\n]*\n(Error:.*?)(?:\n\S|\Z)', log, flags=re.S)
    if m:
        return '%s:%s %s' % (m.group(1), m.group(2), ' '.join(m.group(3).split())[:400])
    tail = log.strip().split('\n')[-6:]
    return ' | '.join(tail)[:600]


def theorems_in(props_file):
    with open(props_file) as fh:
        txt = fh.read()
    return re.findall(r'^\s*(?:Theorem|Corollary)\s+([A-Za-z0-9_\']+)', txt, flags=re.M)


def print_assumptions(module, names, workdir):
    """Return {theorem: [axioms]} using a scratch file; [] means 'Closed under the global context'."""
    os.makedirs(workdir, exist_ok=True)
    path = os.path.join(workdir, 'assumptions_%s.v' % module.replace('.', '_'))
    lines = ['Require Import %s.' % module, 'Set Printing Width 100000.']
    for n in names:
        lines.append('Goal True. idtac "@@BEGIN %s". exact I. Qed.' % n)
        lines.append('Print Assumptions %s.' % n)
    lines.append('Goal True. idtac "@@END". exact I. Qed.')
    with open(path, 'w') as fh:
        fh.write('\n'.join(lines) + '\n')
    rc, out = sh(['timeout', '300', 'coqc', '-R', COQ, 'QV', path], cwd=workdir)
    if rc != 0:
        raise RuntimeError('Print Assumptions failed: ' + out[-800:])
    res = {}
    chunks = re.split(r'@@BEGIN (\S+)', out)
    for i in range(1, len(chunks), 2):
        name, body = chunks[i], chunks[i + 1].split('@@END')[0]
        if 'Closed under the global context' in body:
            res[name] = []
        else:
            axs = []
            blines = body.split('\n')
            for k, line in enumerate(blines):
                # an axiom is printed as `Name : type`; a long type goes to the next line (`Name` alone, then `  : type`)
                m = re.match(r'^([A-Za-z_][A-Za-z0-9_.\']*)\s*(:|$)', line)
                if not m or m.group(1) in ('Axioms', 'Opaque', 'Transparent', 'Section'):
                    continue
                if m.group(2) == ':' or (k + 1 < len(blines) and re.match(r'^\s+:', blines[k + 1])):
                    axs.append(m.group(1))
            if not axs and 'Axioms:' in body:
                axs = ['<unparsed axiom list>']      # fail closed: never report "closed" when Coq printed axioms
            res[name] = axs
    for ext in ('.v', '.vo', '.vok', '.vos', '.glob'):
        with contextlib.suppress(FileNotFoundError):
            os.remove(path[:-2] + ext)
    with contextlib.suppress(FileNotFoundError):
        os.remove(os.path.join(workdir, '.' + os.path.basename(path)[:-2] + '.aux'))
    return res


# --------------------------------------------------------------------------------------------------------------------
# evaluating cases inside Coq

def _parse_nat_list(txt):
    txt = txt.strip()
    m = re.match(r'^\[(.*)\]$', txt, flags=re.S)
    if not m:
        raise ValueError('cannot parse nat list: %r' % txt[:200])
    inner = m.group(1).strip()
    if not inner:
        return []
    return [int(re.sub(r'%nat', '', t).strip()) for t in inner.split(';')]


def run_coq_cases(workdir, imports, checks, case_terms, case_type='case', shard=250, jobs=12, prelude=''):
    """Evaluate boolean checks of the Coq development on generated cases.

    imports:    list of module names to `Require Import` (e.g. ['QV.C14.Corr'])
    checks:     list of Gallina function names of type `case_type -> bool`
    case_terms: list of Gallina terms of type `case_type`
    Returns {check_name: sorted list of failing global indices}.  Raises RuntimeError when coqc fails
    (an ill-typed case or a broken model file is an error of the machinery, reported by the caller).
    """
    os.makedirs(workdir, exist_ok=True)
    files = []
    for s, start in enumerate(range(0, len(case_terms), shard)):
        chunk = case_terms[start:start + shard]
        path = os.path.join(workdir, 'cases_%d.v' % s)
        with open(path, 'w') as fh:
            fh.write('From Coq Require Import List ZArith QArith String.\nImport ListNotations.\n')
            fh.write('Require Import QV.common.Util.\n')
            for m in imports:
                fh.write('Require Import %s.\n' % m)
            fh.write(prelude + '\n')
            fh.write('Open Scope Z_scope.\n')
            fh.write('Definition cases : list %s := [\n' % case_type)
            fh.write(';\n'.join(chunk))
            fh.write('\n].\n')
            for c in checks:
                fh.write('Goal True. idtac "@@CHECK %s". exact I. Qed.\n' % c)
                fh.write('Eval vm_compute in (failing %s cases).\n' % c)
            fh.write('Goal True. idtac "@@END". exact I. Qed.\n')
        files.append((path, start))
    results = {c: [] for c in checks}

    def one(item):
        path, start = item
        try:
            r = _coqc_retrying(['coqc', '-R', COQ, 'QV', '-w', '-all', path], workdir, COQC_TIMEOUT)
        except subprocess.TimeoutExpired:
            raise RuntimeError('coqc timed out on %s' % path)
        if r.returncode != 0:
            raise RuntimeError('coqc failed on %s: %s' % (path, first_coq_error(r.stdout)))
        got = {}
        parts = re.split(r'@@CHECK (\S+)', r.stdout)
        for i in range(1, len(parts), 2):
            name = parts[i]
            body = parts[i + 1].split('@@END')[0]
            m = re.search(r'=\s*(\[.*?\])\s*:\s*list nat', body, flags=re.S)
            if not m:
                raise RuntimeError('no result for %s in %s: %s' % (name, path, body[:300]))
            got[name] = [start + k for k in _parse_nat_list(m.group(1))]
        return got

    import concurrent.futures
    with concurrent.futures.ThreadPoolExecutor(max_workers=jobs) as ex:
        for got in ex.map(one, files):
            for name, idx in got.items():
                results[name].extend(idx)
    for c in results:
        results[c].sort()
    return results


def coq_eval(workdir, imports, expr, prelude=''):
    """Evaluate one Gallina expression with vm_compute and return Coq's printed value (text before the type)."""
    os.makedirs(workdir, exist_ok=True)
    path = os.path.join(workdir, 'eval_%d_%d.v' % (os.getpid(), random.randrange(10 ** 9)))
    with open(path, 'w') as fh:
        fh.write('From Coq Require Import List ZArith QArith String.\nImport ListNotations.\n')
        for m in imports:
            fh.write('Require Import %s.\n' % m)
        fh.write(prelude + '\nOpen Scope Z_scope.\n')
        fh.write('Goal True. idtac "@@BEGIN". exact I. Qed.\nEval vm_compute in (%s).\n' % expr)
        fh.write('Goal True. idtac "@@END". exact I. Qed.\n')
    rc, out = sh(['timeout', str(COQC_TIMEOUT), 'coqc', '-R', COQ, 'QV', '-w', '-all', path], cwd=workdir)
    if rc != 0:
        raise RuntimeError('coqc failed: ' + first_coq_error(out))
    body = out.split('@@BEGIN')[1].split('@@END')[0]
    m = re.search(r'=\s*(.*)\n\s*:\s', body, flags=re.S)
    return (m.group(1) if m else body).strip()


# --------------------------------------------------------------------------------------------------------------------
# known findings / replays / evidence

def load_known_findings():
    """The committed known-findings file (+ per-property fragments under known_findings.d/, merged by
    tools/merge_findings.py).  Never written at run time."""
    known, fixed = {}, []
    paths = [os.path.join(VERIF, 'known_findings.json')]
    d = os.path.join(VERIF, 'known_findings.d')
    if os.path.isdir(d):
        paths += [os.path.join(d, fn) for fn in sorted(os.listdir(d)) if fn.endswith('.json')]
    for path in paths:
        with open(path) as fh:
            data = json.load(fh)
        for e in data.get('known', []):
            known.setdefault(e['property'], {})[e['finding']] = e
        fixed.extend(data.get('fixed', []))
    return known, fixed


def canonical_hash(obj):
    return hashlib.sha1(json.dumps(obj, sort_keys=True, default=str).encode()).hexdigest()[:16]


def write_replay(pid, payload):
    d = os.path.join(VERIF, 'replays', pid)
    os.makedirs(d, exist_ok=True)
    h = canonical_hash(payload)
    path = os.path.join(d, '%s.json' % h)
    with open(path, 'w') as fh:
        json.dump(payload, fh, indent=1, sort_keys=True, default=str)
    return path


def write_evidence(pid, ev):
    # development runs against a scratch worktree (VERIF_REPO) never overwrite the evidence of /repo
    d = os.path.join(VERIF, 'evidence') if REPO == '/repo' else os.path.join(BUILD, 'evidence_dev')
    os.makedirs(d, exist_ok=True)
    path = os.path.join(d, '%s.json' % pid)
    tmp = path + '.tmp.%d' % os.getpid()
    with open(tmp, 'w') as fh:
        json.dump(ev, fh, indent=1, sort_keys=True, default=str)
    os.replace(tmp, path)
    return path


def rmtree(path):
    shutil.rmtree(path, ignore_errors=True)
