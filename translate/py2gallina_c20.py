"""Extension of the fail-closed translator (py2gallina.py, not modified) for the C20 loop kernels:

    for i in range(hi) / range(lo, hi):     ->  for_range lo hi (fun i st => ...) st        (coq/C20/ForLoop.v)
    x[i]            (x an integer array)    ->  zget x i     (out of bounds, incl. negative indices -> Fail)
    x[i] = e, x[i] += e, x[i] -= e          ->  zset x i ...
    len(x)                                  ->  Z.of_nat (length x)
    b &= e, b |= e   (bools)                ->  b && e, b || e
    raise ValueError(...)                   ->  Fail
    return e                                ->  Ret (e, x1, .., xn)   with the final contents of all array parameters
                                                (the kernels mutate their arguments in place)

Array parameters are those that are subscripted or passed to len().  Subscripts inside `and`/`or`/conditional
expressions are refused (hoisting them would change which IndexError can happen).  Decorators other than `njit`,
anything else outside the subset: Unsupported -> the obligation is reported as broken, nothing is guessed.
"""
import ast
import os
import sys

sys.path.insert(0, os.path.dirname(os.path.abspath(__file__)))
import py2gallina  # noqa: E402
from py2gallina import Unsupported, _name  # noqa: E402


COQ_KEYWORDS = {'end', 'match', 'with', 'fun', 'let', 'in', 'if', 'then', 'else', 'fix', 'cofix', 'forall', 'exists', 'return',
                'as', 'at', 'for', 'where', 'Type', 'Prop', 'Set', 'struct', 'using', 'st', 'r', 'loop_i', 'old'}


class _Rename(ast.NodeTransformer):
    """variables whose name is a Gallina keyword (or a name the generated code uses itself) get a trailing underscore"""
    def visit_Name(self, node):
        if node.id in COQ_KEYWORDS:
            return ast.copy_location(ast.Name(id=node.id + '_', ctx=node.ctx), node)
        return node

    def visit_arg(self, node):
        if node.arg in COQ_KEYWORDS:
            node.arg = node.arg + '_'
        return node


class LoopKernelTranslator(py2gallina.FuncTranslator):
    def __init__(self, fdef, prefix='gen_'):
        fdef = _Rename().visit(fdef)
        for d in fdef.decorator_list:
            if not (isinstance(d, ast.Name) and d.id == 'njit'):
                raise Unsupported('decorator')
        self.arrays = []
        self.binds = []
        self.bodies = []
        self.ret_type = None
        super().__init__(fdef, prefix)

    # ---- typing
    def _scan_arrays(self):
        for n in ast.walk(self.f):
            name = None
            if isinstance(n, ast.Subscript) and isinstance(n.value, ast.Name):
                name = n.value.id
            if isinstance(n, ast.Call) and isinstance(n.func, ast.Name) and n.func.id == 'len' and len(n.args) == 1 \
                    and isinstance(n.args[0], ast.Name):
                name = n.args[0].id
            if name is not None:
                if name not in self.params:
                    raise Unsupported('array %s is not a parameter' % name)
                if name not in self.arrays:
                    self.arrays.append(name)
        self.arrays.sort(key=self.params.index)
        for a in self.arrays:
            self.types[a] = 'list Z'

    def _collect(self, stmts, top=True):
        if top and not getattr(self, '_scanned', False):
            self._scanned = True
            self._scan_arrays()
        for s in stmts:
            if isinstance(s, ast.For):
                if s.orelse or not isinstance(s.target, ast.Name):
                    raise Unsupported('for-else / tuple loop variable')
                self._range_args(s.iter)
                self._declare(s.target.id, ast.Constant(0))
                self._collect(s.body, False)
            elif isinstance(s, ast.Raise):
                pass
            elif isinstance(s, ast.Assign) and len(s.targets) == 1 and isinstance(s.targets[0], ast.Subscript):
                self._array_target(s.targets[0])
            elif isinstance(s, ast.AugAssign) and isinstance(s.target, ast.Subscript):
                self._array_target(s.target)
            elif isinstance(s, ast.If):
                self._collect(s.body, False)
                self._collect(s.orelse, False)
            elif isinstance(s, ast.Return):
                if s.value is None or isinstance(s.value, ast.Tuple):
                    raise Unsupported('return form')
                t = 'bool' if self._is_bool_expr(s.value) else 'Z'
                if self.ret_type not in (None, t):
                    raise Unsupported('returns of different type')
                self.ret_type = t
                self.ret_arity = 1
            elif isinstance(s, ast.While):
                raise Unsupported('while loop in a loop kernel')
            else:
                super()._collect([s])

    def _array_target(self, t):
        if not (isinstance(t.value, ast.Name) and t.value.id in self.arrays):
            raise Unsupported('subscript target')

    @staticmethod
    def _range_args(it):
        if not (isinstance(it, ast.Call) and isinstance(it.func, ast.Name) and it.func.id == 'range'
                and not it.keywords and len(it.args) in (1, 2)):
            raise Unsupported('only for .. in range(hi) / range(lo, hi)')
        return (ast.Constant(0), it.args[0]) if len(it.args) == 1 else (it.args[0], it.args[1])

    # ---- expressions
    def expr(self, e, divisors, guarded_ctx=False):
        if isinstance(e, ast.Subscript):
            if not (isinstance(e.value, ast.Name) and e.value.id in self.arrays) or isinstance(e.slice, (ast.Slice, ast.Tuple)):
                raise Unsupported('subscript')
            idx = self.expr(e.slice, divisors)
            self.tmp += 1
            t = 'elt%d' % self.tmp
            self.binds.append((t, _name(e.value.id), idx))
            return t
        if isinstance(e, ast.Call):
            if isinstance(e.func, ast.Name) and e.func.id == 'len' and len(e.args) == 1 and not e.keywords \
                    and isinstance(e.args[0], ast.Name) and e.args[0].id in self.arrays:
                return '(Z.of_nat (length %s))' % _name(e.args[0].id)
            raise Unsupported('call')
        if isinstance(e, (ast.BoolOp, ast.IfExp)):
            for sub in ast.walk(e):
                if isinstance(sub, ast.Subscript):
                    raise Unsupported('subscript under and/or/conditional expression')
        if isinstance(e, ast.Name) and self.types.get(e.id) == 'list Z':
            raise Unsupported('array used as a value')
        return super().expr(e, divisors)

    def guarded(self, e, k):
        saved, self.binds = self.binds, []
        divs = []
        txt = self.expr(e, divs)
        binds, self.binds = self.binds, saved
        body = k(txt)
        for d in reversed(divs):
            body = 'if (%s =? 0) then Fail else %s' % (d, body)
        for t, arr, idx in reversed(binds):
            body = 'match zget %s %s with Some %s => %s | None => Fail end' % (arr, idx, t, body)
        return body

    # ---- statements
    @staticmethod
    def falls_through(stmts):
        for s in stmts:
            if isinstance(s, (ast.Return, ast.Raise)):
                return False
            if isinstance(s, ast.If) and s.orelse and not LoopKernelTranslator.falls_through(s.body) \
                    and not LoopKernelTranslator.falls_through(s.orelse):
                return False
        return True

    def _ret(self, v):
        return 'Ret (%s)' % ', '.join([v] + [_name(a) for a in self.arrays])

    def block(self, stmts, end):
        if not stmts:
            return end
        s, rest = stmts[0], stmts[1:]
        if isinstance(s, ast.Raise):
            return 'Fail'
        if isinstance(s, ast.Return):
            return self.guarded(s.value, self._ret)
        if isinstance(s, ast.For):
            lo, hi = self._range_args(s.iter)
            var = _name(s.target.id)
            body = self.block(s.body, self.pack())
            fname = self.prefix + self.f.name.lstrip('_')
            bname = '%s_body%d' % (fname, len(self.bodies) + 1)
            # every local (parameters included) travels in the state, so the loop body is a closed top-level definition
            self.bodies.append('Definition %s (loop_i : Z) (st : %s_state) : ctl %s_result %s_state :=\n%s\nlet %s := loop_i in\n%s.'
                               % (bname, fname, fname, fname, self.unpack('st'), var, body))
            loop = 'for_range %%s %%s %s (%s)' % (bname, ', '.join(_name(v) for v in self.locals))
            after = 'match %%s with\n| Next st => %s\n%s\n| Ret r => Ret r | Fail => Fail | OutOfFuel => OutOfFuel\nend' % (
                self.unpack('st'), self.block(rest, end))
            return self.guarded(lo, lambda l: self.guarded(hi, lambda h: after % (loop % (l, h))))
        if isinstance(s, ast.Assign) and isinstance(s.targets[0], ast.Subscript):
            t = s.targets[0]
            arr = _name(t.value.id)
            return self.guarded(t.slice, lambda i: self.guarded(s.value, lambda v: (
                'match zset %s %s %s with Some %s => %s | None => Fail end' % (arr, i, v, arr, self.block(rest, end)))))
        if isinstance(s, ast.AugAssign) and isinstance(s.target, ast.Subscript):
            op = {ast.Add: '+', ast.Sub: '-', ast.Mult: '*'}.get(type(s.op))
            if op is None:
                raise Unsupported('augmented op on array element')
            t = s.target
            arr = _name(t.value.id)
            return self.guarded(t.slice, lambda i: self.guarded(s.value, lambda v: (
                'match zget %s %s with Some old => match zset %s %s (old %s %s) with Some %s => %s | None => Fail end '
                '| None => Fail end' % (arr, i, arr, i, op, v, arr, self.block(rest, end)))))
        if isinstance(s, ast.AugAssign) and isinstance(s.op, (ast.BitAnd, ast.BitOr)):
            if not (isinstance(s.target, ast.Name) and self.types.get(s.target.id) == 'bool' and self._is_bool_expr(s.value)):
                raise Unsupported('&= / |= on non-bool')
            n = _name(s.target.id)
            sym = '&&' if isinstance(s.op, ast.BitAnd) else '||'
            return self.guarded(s.value, lambda v: 'let %s := (%s %s %s) in\n%s' % (n, n, sym, v, self.block(rest, end)))
        if isinstance(s, ast.If):
            # same scheme as the base class, with this class' notion of falling through
            if not self.falls_through([s]) or not rest:
                return self.guarded(s.test, lambda c: '(if %s then\n%s\nelse\n%s)' % (
                    c, self.block(s.body, end), self.block(s.orelse, end)))
            inner = self.guarded(s.test, lambda c: '(if %s then\n%s\nelse\n%s)' % (
                c, self.block(s.body, self.pack()), self.block(s.orelse, self.pack())))
            return 'match %s with\n| Next st => %s\n%s\n| Ret r => Ret r | Fail => Fail | OutOfFuel => OutOfFuel\nend' % (
                inner, self.unpack('st'), self.block(rest, end))
        if isinstance(s, ast.While):
            raise Unsupported('while loop in a loop kernel')
        return super().block(stmts, end)

    def translate(self):
        fname = self.prefix + self.f.name.lstrip('_')
        body = self.block(self.f.body, 'Fail')
        S = ' * '.join(self.types[v] for v in self.locals)
        R = ' * '.join([self.ret_type or 'Z'] + ['list Z'] * len(self.arrays))
        out = ['Definition %s_state : Type := (%s)%%type.' % (fname, S),
               'Definition %s_result : Type := (%s)%%type.' % (fname, R)]
        inits = ''.join('let %s := %s in\n' % (_name(v), 'false' if self.types[v] == 'bool' else '0')
                        for v in self.locals if v not in self.params)
        out.extend(self.bodies)
        out.append('Definition %s %s : ctl %s_result %s_state :=\n%s%s.' % (
            fname, ' '.join('(%s : %s)' % (_name(p), self.types[p]) for p in self.params), fname, fname, inits, body))
        return '\n\n'.join(out)


def translate_functions(path, names, prefix='gen_'):
    with open(path) as fh:
        src = fh.read()
    tree = ast.parse(src)
    found = {n.name: n for n in tree.body if isinstance(n, ast.FunctionDef)}
    parts = ['(* GENERATED by /verif/translate/py2gallina_c20.py from %s -- do not edit *)' % path,
             'From Coq Require Import ZArith Bool List.', 'Require Import QV.common.Ctl QV.C20.ForLoop.',
             'Import ListNotations.', 'Open Scope Z_scope.', '']
    for n in names:
        if n not in found:
            raise Unsupported('function %s not found in %s' % (n, path))
        parts.append('(* ---- %s ---- *)' % n)
        parts.append(LoopKernelTranslator(found[n], prefix).translate())
        parts.append('')
    return '\n'.join(parts)


if __name__ == '__main__':
    print(translate_functions(sys.argv[1], sys.argv[2:]))
