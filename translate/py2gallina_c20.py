"""Fail-closed translator for the C20 loop kernels (typed: Z / Q / bool / list Z / list Q), second version.

It follows the conventions of the shared translator (py2gallina.py, not modified; `Unsupported` and `_name` are taken
from it) but is a separate class because the kernels need arrays, `for` loops and exact-real (Q) arithmetic.

    for i in range(hi) / range(lo, hi):     ->  for_then (for_range lo hi body st) post      (coq/C20/ForLoop.v)
    x[i]   (x : list Z / list Q)            ->  zget x i / qget x i   (out of bounds, incl. negative indices -> Fail)
    x[i] = e, x[i] += e, x[i] -= e          ->  zset x i ...          (integer arrays only)
    len(x), x.size                          ->  Z.of_nat (length x)
    np.zeros(n, dtype=np.uintNN)            ->  repeat 0 (Z.to_nat n)        np.empty_like(x, dtype=np.uintNN) -> repeat 0 (length x)
    + - * on int / float                    ->  Z / Q operations (an int operand next to a float one is injected)
    a / b                                   ->  Qdiv, Fail when b == 0        a ** b (ints) -> Z.pow, Fail when b < 0
    np.abs / abs, np.rint, round            ->  Z.abs / Qabs, inject_Z (rint _), rint _   (rint = Model.rint, half-to-even)
    np.uint16 / np.uint64 / int of a float  ->  py_trunc (truncation towards zero, no wrap-around)
    b &= e, b |= e   (bools)                ->  b && e, b || e
    for x in seq (seq : list (option Z))    ->  for_then (for_each seq body st) post;   x is None -> match;   l = [] ; l.append(e) -> l ++ [e]
                                                (only with declared types: seq / l : list (option Z))
    raise ...                               ->  Fail
    return e / return e1, e2                ->  Ret (e.., m1, .., mk)  with the final contents of the array PARAMETERS that
                                                the kernel assigns to (they are mutated in place)
    if c: A  (falls through) ; rest         ->  if c then [A; rest] else [rest]     (continuation duplicated, no state packing)

CANONICAL LOOP STATE.  The state that travels through a `for` loop consists of all parameters (in order) followed by
those locals (in order of their first assignment in the source) that are live at the loop head: read in the body before
being definitely assigned in the same iteration, or read after the loop.  Every other local of the body is a plain `let`.
Hence adding, removing or renaming a temporary, or re-ordering independent assignments, does not change the type of the
generated loop body, and the equality proofs in coq/C20/GenEq.v (which never mention the body's text, only its meaning as a
state transformer) keep working.  A wrong liveness decision cannot make a proof succeed wrongly: a variable that is not
in the state and not let-bound is an unbound identifier in the generated file.

Subscripts inside `and`/`or`/conditional expressions are refused (hoisting them would change which IndexError can
happen).  Decorators other than `njit`, `while`, anything else outside the subset: Unsupported -> the obligation is
reported as broken, nothing is guessed.
"""
import ast
import fractions
import os
import sys

sys.path.insert(0, os.path.dirname(os.path.abspath(__file__)))
from py2gallina import Unsupported, _name  # noqa: E402


COQ_KEYWORDS = {'loop_x', 'for_each', 'for_then', 'for_range', 'end', 'match', 'with', 'fun', 'let', 'in', 'if', 'then', 'else', 'fix', 'cofix', 'forall', 'exists', 'return',
                'as', 'at', 'for', 'where', 'Type', 'Prop', 'Set', 'struct', 'using', 'st', 'r', 'loop_i', 'old', 'rint', 'repeat',
                'length', 'zget', 'zset', 'qget'}
INT_DTYPES = {'uint8', 'uint16', 'uint32', 'uint64', 'int8', 'int16', 'int32', 'int64'}
DEFAULTS = {'Z': '0', 'Q': '(inject_Z 0)', 'bool': 'false', 'list Z': '(@nil Z)', 'list Q': '(@nil Q)',
            'option Z': '(@None Z)', 'list (option Z)': '(@nil (option Z))'}


class _Rename(ast.NodeTransformer):
    """variables whose name is a Gallina keyword (or a name the generated code uses itself) get a trailing underscore"""
    def visit_Name(self, node):
        if node.id in COQ_KEYWORDS:
            return ast.copy_location(ast.Name(id=node.id + '_', ctx=node.ctx), node)
        return node

    def visit_arg(self, node):
        if node.arg in COQ_KEYWORDS:
            node.arg = node.arg + '_'
        return node


def _loads(node):
    return {n.id for n in ast.walk(node) if isinstance(n, ast.Name) and isinstance(n.ctx, ast.Load) and n.id != 'np'}


def _np_attr(e, names):
    return isinstance(e, ast.Attribute) and isinstance(e.value, ast.Name) and e.value.id == 'np' and e.attr in names


class Kernel:
    def __init__(self, fdef, types=None, prefix='gen_'):
        fdef = _Rename().visit(fdef)
        for d in fdef.decorator_list:
            if not (isinstance(d, ast.Name) and d.id == 'njit'):
                raise Unsupported('decorator')
        a = fdef.args
        if a.vararg or a.kwarg or a.kwonlyargs or a.defaults or a.posonlyargs:
            raise Unsupported('only plain positional parameters')
        self.f = fdef
        self.fname = prefix + fdef.name.lstrip('_')
        self.params = [x.arg for x in a.args]
        self.types = {}
        self.tmp = 0
        self.binds, self.divs = [], []
        self.defs = []            # generated top-level definitions (text), in dependency order
        self.loops = []           # (state type name, [state variables])
        self.ret_types = None
        self.depth = 0
        subscripted = set()
        for n in ast.walk(fdef):
            if isinstance(n, ast.Subscript) and isinstance(n.value, ast.Name):
                subscripted.add(n.value.id)
            if isinstance(n, ast.Call) and isinstance(n.func, ast.Name) and n.func.id == 'len' and n.args \
                    and isinstance(n.args[0], ast.Name):
                subscripted.add(n.args[0].id)
            if isinstance(n, ast.Attribute) and n.attr == 'size' and isinstance(n.value, ast.Name):
                subscripted.add(n.value.id)
        types = types or {}
        for x in a.args:
            ann = ast.unparse(x.annotation) if x.annotation is not None else ''
            if x.arg in types:
                t = types[x.arg]
            elif x.arg in subscripted:
                t = 'list Z'
            elif ann == 'float':
                t = 'Q'
            elif ann == 'bool':
                t = 'bool'
            elif ann in ('int', ''):
                t = 'Z'
            else:
                raise Unsupported('parameter annotation %s' % ann)
            if t not in DEFAULTS:
                raise Unsupported('type %s' % t)
            self.types[x.arg] = t
        for v, t in types.items():          # declared types of locals (needed for `v = []`)
            if v not in self.types:
                if t not in DEFAULTS:
                    raise Unsupported('type %s' % t)
                self.types[v] = t
        # array parameters that are assigned to: their final contents are part of the result
        self.mutated = []
        # locals in order of first assignment (source order)
        self.locals = []
        for n in self._stmts_in_order(fdef.body):
            tgt = None
            if isinstance(n, ast.Assign) and len(n.targets) == 1:
                tgt = n.targets[0]
            elif isinstance(n, ast.AugAssign):
                tgt = n.target
            elif isinstance(n, ast.For):
                tgt = n.target
            if isinstance(tgt, ast.Name):
                if tgt.id not in self.params and tgt.id not in self.locals:
                    self.locals.append(tgt.id)
            elif isinstance(tgt, ast.Subscript) and isinstance(tgt.value, ast.Name):
                if tgt.value.id in self.params and tgt.value.id not in self.mutated:
                    self.mutated.append(tgt.value.id)
        self.mutated.sort(key=self.params.index)

    @staticmethod
    def _stmts_in_order(stmts):
        for s in stmts:
            yield s
            for fld in ('body', 'orelse'):
                sub = getattr(s, fld, None)
                if isinstance(sub, list):
                    yield from Kernel._stmts_in_order(sub)

    # ---------------------------------------------------------------------------------------------- liveness
    @staticmethod
    def _is_append(s):
        """(list name, argument) of a statement `lst.append(arg)`, else None"""
        if isinstance(s, ast.Expr) and isinstance(s.value, ast.Call) and isinstance(s.value.func, ast.Attribute) \
                and s.value.func.attr == 'append' and isinstance(s.value.func.value, ast.Name) \
                and len(s.value.args) == 1 and not s.value.keywords:
            return s.value.func.value.id, s.value.args[0]
        return None

    @staticmethod
    def falls_through(stmts):
        for s in stmts:
            if isinstance(s, (ast.Return, ast.Raise)):
                return False
            if isinstance(s, ast.If) and s.orelse and not Kernel.falls_through(s.body) and not Kernel.falls_through(s.orelse):
                return False
        return True

    def _live_in(self, stmts, defined):
        """names read before being definitely assigned, and the set definitely assigned afterwards"""
        uses = set()
        defined = set(defined)
        for s in stmts:
            if isinstance(s, ast.Assign) and len(s.targets) == 1 and isinstance(s.targets[0], ast.Name):
                uses |= _loads(s.value) - defined
                defined.add(s.targets[0].id)
            elif isinstance(s, ast.Assign) and len(s.targets) == 1 and isinstance(s.targets[0], ast.Subscript):
                t = s.targets[0]
                uses |= (_loads(s.value) | _loads(t.slice) | _loads(t.value)) - defined
            elif isinstance(s, ast.AugAssign) and isinstance(s.target, ast.Name):
                uses |= (_loads(s.value) | {s.target.id}) - defined
            elif isinstance(s, ast.AugAssign) and isinstance(s.target, ast.Subscript):
                t = s.target
                uses |= (_loads(s.value) | _loads(t.slice) | _loads(t.value)) - defined
            elif isinstance(s, ast.If):
                uses |= _loads(s.test) - defined
                u1, d1 = self._live_in(s.body, defined)
                u2, d2 = self._live_in(s.orelse, defined)
                uses |= u1 | u2
                f1, f2 = self.falls_through(s.body), self.falls_through(s.orelse)
                defined = (d1 & d2) if (f1 and f2) else d1 if f1 else d2 if f2 else defined
            elif isinstance(s, ast.Expr) and self._is_append(s) is not None:
                uses |= _loads(s.value) - defined
            elif isinstance(s, ast.For):
                uses |= _loads(s.iter) - defined
                if not isinstance(s.target, ast.Name):
                    raise Unsupported('tuple loop variable')
                u, _ = self._live_in(s.body, defined | {s.target.id})
                uses |= u
            elif isinstance(s, (ast.Return, ast.Raise, ast.Assert, ast.Expr, ast.Pass)):
                uses |= _loads(s) - defined
            else:
                raise Unsupported('statement ' + type(s).__name__)
        return uses, defined

    def _state_vars(self, loop):
        live, _ = self._live_in(loop.body, {loop.target.id})
        inside = {id(n) for n in ast.walk(loop)}
        after = set()
        for n in ast.walk(self.f):
            if isinstance(n, ast.Name) and isinstance(n.ctx, ast.Load) and id(n) not in inside:
                if self.depth > 0 or n.lineno > loop.end_lineno or (n.lineno == loop.end_lineno and n.col_offset >= loop.end_col_offset):
                    after.add(n.id)
        first = {}
        for n in self._stmts_in_order(self.f.body):
            tgt = n.targets[0] if isinstance(n, ast.Assign) and len(n.targets) == 1 else getattr(n, 'target', None)
            if isinstance(tgt, ast.Name) and tgt.id not in first:
                first[tgt.id] = (n.lineno, n.col_offset)
        end = (loop.end_lineno, loop.end_col_offset)
        keep = [v for v in self.locals if v in (live | after) and first.get(v, end) < end]
        return list(self.params) + keep

    # ---------------------------------------------------------------------------------------------- expressions
    def _ty(self, name):
        if name not in self.types:
            raise Unsupported('variable %s read before any assignment seen by the translator' % name)
        return self.types[name]

    @staticmethod
    def _q(txt, ty):
        if ty == 'Q':
            return txt
        if ty == 'Z':
            return '(inject_Z %s)' % txt
        raise Unsupported('numeric operand of type %s' % ty)

    def ex(self, e):
        """(text, type) of an expression; subscripts and divisors are recorded in self.binds / self.divs"""
        if isinstance(e, ast.Constant):
            if e.value is None:
                return '(@None Z)', 'option Z'
            if isinstance(e.value, bool):
                return ('true' if e.value else 'false'), 'bool'
            if isinstance(e.value, int):
                return '(%d)' % e.value, 'Z'
            if isinstance(e.value, float) and e.value == e.value and abs(e.value) != float('inf'):
                fr = fractions.Fraction(e.value)
                return '(Qmake (%d) %d)' % (fr.numerator, fr.denominator), 'Q'
            raise Unsupported('constant %r' % (e.value,))
        if isinstance(e, ast.Name):
            return _name(e.id), self._ty(e.id)
        if isinstance(e, ast.List) and not e.elts:
            return '[]', 'empty list'
        if isinstance(e, ast.UnaryOp):
            a, t = self.ex(e.operand)
            if isinstance(e.op, ast.USub) and t == 'Z':
                return '(- %s)' % a, 'Z'
            if isinstance(e.op, ast.USub) and t == 'Q':
                return '(Qopp %s)' % a, 'Q'
            if isinstance(e.op, ast.Not) and t == 'bool':
                return '(negb %s)' % a, 'bool'
            raise Unsupported('unary op')
        if isinstance(e, ast.BinOp):
            a, ta = self.ex(e.left)
            b, tb = self.ex(e.right)
            if ta not in ('Z', 'Q') or tb not in ('Z', 'Q'):
                raise Unsupported('arithmetic on %s / %s' % (ta, tb))
            if isinstance(e.op, ast.Div):
                qa, qb = self._q(a, ta), self._q(b, tb)
                self.divs.append('(Qeq_bool %s (inject_Z 0))' % qb)
                return '(Qdiv %s %s)' % (qa, qb), 'Q'
            if isinstance(e.op, (ast.Add, ast.Sub, ast.Mult)):
                if ta == 'Z' and tb == 'Z':
                    return '(%s %s %s)' % (a, {ast.Add: '+', ast.Sub: '-', ast.Mult: '*'}[type(e.op)], b), 'Z'
                f = {ast.Add: 'Qplus', ast.Sub: 'Qminus', ast.Mult: 'Qmult'}[type(e.op)]
                return '(%s %s %s)' % (f, self._q(a, ta), self._q(b, tb)), 'Q'
            if ta == 'Z' and tb == 'Z':
                if isinstance(e.op, ast.FloorDiv):
                    self.divs.append('(%s =? 0)' % b)
                    return '(Z.div %s %s)' % (a, b), 'Z'
                if isinstance(e.op, ast.Mod):
                    self.divs.append('(%s =? 0)' % b)
                    return '(Z.modulo %s %s)' % (a, b), 'Z'
                if isinstance(e.op, ast.Pow):
                    self.divs.append('(%s <? 0)' % b)
                    return '(Z.pow %s %s)' % (a, b), 'Z'
            raise Unsupported('binary op ' + type(e.op).__name__)
        if isinstance(e, (ast.BoolOp, ast.IfExp)):
            for sub in ast.walk(e):
                if isinstance(sub, (ast.Subscript, ast.Div, ast.FloorDiv, ast.Mod, ast.Pow)):
                    raise Unsupported('subscript / division under and/or/conditional expression')
        if isinstance(e, ast.BoolOp):
            parts = [self.ex(v) for v in e.values]
            if any(t != 'bool' for _, t in parts):
                raise Unsupported('and/or on non-bool')
            return '(' + (' && ' if isinstance(e.op, ast.And) else ' || ').join(p for p, _ in parts) + ')', 'bool'
        if isinstance(e, ast.IfExp):
            c, tc = self.ex(e.test)
            a, ta = self.ex(e.body)
            b, tb = self.ex(e.orelse)
            if tc != 'bool' or ta != tb:
                raise Unsupported('conditional expression types')
            return '(if %s then %s else %s)' % (c, a, b), ta
        if isinstance(e, ast.Compare) and len(e.ops) == 1 and isinstance(e.ops[0], (ast.Is, ast.IsNot)) \
                and isinstance(e.left, ast.Name) and isinstance(e.comparators[0], ast.Constant) and e.comparators[0].value is None:
            if self._ty(e.left.id) != 'option Z':
                raise Unsupported('is None on a non-optional')
            yes, no = ('true', 'false') if isinstance(e.ops[0], ast.Is) else ('false', 'true')
            return '(match %s with None => %s | Some _ => %s end)' % (_name(e.left.id), yes, no), 'bool'
        if isinstance(e, ast.Compare):
            parts = []
            left = e.left
            for op, right in zip(e.ops, e.comparators):
                a, ta = self.ex(left)
                b, tb = self.ex(right)
                if ta == 'Z' and tb == 'Z':
                    sym = {ast.Lt: '<?', ast.LtE: '<=?', ast.Gt: '>?', ast.GtE: '>=?', ast.Eq: '=?'}.get(type(op))
                    if sym is not None:
                        parts.append('(%s %s %s)' % (a, sym, b))
                    elif isinstance(op, ast.NotEq):
                        parts.append('(negb (%s =? %s))' % (a, b))
                    else:
                        raise Unsupported('comparison ' + type(op).__name__)
                elif ta in ('Z', 'Q') and tb in ('Z', 'Q'):
                    a, b = self._q(a, ta), self._q(b, tb)
                    form = {ast.LtE: '(Qle_bool %s %s)' % (a, b), ast.Lt: '(negb (Qle_bool %s %s))' % (b, a),
                            ast.GtE: '(Qle_bool %s %s)' % (b, a), ast.Gt: '(negb (Qle_bool %s %s))' % (a, b),
                            ast.Eq: '(Qeq_bool %s %s)' % (a, b), ast.NotEq: '(negb (Qeq_bool %s %s))' % (a, b)}.get(type(op))
                    if form is None:
                        raise Unsupported('comparison ' + type(op).__name__)
                    parts.append(form)
                else:
                    raise Unsupported('comparison of %s and %s' % (ta, tb))
                left = right
            return '(' + ' && '.join(parts) + ')', 'bool'
        if isinstance(e, ast.Subscript):
            if not isinstance(e.value, ast.Name) or isinstance(e.slice, (ast.Slice, ast.Tuple)):
                raise Unsupported('subscript')
            ta = self._ty(e.value.id)
            if ta not in ('list Z', 'list Q'):
                raise Unsupported('subscript of a non-array')
            idx, ti = self.ex(e.slice)
            if ti != 'Z':
                raise Unsupported('non-integer index')
            self.tmp += 1
            t = 'elt%d' % self.tmp
            self.binds.append((t, 'zget' if ta == 'list Z' else 'qget', _name(e.value.id), idx))
            return t, ta[5:]
        if isinstance(e, ast.Attribute):
            if e.attr == 'size' and isinstance(e.value, ast.Name) and self._ty(e.value.id).startswith('list'):
                return '(Z.of_nat (length %s))' % _name(e.value.id), 'Z'
            raise Unsupported('attribute ' + e.attr)
        if isinstance(e, ast.Call):
            return self._call(e)
        raise Unsupported('expression ' + type(e).__name__)

    def _int_dtype(self, e):
        kw = {k.arg: k.value for k in e.keywords}
        if set(kw) != {'dtype'} or not _np_attr(kw['dtype'], INT_DTYPES):
            raise Unsupported('array creation needs dtype=np.<integer type>')

    def _call(self, e):
        f = e.func
        plain = f.id if isinstance(f, ast.Name) else None
        if plain == 'len' and len(e.args) == 1 and not e.keywords and isinstance(e.args[0], ast.Name) \
                and self._ty(e.args[0].id).startswith('list'):
            return '(Z.of_nat (length %s))' % _name(e.args[0].id), 'Z'
        if _np_attr(f, {'zeros'}) and len(e.args) == 1:
            self._int_dtype(e)
            n, tn = self.ex(e.args[0])
            if tn != 'Z':
                raise Unsupported('np.zeros shape')
            return '(repeat 0 (Z.to_nat %s))' % n, 'list Z'
        if _np_attr(f, {'empty_like', 'zeros_like'}) and len(e.args) == 1 and isinstance(e.args[0], ast.Name) \
                and self._ty(e.args[0].id).startswith('list'):
            self._int_dtype(e)
            return '(repeat 0 (length %s))' % _name(e.args[0].id), 'list Z'
        if e.keywords or len(e.args) != 1:
            raise Unsupported('call')
        a, ta = self.ex(e.args[0])
        if plain == 'abs' or _np_attr(f, {'abs'}):
            if ta == 'Z':
                return '(Z.abs %s)' % a, 'Z'
            if ta == 'Q':
                return '(Qabs %s)' % a, 'Q'
        if _np_attr(f, {'rint'}) and ta == 'Q':
            return '(inject_Z (rint %s))' % a, 'Q'
        if plain == 'round':
            if ta == 'Q':
                return '(rint %s)' % a, 'Z'
            if ta == 'Z':
                return a, 'Z'
        if plain == 'int' or _np_attr(f, INT_DTYPES):
            if ta == 'Q':
                return '(py_trunc %s)' % a, 'Z'
            if ta == 'Z':
                return a, 'Z'
        raise Unsupported('call ' + ast.unparse(f))

    def guarded(self, e, k):
        """translate e, then build k(text, type) under the array-bounds and divisor guards (evaluation order kept)"""
        sb, sd = self.binds, self.divs
        self.binds, self.divs = [], []
        txt, ty = self.ex(e)
        binds, divs = self.binds, self.divs
        self.binds, self.divs = sb, sd
        body = k(txt, ty)
        for d in reversed(divs):
            body = 'if %s then Fail else %s' % (d, body)
        for t, get, arr, idx in reversed(binds):
            body = 'match %s %s %s with Some %s => %s | None => Fail end' % (get, arr, idx, t, body)
        return body

    # ---------------------------------------------------------------------------------------------- statements
    def _declare(self, name, ty):
        if self.types.get(name, ty) != ty:
            raise Unsupported('variable %s used at two types (%s, %s)' % (name, self.types[name], ty))
        self.types[name] = ty

    @staticmethod
    def _range_args(it):
        if not (isinstance(it, ast.Call) and isinstance(it.func, ast.Name) and it.func.id == 'range'
                and not it.keywords and len(it.args) in (1, 2)):
            raise Unsupported('only for .. in range(hi) / range(lo, hi)')
        return (ast.Constant(0), it.args[0]) if len(it.args) == 1 else (it.args[0], it.args[1])

    def _ret(self, parts):
        tys = [t for _, t in parts] + [self.types[m] for m in self.mutated]
        if self.ret_types not in (None, tys):
            raise Unsupported('returns of different type')
        self.ret_types = tys
        return 'Ret (%s)' % ', '.join([p for p, _ in parts] + [_name(m) for m in self.mutated])

    def block(self, stmts, end, S):
        if not stmts:
            return end
        s, rest = stmts[0], stmts[1:]
        if isinstance(s, ast.Expr):
            if isinstance(s.value, ast.Constant) and isinstance(s.value.value, str):
                return self.block(rest, end, S)
            app = self._is_append(s)
            if app is not None:
                lst, arg = app
                if self._ty(lst) != 'list (option Z)':
                    raise Unsupported('append to %s' % self._ty(lst))

                def k_app(v, tv):
                    if tv == 'Z':
                        v = '(Some %s)' % v
                    elif tv != 'option Z':
                        raise Unsupported('append of a %s' % tv)
                    return 'let %s := (%s ++ [%s]) in\n%s' % (_name(lst), _name(lst), v, self.block(rest, end, S))
                return self.guarded(arg, k_app)
            raise Unsupported('expression statement')
        if isinstance(s, ast.Pass):
            return self.block(rest, end, S)
        if isinstance(s, ast.Raise):
            return 'Fail'
        if isinstance(s, ast.Assert):
            def k_assert(c, t):
                if t != 'bool':
                    raise Unsupported('assert on non-bool')
                return 'if %s then\n%s\nelse Fail' % (c, self.block(rest, end, S))
            return self.guarded(s.test, k_assert)
        if isinstance(s, ast.Return):
            if s.value is None:
                raise Unsupported('bare return')
            elts = s.value.elts if isinstance(s.value, ast.Tuple) else [s.value]
            sb, sd = self.binds, self.divs
            self.binds, self.divs = [], []
            parts = [self.ex(x) for x in elts]
            binds, divs = self.binds, self.divs
            self.binds, self.divs = sb, sd
            body = self._ret(parts)
            for d in reversed(divs):
                body = 'if %s then Fail else %s' % (d, body)
            for t, get, arr, idx in reversed(binds):
                body = 'match %s %s %s with Some %s => %s | None => Fail end' % (get, arr, idx, t, body)
            return body
        if isinstance(s, ast.Assign):
            if len(s.targets) != 1:
                raise Unsupported('chained assignment')
            t = s.targets[0]
            if isinstance(t, ast.Name):
                def k_assign(v, ty):
                    if ty == 'empty list':
                        ty = self.types.get(t.id, '')
                        if not ty.startswith('list'):
                            raise Unsupported('empty list assigned to a variable without a declared list type')
                        v = DEFAULTS[ty]
                    self._declare(t.id, ty)
                    return 'let %s := %s in\n%s' % (_name(t.id), v, self.block(rest, end, S))
                return self.guarded(s.value, k_assign)
            if isinstance(t, ast.Subscript) and isinstance(t.value, ast.Name) and self._ty(t.value.id) == 'list Z' \
                    and not isinstance(t.slice, (ast.Slice, ast.Tuple)):
                arr = _name(t.value.id)

                def k_idx(i, ti):
                    if ti != 'Z':
                        raise Unsupported('non-integer index')

                    def k_val(v, tv):
                        if tv != 'Z':
                            raise Unsupported('non-integer value stored in an integer array')
                        return 'match zset %s %s %s with Some %s => %s | None => Fail end' % (
                            arr, i, v, arr, self.block(rest, end, S))
                    return self.guarded(s.value, k_val)
                return self.guarded(t.slice, k_idx)
            raise Unsupported('assignment target ' + ast.dump(t))
        if isinstance(s, ast.AugAssign):
            t = s.target
            if isinstance(t, ast.Name) and isinstance(s.op, (ast.BitAnd, ast.BitOr)):
                n = _name(t.id)
                sym = '&&' if isinstance(s.op, ast.BitAnd) else '||'

                def k_bool(v, tv):
                    if tv != 'bool' or self._ty(t.id) != 'bool':
                        raise Unsupported('&= / |= on non-bool')
                    return 'let %s := (%s %s %s) in\n%s' % (n, n, sym, v, self.block(rest, end, S))
                return self.guarded(s.value, k_bool)
            if isinstance(t, ast.Name):
                return self.block([ast.copy_location(ast.Assign(targets=[ast.Name(id=t.id, ctx=ast.Store())], value=ast.BinOp(
                    left=ast.Name(id=t.id, ctx=ast.Load()), op=s.op, right=s.value)), s)] + rest, end, S)
            if isinstance(t, ast.Subscript) and isinstance(t.value, ast.Name) and self._ty(t.value.id) == 'list Z' \
                    and not isinstance(t.slice, (ast.Slice, ast.Tuple)):
                op = {ast.Add: '+', ast.Sub: '-', ast.Mult: '*'}.get(type(s.op))
                if op is None:
                    raise Unsupported('augmented op on array element')
                arr = _name(t.value.id)

                def k_idx2(i, ti):
                    if ti != 'Z':
                        raise Unsupported('non-integer index')

                    def k_val2(v, tv):
                        if tv != 'Z':
                            raise Unsupported('non-integer value stored in an integer array')
                        return ('match zget %s %s with Some old => match zset %s %s (old %s %s) with Some %s => %s '
                                '| None => Fail end | None => Fail end' % (arr, i, arr, i, op, v, arr, self.block(rest, end, S)))
                    return self.guarded(s.value, k_val2)
                return self.guarded(t.slice, k_idx2)
            raise Unsupported('augmented assignment target')
        if isinstance(s, ast.If):
            def k_if(c, tc):
                if tc != 'bool':
                    raise Unsupported('condition of type %s' % tc)
                saved = dict(self.types)
                a = self.block(s.body + rest, end, S)
                b = self.block(s.orelse + rest, end, S)
                del saved
                return '(if %s then\n%s\nelse\n%s)' % (c, a, b)
            return self.guarded(s.test, k_if)
        if isinstance(s, ast.For) and isinstance(s.iter, ast.Name):
            # for elem in seq  (seq : list (option Z), not assigned in the body)
            if s.orelse or not isinstance(s.target, ast.Name) or self._ty(s.iter.id) != 'list (option Z)':
                raise Unsupported('for over %s' % ast.unparse(s.iter))
            for n in self._stmts_in_order(s.body):
                tg = n.targets[0] if isinstance(n, ast.Assign) and len(n.targets) == 1 else getattr(n, 'target', None)
                if (isinstance(tg, ast.Name) and tg.id == s.iter.id) or (self._is_append(n) or (None,))[0] == s.iter.id:
                    raise Unsupported('sequence modified while iterating over it')
            var = s.target.id
            state = self._state_vars(s)
            k = len(self.loops) + 1
            sname, bname, pname = '%s_state%d' % (self.fname, k), '%s_body%d' % (self.fname, k), '%s_post%d' % (self.fname, k)
            self.loops.append((sname, state))
            tup = ', '.join(_name(v) for v in state)
            unpack = ("let '(%s) := st in" % tup) if len(state) > 1 else ('let %s := st in' % tup)
            self._declare(var, 'option Z')
            self.depth += 1
            body = self.block(s.body, 'Next (%s)' % tup, sname)
            self.depth -= 1
            self.defs.append('Definition %s (loop_x : option Z) (st : %s) : ctl %s_result %s :=\n%s\nlet %s := loop_x in\n%s.'
                             % (bname, sname, self.fname, sname, unpack, _name(var), body))
            post = self.block(rest, end, S)
            self.defs.append('Definition %s (st : %s) : ctl %s_result %s :=\n%s\n%s.'
                             % (pname, sname, self.fname, S, unpack, post))
            return 'for_then (for_each %s %s (%s)) %s' % (_name(s.iter.id), bname, tup, pname)
        if isinstance(s, ast.For):
            if s.orelse or not isinstance(s.target, ast.Name):
                raise Unsupported('for-else / tuple loop variable')
            lo, hi = self._range_args(s.iter)
            var = s.target.id
            state = self._state_vars(s)
            k = len(self.loops) + 1
            sname, bname, pname = '%s_state%d' % (self.fname, k), '%s_body%d' % (self.fname, k), '%s_post%d' % (self.fname, k)
            self.loops.append((sname, state))
            tup = ', '.join(_name(v) for v in state)
            unpack = ("let '(%s) := st in" % tup) if len(state) > 1 else ('let %s := st in' % tup)
            self._declare(var, 'Z')

            def k_lo(l, tl):
                def k_hi(h, th):
                    if tl != 'Z' or th != 'Z':
                        raise Unsupported('range bounds')
                    self.depth += 1
                    body = self.block(s.body, 'Next (%s)' % tup, sname)
                    self.depth -= 1
                    self.defs.append('Definition %s (loop_i : Z) (st : %s) : ctl %s_result %s :=\n%s\nlet %s := loop_i in\n%s.'
                                     % (bname, sname, self.fname, sname, unpack, _name(var), body))
                    post = self.block(rest, end, S)
                    self.defs.append('Definition %s (st : %s) : ctl %s_result %s :=\n%s\n%s.'
                                     % (pname, sname, self.fname, S, unpack, post))
                    return 'for_then (for_range %s %s %s (%s)) %s' % (l, h, bname, tup, pname)
                return self.guarded(hi, k_hi)
            return self.guarded(lo, k_lo)
        raise Unsupported('statement ' + type(s).__name__)

    def translate(self):
        body = self.block(self.f.body, 'Fail', 'unit')
        if self.ret_types is None:
            raise Unsupported('no return')
        missing = [v for v in self.locals if v not in self.types]
        if missing:
            raise Unsupported('untyped locals %s' % missing)
        out = ['Definition %s_result : Type := (%s)%%type.' % (self.fname, ' * '.join(self.ret_types))]
        for sname, state in self.loops:
            out.append('Definition %s : Type := (%s)%%type.' % (sname, ' * '.join(self.types[v] for v in state)))
        out.extend(self.defs)
        inits = ''.join('let %s := %s in\n' % (_name(v), DEFAULTS[self.types[v]]) for v in self.locals)
        out.append('Definition %s %s : ctl %s_result unit :=\n%s%s.' % (
            self.fname, ' '.join('(%s : %s)' % (_name(p), self.types[p]) for p in self.params), self.fname, inits, body))
        return '\n\n'.join(out)


def translate_functions(path, names, prefix='gen_', types=None):
    with open(path) as fh:
        src = fh.read()
    tree = ast.parse(src)
    found = {n.name: n for n in tree.body if isinstance(n, ast.FunctionDef)}
    parts = ['(* GENERATED by /verif/translate/py2gallina_c20.py from %s -- do not edit *)' % path,
             'From Coq Require Import ZArith QArith Qround Qabs Bool List.',
             'Require Import QV.common.Ctl QV.C20.ForLoop QV.C20.Model.',
             'Import ListNotations.', 'Open Scope Z_scope.', '']
    for n in names:
        if n not in found:
            raise Unsupported('function %s not found in %s' % (n, path))
        parts.append('(* ---- %s ---- *)' % n)
        parts.append(Kernel(found[n], (types or {}).get(n), prefix).translate())
        parts.append('')
    return '\n'.join(parts)


if __name__ == '__main__':
    print(translate_functions(sys.argv[1], sys.argv[2:]))
