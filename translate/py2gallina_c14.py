"""Extension of the fail-closed translator (py2gallina.py, not modified) for `qupulse.utils.numeric.approximate_rational`:
an integer kernel whose inputs are *rationals given by numerator / denominator* and whose result is built with a
fraction constructor passed as an argument.

Additional syntax accepted (anything else raises py2gallina.Unsupported; nothing is guessed):

  parameters   `x: Rational`                 -> two Z parameters  x_numerator, x_denominator   (assumption, stated in the
                                                harness: a `numbers.Rational` is reduced with a positive denominator)
               `f: Type[Rational]`           -> no parameter; `f(a, b)` may only occur as `return f(a, b)`  -> Ret (a, b)
               unannotated / `int`           -> Z
  expressions  x.numerator, x.denominator    (x a declared rational parameter)     -> x_numerator, x_denominator
               x <op> c   (x rational parameter, c integer constant, one comparison) -> x_numerator <op> c * x_denominator
               lcm(a, b), gcd(a, b)          only if the module binds them to math.lcm / math.gcd  -> Z.lcm a b, Z.gcd a b
                                             (both sides return the non-negative value)
  statements   a, b = divmod(e1, e2)         -> a := e1 // e2, b := e1 % e2   (floor semantics, divisor-is-zero -> Fail)
               a, b = g(e1, ..)              g another translated function of the same module returning a pair:
                                             match gen_g fuel e1 .. with Ret (t1, t2) => .. | Next _ => Fail | Fail => Fail
                                             | OutOfFuel => OutOfFuel end
               raise E(..)                   -> Fail        (only as the last statement of a block)
               return x   (rational param)   -> Ret (x_numerator, x_denominator)
               return f(a, b)                -> Ret (a, b)

A rational parameter used in any other way (arithmetic on the object, passing it on, ...) is refused.
"""
import ast
import os
import sys

sys.path.insert(0, os.path.dirname(os.path.abspath(__file__)))
from py2gallina import FuncTranslator, Unsupported, _name  # noqa: E402

RAT_ATTRS = {'numerator': '_numerator', 'denominator': '_denominator'}
MATH_BUILTINS = {'lcm': 'Z.lcm', 'gcd': 'Z.gcd'}


def _ann(node):
    if node is None:
        return None
    if isinstance(node, ast.Constant) and isinstance(node.value, str):
        return node.value
    return ast.unparse(node)


class RatFuncTranslator(FuncTranslator):
    def __init__(self, fdef, prefix='gen_', callees=None, math_names=()):
        self.f = fdef
        self.prefix = prefix
        a = fdef.args
        if a.vararg or a.kwarg or a.kwonlyargs or a.defaults or a.posonlyargs or fdef.decorator_list:
            raise Unsupported('only plain positional parameters, no decorators')
        self.rationals = []
        self.ctor = None
        self.params = []
        for arg in a.args:
            ann = _ann(arg.annotation)
            if ann == 'Rational':
                self.rationals.append(arg.arg)
                self.params += [arg.arg + RAT_ATTRS['numerator'], arg.arg + RAT_ATTRS['denominator']]
            elif ann == 'Type[Rational]':
                if self.ctor is not None:
                    raise Unsupported('two constructor parameters')
                self.ctor = arg.arg
            elif ann in (None, 'int'):
                self.params.append(arg.arg)
            else:
                raise Unsupported('parameter annotation %s' % ann)
        if len(set(self.params)) != len(self.params):
            raise Unsupported('parameter name clash')
        self.reserved = set(self.params) - {x.arg for x in a.args}     # the expanded component names
        self.callees = dict(callees or {})        # python name -> (gallina name, n_args, ret_arity)
        self.math_names = set(math_names)         # names proven to be bound to math.<name> in the module
        self.locals = list(self.params)
        self.types = {p: 'Z' for p in self.params}
        self.loops = []
        self.ret_arity = None
        self._collect(fdef.body)
        self.tmp = 0
        for n in list(self.types) :
            if n in self.rationals or n == self.ctor or n in self.callees or n in MATH_BUILTINS or n == 'divmod':
                raise Unsupported('local variable %s shadows a special name' % n)

    # ---- helpers
    def _is_rational_name(self, e):
        return isinstance(e, ast.Name) and e.id in self.rationals

    def _call_name(self, e):
        if isinstance(e, ast.Call) and isinstance(e.func, ast.Name) and not e.keywords \
                and not any(isinstance(x, ast.Starred) for x in e.args):
            return e.func.id
        return None

    def _declare(self, name, e):
        if name in self.reserved:
            raise Unsupported('assignment to %s, the component name of a rational parameter' % name)
        super()._declare(name, e)

    def _declare_Z(self, name):
        self._declare(name, ast.Constant(value=0))

    # ---- variable collection
    def _collect(self, stmts):
        for s in stmts:
            if isinstance(s, ast.Assign) and len(s.targets) == 1 and isinstance(s.targets[0], ast.Tuple) \
                    and isinstance(s.value, ast.Call):
                t = s.targets[0]
                fn = self._call_name(s.value)
                if not all(isinstance(x, ast.Name) for x in t.elts):
                    raise Unsupported('assignment target ' + ast.dump(t))
                if fn == 'divmod':
                    if len(t.elts) != 2 or len(s.value.args) != 2:
                        raise Unsupported('divmod shape')
                elif fn in self.callees:
                    if self.callees[fn][1] != len(s.value.args) or self.callees[fn][2] != len(t.elts):
                        raise Unsupported('call of %s with wrong arity' % fn)
                else:
                    raise Unsupported('tuple assignment from call of %s' % fn)
                for x in t.elts:
                    self._declare_Z(x.id)
            elif isinstance(s, ast.Raise):
                pass
            elif isinstance(s, ast.Return) and (self._is_rational_name(s.value) or
                                                (self.ctor is not None and self._call_name(s.value) == self.ctor)):
                if self._call_name(s.value) == self.ctor and len(s.value.args) != 2:
                    raise Unsupported('constructor call needs (numerator, denominator)')
                if self.ret_arity not in (None, 2):
                    raise Unsupported('returns of different arity')
                self.ret_arity = 2
            elif isinstance(s, ast.If):
                self._collect(s.body)
                self._collect(s.orelse)
            elif isinstance(s, ast.While):
                self._collect(s.body)
                if s.orelse:
                    raise Unsupported('while-else')
            else:
                super()._collect([s])

    # ---- expressions
    def expr(self, e, divisors):
        if isinstance(e, ast.Attribute):
            if self._is_rational_name(e.value) and e.attr in RAT_ATTRS and isinstance(e.ctx, ast.Load):
                return _name(e.value.id + RAT_ATTRS[e.attr])
            raise Unsupported('attribute ' + ast.unparse(e))
        if isinstance(e, ast.Name) and (e.id in self.rationals or e.id == self.ctor):
            raise Unsupported('parameter %s used as a whole object' % e.id)
        if isinstance(e, ast.Compare) and any(self._is_rational_name(x) for x in [e.left] + e.comparators):
            if len(e.ops) == 1 and self._is_rational_name(e.left) and isinstance(e.comparators[0], ast.Constant) \
                    and type(e.comparators[0].value) is int:
                r, c = e.left.id, e.comparators[0].value
                sym = {ast.Lt: '<?', ast.LtE: '<=?', ast.Gt: '>?', ast.GtE: '>=?', ast.Eq: '=?'}.get(type(e.ops[0]))
                if sym is None:
                    raise Unsupported('comparison of a rational with ' + type(e.ops[0]).__name__)
                return '(%s %s ((%d) * %s))' % (_name(r + RAT_ATTRS['numerator']), sym, c,
                                               _name(r + RAT_ATTRS['denominator']))
            raise Unsupported('comparison involving a rational parameter: ' + ast.unparse(e))
        fn = self._call_name(e)
        if fn is not None:
            if fn in MATH_BUILTINS and fn in self.math_names and len(e.args) == 2:
                return '(%s %s %s)' % (MATH_BUILTINS[fn], self.expr(e.args[0], divisors), self.expr(e.args[1], divisors))
            raise Unsupported('call of %s in an expression' % fn)
        if isinstance(e, ast.Call):
            raise Unsupported('call ' + ast.unparse(e))
        return super().expr(e, divisors)

    # ---- statements
    @staticmethod
    def falls_through(stmts):
        for s in stmts:
            if isinstance(s, (ast.Return, ast.Raise, ast.While)):
                return False
            if isinstance(s, ast.If) and s.orelse and not RatFuncTranslator.falls_through(s.body) \
                    and not RatFuncTranslator.falls_through(s.orelse):
                return False
        return True

    def block(self, stmts, end):
        if not stmts:
            return end
        s, rest = stmts[0], stmts[1:]
        if isinstance(s, ast.Raise):
            if rest:
                raise Unsupported('statements after raise')
            if s.cause is not None or s.exc is None:
                raise Unsupported('raise form')
            exc = s.exc.func if isinstance(s.exc, ast.Call) else s.exc
            if not isinstance(exc, ast.Name):
                raise Unsupported('raise form')
            return 'Fail'
        if isinstance(s, ast.Return) and self._is_rational_name(s.value):
            r = s.value.id
            return 'Ret (%s, %s)' % (_name(r + RAT_ATTRS['numerator']), _name(r + RAT_ATTRS['denominator']))
        if isinstance(s, ast.Return) and self.ctor is not None and self._call_name(s.value) == self.ctor:
            tup = ast.Tuple(elts=list(s.value.args), ctx=ast.Load())
            return super().block([ast.Return(value=tup)], end)
        if isinstance(s, ast.Assign) and isinstance(s.targets[0], ast.Tuple) and isinstance(s.value, ast.Call):
            fn = self._call_name(s.value)
            names = [x.id for x in s.targets[0].elts]
            if fn == 'divmod':
                a, b = s.value.args
                pair = ast.Tuple(elts=[ast.BinOp(left=a, op=ast.FloorDiv(), right=b),
                                       ast.BinOp(left=a, op=ast.Mod(), right=b)], ctx=ast.Load())
                return super().block([ast.Assign(targets=[s.targets[0]], value=pair)] + rest, end)
            if fn in self.callees:
                divs = []
                args = [self.expr(x, divs) for x in s.value.args]
                if divs:
                    raise Unsupported('division inside call arguments')
                tmps = []
                for _ in names:
                    self.tmp += 1
                    tmps.append('tmp%d' % self.tmp)
                body = ''.join('let %s := %s in\n' % (_name(n), tp) for n, tp in zip(names, tmps)) + self.block(rest, end)
                return ('match %s fuel %s with\n| Ret (%s) =>\n%s\n| Next _ => Fail | Fail => Fail | OutOfFuel => OutOfFuel\nend'
                        % (self.callees[fn][0], ' '.join(args), ', '.join(tmps), body))
            raise Unsupported('tuple assignment from call of %s' % fn)
        return super().block(stmts, end)


def _module_bindings(tree):
    """names bound at module level -> list of 'kinds' (how they are bound), to verify lcm/gcd/divmod/callees"""
    out = {}

    def add(n, kind):
        out.setdefault(n, []).append(kind)
    for s in tree.body:
        if isinstance(s, ast.ImportFrom):
            for al in s.names:
                add(al.asname or al.name, 'from %s import %s' % (s.module, al.name))
        elif isinstance(s, ast.Import):
            for al in s.names:
                add((al.asname or al.name).split('.')[0], 'import')
        elif isinstance(s, (ast.FunctionDef, ast.ClassDef)):
            add(s.name, 'def')
        elif isinstance(s, ast.Try):
            # accepted shape:  try: from math import X   except ImportError: <fallback definition of X>
            ok = (len(s.body) == 1 and isinstance(s.body[0], ast.ImportFrom) and s.body[0].module == 'math'
                  and not s.orelse and not s.finalbody and len(s.handlers) == 1
                  and isinstance(s.handlers[0].type, ast.Name) and s.handlers[0].type.id == 'ImportError')
            if not ok:
                raise Unsupported('module-level try statement of an unexpected shape')
            imported = [al.asname or al.name for al in s.body[0].names]
            for h in s.handlers[0].body:
                if not (isinstance(h, ast.FunctionDef) and h.name in imported):
                    raise Unsupported('fallback in module-level try binds something else')
            for al in s.body[0].names:
                add(al.asname or al.name, 'from math import %s' % al.name)     # python >= 3.9: the import succeeds
        elif isinstance(s, (ast.Assign, ast.AnnAssign, ast.AugAssign)):
            for t in (s.targets if isinstance(s, ast.Assign) else [s.target]):
                for n in ast.walk(t):
                    if isinstance(n, ast.Name):
                        add(n.id, 'assign')
        elif isinstance(s, ast.Expr):
            pass
        else:
            raise Unsupported('module-level statement ' + type(s).__name__)
    return out


def translate_rational(path, name='approximate_rational', callee='_approximate_int', prefix='gen_'):
    """Gallina text for `name` (which may call `callee`, translated by py2gallina.py into Gen_numeric.v)."""
    if sys.version_info < (3, 9):
        raise Unsupported('math.lcm needs python >= 3.9')
    with open(path) as fh:
        tree = ast.parse(fh.read())
    binds = _module_bindings(tree)
    math_names = {n for n in MATH_BUILTINS if binds.get(n) == ['from math import %s' % n]}
    if 'divmod' in binds:
        raise Unsupported('divmod is rebound at module level')
    if binds.get(callee) != ['def'] or binds.get(name) != ['def']:
        raise Unsupported('%s / %s are not plain module-level functions' % (name, callee))
    found = {n.name: n for n in tree.body if isinstance(n, ast.FunctionDef)}
    cal = found[callee]
    base = FuncTranslator(cal, prefix)           # arity information of the callee (also checks it is translatable)
    callees = {callee: (prefix + callee.lstrip('_'), len(base.params), base.ret_arity or 1)}
    tr = RatFuncTranslator(found[name], prefix, callees=callees, math_names=math_names)
    parts = ['(* GENERATED by /verif/translate/py2gallina_c14.py from %s -- do not edit *)' % path,
             'From Coq Require Import ZArith Bool.', 'Require Import QV.common.Ctl QV.C14.Gen_numeric.',
             'Open Scope Z_scope.', '', '(* ---- %s ---- *)' % name, tr.translate(), '']
    return '\n'.join(parts)


if __name__ == '__main__':
    print(translate_rational(sys.argv[1]))
