"""Fail-closed translator from a small subset of Python (integer kernels) to Gallina.

Accepted: functions whose parameters and locals are ints (Z) or bools; statements  x = e | a, b = e1, e2 | x op= e |
assert e | return e | return e1, e2 | if/elif/else | while True: (no break/continue) | docstrings;
expressions: int/bool constants, names, + - * // %, unary -, not, and/or, (chained) comparisons, e1 if c else e2.

Semantics of the output (see coq/common/Ctl.v): every function becomes
     f (fuel : nat) (params : Z...) : ctl R S
where `Ret r` is a normal return, `Fail` an AssertionError / ZeroDivisionError, `OutOfFuel` means the while-loop did
not finish within `fuel` iterations.  Python `//` and `%` are Z.div / Z.modulo (both floor), guarded by an explicit
divisor-is-zero test (Z.div x 0 = 0 must never make a theorem true for the wrong reason).

Anything outside the subset raises Unsupported: the caller reports the proof obligation as broken; nothing is guessed.
"""
import ast
import textwrap


class Unsupported(Exception):
    pass


def _name(n):
    return n if not n.startswith('_') else 'u' + n


class FuncTranslator:
    def __init__(self, fdef: ast.FunctionDef, prefix='gen_'):
        self.f = fdef
        self.prefix = prefix
        self.params = [a.arg for a in fdef.args.args]
        if fdef.args.vararg or fdef.args.kwarg or fdef.args.kwonlyargs or fdef.args.defaults:
            raise Unsupported('only plain positional parameters')
        self.locals = list(self.params)
        self.types = {p: 'Z' for p in self.params}
        self.loops = []
        self.ret_arity = None
        self._collect(fdef.body)
        self.tmp = 0

    # ---- variable collection / typing
    def _is_bool_expr(self, e):
        if isinstance(e, ast.Constant) and isinstance(e.value, bool):
            return True
        if isinstance(e, (ast.Compare, ast.BoolOp)):
            return True
        if isinstance(e, ast.UnaryOp) and isinstance(e.op, ast.Not):
            return True
        if isinstance(e, ast.Name) and self.types.get(e.id) == 'bool':
            return True
        return False

    def _declare(self, name, e):
        t = 'bool' if self._is_bool_expr(e) else 'Z'
        if name in self.types and self.types[name] != t:
            raise Unsupported('variable %s used at two types' % name)
        self.types[name] = t
        if name not in self.locals:
            self.locals.append(name)

    def _collect(self, stmts):
        for s in stmts:
            if isinstance(s, ast.Assign):
                if len(s.targets) != 1:
                    raise Unsupported('chained assignment')
                t = s.targets[0]
                if isinstance(t, ast.Name):
                    self._declare(t.id, s.value)
                elif isinstance(t, ast.Tuple) and isinstance(s.value, ast.Tuple) and len(t.elts) == len(s.value.elts) \
                        and all(isinstance(x, ast.Name) for x in t.elts):
                    for x, v in zip(t.elts, s.value.elts):
                        self._declare(x.id, v)
                else:
                    raise Unsupported('assignment target ' + ast.dump(t))
            elif isinstance(s, ast.AugAssign):
                if not isinstance(s.target, ast.Name):
                    raise Unsupported('augmented assignment target')
                self._declare(s.target.id, s.value)
            elif isinstance(s, ast.If):
                self._collect(s.body)
                self._collect(s.orelse)
            elif isinstance(s, ast.While):
                self._collect(s.body)
                if s.orelse:
                    raise Unsupported('while-else')
            elif isinstance(s, ast.Return):
                n = len(s.value.elts) if isinstance(s.value, ast.Tuple) else 1
                if self.ret_arity not in (None, n):
                    raise Unsupported('returns of different arity')
                self.ret_arity = n
            elif isinstance(s, (ast.Assert, ast.Expr, ast.Pass)):
                pass
            else:
                raise Unsupported('statement ' + type(s).__name__)

    # ---- expressions
    def expr(self, e, divisors):
        if isinstance(e, ast.Constant):
            if isinstance(e.value, bool):
                return 'true' if e.value else 'false'
            if isinstance(e.value, int):
                return '(%d)' % e.value
            raise Unsupported('constant %r' % (e.value,))
        if isinstance(e, ast.Name):
            if e.id not in self.types:
                raise Unsupported('unknown name %s' % e.id)
            return _name(e.id)
        if isinstance(e, ast.UnaryOp):
            if isinstance(e.op, ast.USub):
                return '(- %s)' % self.expr(e.operand, divisors)
            if isinstance(e.op, ast.Not):
                return '(negb %s)' % self.expr(e.operand, divisors)
            raise Unsupported('unary op')
        if isinstance(e, ast.BinOp):
            a, b = self.expr(e.left, divisors), self.expr(e.right, divisors)
            if isinstance(e.op, ast.Add):
                return '(%s + %s)' % (a, b)
            if isinstance(e.op, ast.Sub):
                return '(%s - %s)' % (a, b)
            if isinstance(e.op, ast.Mult):
                return '(%s * %s)' % (a, b)
            if isinstance(e.op, ast.FloorDiv):
                divisors.append(b)
                return '(Z.div %s %s)' % (a, b)
            if isinstance(e.op, ast.Mod):
                divisors.append(b)
                return '(Z.modulo %s %s)' % (a, b)
            raise Unsupported('binary op ' + type(e.op).__name__)
        if isinstance(e, ast.BoolOp):
            op = ' && ' if isinstance(e.op, ast.And) else ' || '
            return '(' + op.join(self.expr(v, divisors) for v in e.values) + ')'
        if isinstance(e, ast.Compare):
            parts = []
            left = e.left
            for op, right in zip(e.ops, e.comparators):
                a, b = self.expr(left, divisors), self.expr(right, divisors)
                sym = {ast.Lt: '<?', ast.LtE: '<=?', ast.Gt: '>?', ast.GtE: '>=?', ast.Eq: '=?'}.get(type(op))
                if sym is None:
                    if isinstance(op, ast.NotEq):
                        parts.append('(negb (%s =? %s))' % (a, b))
                    else:
                        raise Unsupported('comparison ' + type(op).__name__)
                else:
                    parts.append('(%s %s %s)' % (a, sym, b))
                left = right
            return '(' + ' && '.join(parts) + ')'
        if isinstance(e, ast.IfExp):
            return '(if %s then %s else %s)' % (self.expr(e.test, divisors), self.expr(e.body, divisors),
                                                 self.expr(e.orelse, divisors))
        raise Unsupported('expression ' + type(e).__name__)

    def guarded(self, e, k):
        """translate expression e, then build `k(text)` under divisor guards"""
        divs = []
        txt = self.expr(e, divs)
        body = k(txt)
        for d in reversed(divs):
            body = 'if (%s =? 0) then Fail else %s' % (d, body)
        return body

    # ---- statements
    def pack(self):
        return 'Next (%s)' % ', '.join(_name(v) for v in self.locals)

    def unpack(self, st):
        return "let '(%s) := %s in" % (', '.join(_name(v) for v in self.locals), st)

    @staticmethod
    def falls_through(stmts):
        for s in stmts:
            if isinstance(s, ast.Return):
                return False
            if isinstance(s, ast.While):
                return False          # `while True` without break never falls through
            if isinstance(s, ast.If) and s.orelse and not FuncTranslator.falls_through(s.body) \
                    and not FuncTranslator.falls_through(s.orelse):
                return False
        return True

    def block(self, stmts, end):
        """Gallina expression of type ctl for the statement list; `end` is used when control falls off the end."""
        if not stmts:
            return end
        s, rest = stmts[0], stmts[1:]
        if isinstance(s, ast.Expr):
            if isinstance(s.value, ast.Constant) and isinstance(s.value.value, str):
                return self.block(rest, end)
            raise Unsupported('expression statement')
        if isinstance(s, ast.Pass):
            return self.block(rest, end)
        if isinstance(s, ast.Assign):
            t = s.targets[0]
            if isinstance(t, ast.Name):
                return self.guarded(s.value, lambda v: 'let %s := %s in\n%s' % (_name(t.id), v, self.block(rest, end)))
            names = [x.id for x in t.elts]
            tmps = []
            for _ in names:
                self.tmp += 1
                tmps.append('tmp%d' % self.tmp)
            body = ''.join('let %s := %s in\n' % (_name(n), tp) for n, tp in zip(names, tmps)) + self.block(rest, end)
            for tp, v in reversed(list(zip(tmps, s.value.elts))):
                body = self.guarded(v, lambda txt, tp=tp, body=body: 'let %s := %s in\n%s' % (tp, txt, body))
            return body
        if isinstance(s, ast.AugAssign):
            op = {ast.Add: '+', ast.Sub: '-', ast.Mult: '*'}.get(type(s.op))
            if op is None:
                raise Unsupported('augmented op')
            n = _name(s.target.id)
            return self.guarded(s.value, lambda v: 'let %s := (%s %s %s) in\n%s' % (n, n, op, v, self.block(rest, end)))
        if isinstance(s, ast.Assert):
            return self.guarded(s.test, lambda v: 'if %s then\n%s\nelse Fail' % (v, self.block(rest, end)))
        if isinstance(s, ast.Return):
            if isinstance(s.value, ast.Tuple):
                divs = []
                parts = [self.expr(x, divs) for x in s.value.elts]
                body = 'Ret (%s)' % ', '.join(parts)
                for d in reversed(divs):
                    body = 'if (%s =? 0) then Fail else %s' % (d, body)
                return body
            return self.guarded(s.value, lambda v: 'Ret %s' % v)
        if isinstance(s, ast.If):
            if not self.falls_through([s]) or not rest:
                tail = end
                return self.guarded(s.test, lambda c: '(if %s then\n%s\nelse\n%s)' % (
                    c, self.block(s.body, tail), self.block(s.orelse, tail)))
            inner = self.guarded(s.test, lambda c: '(if %s then\n%s\nelse\n%s)' % (
                c, self.block(s.body, self.pack()), self.block(s.orelse, self.pack())))
            return 'match %s with\n| Next st => %s\n%s\n| Ret r => Ret r | Fail => Fail | OutOfFuel => OutOfFuel\nend' % (
                inner, self.unpack('st'), self.block(rest, end))
        if isinstance(s, ast.While):
            if not (isinstance(s.test, ast.Constant) and s.test.value is True):
                raise Unsupported('only `while True` loops')
            for sub in ast.walk(s):
                if isinstance(sub, (ast.Break, ast.Continue)):
                    raise Unsupported('break/continue')
            lname = '%s%s_loop%d' % (self.prefix, self.f.name.lstrip('_'), len(self.loops) + 1)
            self.loops.append(None)
            idx = len(self.loops) - 1
            body = self.block(s.body, self.pack())
            self.loops[idx] = (lname, body)
            return '%s fuel (%s)' % (lname, ', '.join(_name(v) for v in self.locals))
        raise Unsupported('statement ' + type(s).__name__)

    def translate(self):
        fname = self.prefix + self.f.name.lstrip('_')
        body = self.block(self.f.body, 'Fail')
        S = ' * '.join(self.types[v] for v in self.locals)
        R = ' * '.join(['Z'] * (self.ret_arity or 1))
        out = []
        out.append('Definition %s_state : Type := (%s)%%type.' % (fname, S))
        out.append('Definition %s_result : Type := (%s)%%type.' % (fname, R))
        for lname, lbody in self.loops:
            out.append('Fixpoint %s (fuel : nat) (st : %s_state) {struct fuel} : ctl %s_result %s_state :=\n'
                       '  match fuel with\n  | O => OutOfFuel\n  | S fuel =>\n%s\n'
                       'match (%s) with\n| Next st\' => %s fuel st\'\n| Ret r => Ret r | Fail => Fail | OutOfFuel => OutOfFuel\nend\n  end.'
                       % (lname, fname, fname, fname, self.unpack('st'), lbody, lname))
        inits = ''.join('let %s := %s in\n' % (_name(v), 'false' if self.types[v] == 'bool' else '0')
                        for v in self.locals if v not in self.params)
        out.append('Definition %s (fuel : nat) %s : ctl %s_result %s_state :=\n%s%s.' % (
            fname, ' '.join('(%s : Z)' % _name(p) for p in self.params), fname, fname, inits, body))
        return '\n\n'.join(out)


def translate_functions(path, names, prefix='gen_'):
    with open(path) as fh:
        src = fh.read()
    tree = ast.parse(src)
    found = {n.name: n for n in tree.body if isinstance(n, ast.FunctionDef)}
    parts = ['(* GENERATED by /verif/translate/py2gallina.py from %s -- do not edit *)' % path,
             'From Coq Require Import ZArith Bool.', 'Require Import QV.common.Ctl.', 'Open Scope Z_scope.', '']
    for n in names:
        if n not in found:
            raise Unsupported('function %s not found in %s' % (n, path))
        parts.append('(* ---- %s ---- *)' % n)
        parts.append(FuncTranslator(found[n], prefix).translate())
        parts.append('')
    return '\n'.join(parts)


if __name__ == '__main__':
    import sys
    print(translate_functions(sys.argv[1], sys.argv[2:]))
