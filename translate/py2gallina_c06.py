"""Extension of the fail-closed translator (py2gallina.py, not modified) for the probe loop of
qupulse.utils.numeric.smallest_factor_ge (property C06).

Accepted shape (anything else: Unsupported -> the obligation is reported as broken, nothing is guessed):

    def f(p1: int, ..., pk: int = <int literal>):          # trailing int-literal defaults, no *args/**kw/kw-only
        \"\"\"docstring\"\"\"                                     # optional
        assert <bool expr>                                   # zero or more (message: none or a string literal)
        for <v> in range(<lo>, <hi>):                        # or range(<hi>)
            if <bool expr>:
                return <int expr>
        else:
            return <ANY expression>                          # not translated: becomes `fallback <params it mentions>`

Expressions are those of py2gallina.FuncTranslator.expr (int constants, names, + - * // %, comparisons, and/or/not,
conditional expressions) plus  min(a, b) / max(a, b)  of two ints  ->  Z.min / Z.max.

Output (types `result`, `Ok`, `Err`, `EAssert`, `EZeroDiv` are those of coq/C06/Model.v):

    Fixpoint  <f>_src_probe (params : Z) (cnt : nat) (<v> : Z) : option (result Z)
        the for loop, structurally recursive on the number `cnt` of iterations left, `<v>` the current element of the
        range; `None` = range exhausted without `return` (the for-else clause runs); `Some (Ok r)` = `return r`;
        `Some (Err EZeroDiv)` = a `%`/`//` by zero was evaluated (ZeroDivisionError; Z.modulo x 0 = x must never make a
        theorem true for the wrong reason).
    Definition <f>_src (fallback : Z -> .. -> Z) (params : Z) : result Z
        `Err EAssert` for a failing assert; range(lo, hi) has Z.to_nat (hi - lo) elements lo, lo+1, ... (empty when
        hi <= lo); the else clause is `Ok (fallback <parameters occurring in the untranslated expression, in order>)`.
    Definition <f>_src_dflt: the same with the default values filled in.

Python's % and // on ints are floor operations with the sign of the divisor, i.e. Z.modulo / Z.div for every non-zero
divisor, so the output is faithful on all integer arguments (given the fall-back's value).

Every part of the output except the fall-back comes from the AST: the assert's comparison, both range bounds, the test
of the `if` and the returned expression.
"""
import ast
import os
import sys

sys.path.insert(0, os.path.dirname(os.path.abspath(__file__)))
import py2gallina  # noqa: E402
from py2gallina import Unsupported, _name  # noqa: E402


# Gallina keywords + every identifier the generated text uses itself
RESERVED = {'end', 'match', 'with', 'fun', 'let', 'in', 'if', 'then', 'else', 'fix', 'cofix', 'forall', 'exists', 'return',
            'as', 'at', 'for', 'where', 'Type', 'Prop', 'Set', 'struct', 'using', 'IF', 'mod',
            'fallback', 'cnt', 'range_lo', 'range_hi', 'r', 'result', 'Ok', 'Err', 'EAssert', 'EZeroDiv', 'Some', 'None',
            'option', 'nat', 'O', 'S', 'Z', 'true', 'false', 'negb', 'bool'}
BUILTINS_USED = ('range', 'min', 'max')


def _is_int_annotation(a):
    return a is None or (isinstance(a, ast.Name) and a.id == 'int')


def _int_literal(e):
    """value of an int literal (optionally negated), else None"""
    if isinstance(e, ast.Constant) and isinstance(e.value, int) and not isinstance(e.value, bool):
        return e.value
    if isinstance(e, ast.UnaryOp) and isinstance(e.op, ast.USub):
        v = _int_literal(e.operand)
        return None if v is None else -v
    return None


class ProbeLoopTranslator(py2gallina.FuncTranslator):
    """does NOT run the base constructor (it refuses default arguments and for loops); the expression translator of the
    base class is reused with this class' typing environment"""

    def __init__(self, fdef, suffix='_src'):
        if not isinstance(fdef, ast.FunctionDef):
            raise Unsupported('not a plain function')
        self.f = fdef
        self.fname = fdef.name.lstrip('_') + suffix
        a = fdef.args
        if a.vararg or a.kwarg or a.kwonlyargs or a.kw_defaults or a.posonlyargs:
            raise Unsupported('only plain positional parameters')
        if fdef.decorator_list:
            raise Unsupported('decorator')
        if not _is_int_annotation(fdef.returns):
            raise Unsupported('return annotation')
        self.params = [x.arg for x in a.args]
        if len(set(self.params)) != len(self.params) or not self.params:
            raise Unsupported('parameter list')
        for x in a.args:
            if not _is_int_annotation(x.annotation):
                raise Unsupported('parameter %s is not annotated as int' % x.arg)
            self._check_ident(x.arg)
        self.defaults = []
        for p, d in zip(self.params[len(self.params) - len(a.defaults):], a.defaults):
            v = _int_literal(d)
            if v is None:
                raise Unsupported('default of %s is not an int literal' % p)
            self.defaults.append((p, v))
        self.types = {p: 'Z' for p in self.params}
        self.locals = list(self.params)
        self.loops = []
        self.ret_arity = 1
        self.tmp = 0
        self._parse_body()

    @staticmethod
    def _check_ident(name):
        if name in RESERVED or name in BUILTINS_USED or not name.isidentifier() or not name.isascii() or "'" in name:
            raise Unsupported('identifier %s clashes with the generated text' % name)

    # ---- the one statement shape that is understood
    def _parse_body(self):
        body = list(self.f.body)
        if body and isinstance(body[0], ast.Expr) and isinstance(body[0].value, ast.Constant) \
                and isinstance(body[0].value.value, str):
            body = body[1:]
        self.asserts = []
        while body and isinstance(body[0], ast.Assert):
            s = body[0]
            if s.msg is not None and not (isinstance(s.msg, ast.Constant) and isinstance(s.msg.value, str)):
                raise Unsupported('assert message')
            if not self._is_bool_expr(s.test):
                raise Unsupported('assert of a non-boolean expression')
            self.asserts.append(s.test)
            body = body[1:]
        if len(body) != 1 or not isinstance(body[0], ast.For):
            raise Unsupported('body is not  [docstring] assert* for-else')
        loop = body[0]
        if loop.type_comment is not None or not isinstance(loop.target, ast.Name):
            raise Unsupported('loop target')
        self.var = loop.target.id
        self._check_ident(self.var)
        if self.var in self.params:
            raise Unsupported('loop variable shadows a parameter')
        it = loop.iter
        if not (isinstance(it, ast.Call) and isinstance(it.func, ast.Name) and it.func.id == 'range' and not it.keywords
                and len(it.args) in (1, 2) and not any(isinstance(x, ast.Starred) for x in it.args)):
            raise Unsupported('only for .. in range(hi) / range(lo, hi)')
        self.lo, self.hi = (ast.Constant(0), it.args[0]) if len(it.args) == 1 else (it.args[0], it.args[1])
        for x in (self.lo, self.hi):
            if self._is_bool_expr(x):
                raise Unsupported('boolean range bound')
        if len(loop.body) != 1 or not isinstance(loop.body[0], ast.If):
            raise Unsupported('loop body is not a single if')
        cond = loop.body[0]
        if cond.orelse or len(cond.body) != 1 or not isinstance(cond.body[0], ast.Return) or cond.body[0].value is None:
            raise Unsupported('loop body is not  if <test>: return <expr>')
        if not self._is_bool_expr(cond.test):
            raise Unsupported('if of a non-boolean expression')
        self.test = cond.test
        self.retval = cond.body[0].value
        if self._is_bool_expr(self.retval) or isinstance(self.retval, ast.Tuple):
            raise Unsupported('returned expression is not an int')
        if len(loop.orelse) != 1 or not isinstance(loop.orelse[0], ast.Return) or loop.orelse[0].value is None:
            raise Unsupported('for loop without  else: return <expr>')
        self.fallback_expr = loop.orelse[0].value
        # the fall-back is a black box over the parameters it mentions (a superset is harmless: a name shadowed inside a
        # comprehension / lambda only adds an argument the value does not depend on).  The loop variable is unbound when
        # the range is empty; yield/await would turn the whole function into a generator/coroutine; `:=` binds in the
        # function's scope: refuse those.
        used = []
        for sub in ast.walk(self.fallback_expr):
            if isinstance(sub, (ast.NamedExpr, ast.Await, ast.Yield, ast.YieldFrom)):
                raise Unsupported('fall-back expression contains := / yield / await')
            if isinstance(sub, ast.Name):
                if sub.id == self.var:
                    raise Unsupported('fall-back expression uses the loop variable')
                if sub.id in self.params and sub.id not in used:
                    used.append(sub.id)
        self.fallback_args = sorted(used, key=self.params.index)
        if not self.fallback_args:
            raise Unsupported('fall-back expression does not depend on the parameters')

    # ---- expressions: base class + min/max
    def expr(self, e, divisors):
        if isinstance(e, ast.Call):
            if isinstance(e.func, ast.Name) and e.func.id in ('min', 'max') and len(e.args) == 2 and not e.keywords \
                    and not any(isinstance(x, ast.Starred) for x in e.args):
                for x in e.args:
                    if self._is_bool_expr(x):
                        raise Unsupported('min/max of a boolean')
                return '(Z.%s %s %s)' % (e.func.id, self.expr(e.args[0], divisors), self.expr(e.args[1], divisors))
            raise Unsupported('call ' + ast.unparse(e.func))
        # python truthiness of an int (`not n % k`, `a and b` on ints) is not translated
        if isinstance(e, ast.UnaryOp) and isinstance(e.op, ast.Not) and not self._is_bool_expr(e.operand):
            raise Unsupported('not of a non-boolean expression')
        if isinstance(e, ast.BoolOp) and not all(self._is_bool_expr(v) for v in e.values):
            raise Unsupported('and/or of non-boolean expressions')
        if isinstance(e, ast.IfExp) and not self._is_bool_expr(e.test):
            raise Unsupported('conditional expression on a non-boolean test')
        return super().expr(e, divisors)

    def guard(self, e, k, zerodiv):
        """translate e, build k(text) under `divisor = 0 -> zerodiv` guards (in evaluation order)"""
        divs = []
        txt = self.expr(e, divs)
        body = k(txt)
        for d in reversed(divs):
            body = 'if (%s =? 0) then %s else\n%s' % (d, zerodiv, body)
        return body

    def guarded(self, e, k):
        raise Unsupported('internal: ctl-style guard is not used by this translator')

    # ---- output
    def translate(self):
        ps = ' '.join(_name(p) for p in self.params)
        var = _name(self.var)
        probe = self.fname + '_probe'
        # loop body, typed with the loop variable in scope
        self.types[self.var] = 'Z'
        # the returned expression is evaluated (and can divide by zero) only when the test holds
        ret = self.guard(self.retval, lambda v: 'Some (Ok %s)' % v, 'Some (Err EZeroDiv)')
        step = self.guard(self.test, lambda c: 'if %s then (%s)\nelse %s %s cnt (%s + 1)' % (c, ret, probe, ps, var),
                          'Some (Err EZeroDiv)')
        del self.types[self.var]
        out = []
        out.append('Fixpoint %s (%s : Z) (cnt : nat) (%s : Z) {struct cnt} : option (result Z) :=\n'
                   'match cnt with\n| O => None\n| S cnt =>\n%s\nend.' % (probe, ps, var, step))
        # prologue + range bounds, typed without the loop variable
        call = ('match %s %s (Z.to_nat (range_hi - range_lo)) range_lo with\n| Some r => r\n| None => Ok (fallback %s)\nend'
                % (probe, ps, ' '.join(_name(p) for p in self.fallback_args)))
        body = self.guard(self.lo, lambda lo: 'let range_lo := %s in\n%s' % (lo, self.guard(
            self.hi, lambda hi: 'let range_hi := %s in\n%s' % (hi, call), 'Err EZeroDiv')), 'Err EZeroDiv')
        for t in reversed(self.asserts):
            body = self.guard(t, lambda c, body=body: 'if %s then\n%s\nelse Err EAssert' % (c, body), 'Err EZeroDiv')
        fbt = ' -> '.join(['Z'] * (len(self.fallback_args) + 1))
        fb_src = ast.unparse(self.fallback_expr).replace('(*', '( *').replace('*)', '* )')
        out.append('(* fall-back (not translated): fallback %s  stands for  %s *)\n'
                   'Definition %s (fallback : %s) (%s : Z) : result Z :=\n%s.'
                   % (' '.join(self.fallback_args), fb_src, self.fname, fbt, ps, body))
        dflt = dict(self.defaults)
        free = [p for p in self.params if p not in dflt]
        out.append('Definition %s_dflt (fallback : %s)%s : result Z :=\n%s fallback %s.'
                   % (self.fname, fbt, (' (%s : Z)' % ' '.join(_name(p) for p in free)) if free else '', self.fname,
                      ' '.join(('(%d)' % dflt[p]) if p in dflt else _name(p) for p in self.params)))
        return '\n\n'.join(out)


def _check_builtins_not_rebound(tree):
    """range/min/max must be the builtins: refuse a module that binds these names anywhere"""
    for n in ast.walk(tree):
        names = []
        if isinstance(n, ast.Name) and isinstance(n.ctx, (ast.Store, ast.Del)):
            names = [n.id]
        elif isinstance(n, (ast.FunctionDef, ast.AsyncFunctionDef, ast.ClassDef)):
            names = [n.name]
        elif isinstance(n, ast.arg):
            names = [n.arg]
        elif isinstance(n, (ast.Import, ast.ImportFrom)):
            names = [(al.asname or al.name).split('.')[0] for al in n.names]
            if '*' in names:
                raise Unsupported('star import (could rebind range/min/max)')
        elif isinstance(n, (ast.Global, ast.Nonlocal)):
            names = list(n.names)
        elif isinstance(n, ast.ExceptHandler) and n.name:
            names = [n.name]
        for x in names:
            if x in BUILTINS_USED:
                raise Unsupported('module rebinds the builtin %s' % x)


def translate_function(path, name, suffix='_src'):
    with open(path) as fh:
        src = fh.read()
    tree = ast.parse(src)
    found = [n for n in tree.body if isinstance(n, (ast.FunctionDef, ast.AsyncFunctionDef, ast.ClassDef)) and n.name == name]
    if len(found) != 1:
        raise Unsupported('%d top-level definitions of %s in %s' % (len(found), name, path))
    for n in ast.walk(tree):
        if n is not found[0] and isinstance(n, ast.Name) and isinstance(n.ctx, (ast.Store, ast.Del)) and n.id == name:
            raise Unsupported('%s is re-bound in the module' % name)
    _check_builtins_not_rebound(tree)
    parts = ['(* GENERATED by /verif/translate/py2gallina_c06.py from %s -- do not edit *)' % path,
             'From Coq Require Import ZArith Bool.', 'Require Import QV.C06.Model.', 'Open Scope Z_scope.', '',
             '(* ---- %s ---- *)' % name, ProbeLoopTranslator(found[0], suffix).translate(), '']
    return '\n'.join(parts)


if __name__ == '__main__':
    print(translate_function(sys.argv[1], sys.argv[2]))
