"""Fail-closed translator for the DECISIONS of qupulse/_program/tabor.py (C16).

The restructuring code of the Tabor compiler manipulates Loop objects, which the shared translator (py2gallina.py, not
modified; `Unsupported` is taken from it) cannot express.  What decides the outcome, however, are small integer /
boolean tests over a handful of observations of those objects (`len(program[i])`, `program[i].repetition_count`,
`program[i].volatile_repetition is None`, ...).  This translator

  1. collects, in source order, the test expression of every `if` / `elif` / `while` / `assert` of a function,
  2. replaces every sub-expression that is one of the DECLARED observations of that function (compared as
     `ast.unparse` text) by a typed variable (Z or bool),
  3. translates what remains — int constants, + - *, % by a positive constant, comparisons, and / or / not,
     `np.any(e)` as the per-element predicate e — into a Gallina boolean term
        Definition gen_<function>_t<k> (<all declared variables>) : bool := ...

Anything else (an undeclared attribute, another call, a different number of tests) raises Unsupported: the obligation is
reported as broken, nothing is guessed.  coq/C16/GenEq.v (committed) proves every generated test equal to the
corresponding test of the model.
"""
import ast
import os
import sys

sys.path.insert(0, os.path.dirname(os.path.abspath(__file__)))
from py2gallina import Unsupported  # noqa: E402


def tests_in_order(body, returns=False):
    """test expressions of if / elif / while / assert statements — with returns=True also the returned expressions
    (for predicates like Loop._has_single_child_that_can_be_merged) — in source order"""
    out = []
    for s in body:
        if isinstance(s, ast.If):
            out.append(s.test)
            out.extend(tests_in_order(s.body, returns))
            out.extend(tests_in_order(s.orelse, returns))
        elif isinstance(s, ast.While):
            out.append(s.test)
            out.extend(tests_in_order(s.body, returns))
            out.extend(tests_in_order(s.orelse, returns))
        elif isinstance(s, ast.Assert):
            out.append(s.test)
        elif isinstance(s, ast.Return) and returns:
            if s.value is None:
                raise Unsupported('bare return in a predicate')
            out.append(s.value)
        elif isinstance(s, (ast.For, ast.With, ast.Try)):
            out.extend(tests_in_order(s.body, returns))
            for h in getattr(s, 'handlers', []):
                out.extend(tests_in_order(h.body, returns))
            out.extend(tests_in_order(getattr(s, 'orelse', []), returns))
            out.extend(tests_in_order(getattr(s, 'finalbody', []), returns))
    return out


CMP = {ast.Eq: '=?', ast.Lt: '<?', ast.LtE: '<=?', ast.Gt: '>?', ast.GtE: '>=?'}


class ExprTranslator:
    def __init__(self, observations):
        """observations: list of (unparsed python expression, variable name, 'Z' | 'bool')"""
        self.obs = {}
        for text, var, ty in observations:
            key = ast.unparse(ast.parse(text, mode='eval').body)
            self.obs[key] = (var, ty)

    def ty(self, e):
        key = ast.unparse(e)
        if key in self.obs:
            return self.obs[key][1]
        if isinstance(e, (ast.BoolOp, ast.Compare)) or (isinstance(e, ast.UnaryOp) and isinstance(e.op, ast.Not)):
            return 'bool'
        if isinstance(e, ast.Constant) and isinstance(e.value, bool):
            return 'bool'
        if isinstance(e, ast.Call) and ast.unparse(e.func) == 'np.any':
            return 'bool'
        return 'Z'

    def bool_(self, e):
        s = self.expr(e)
        if self.ty(e) != 'bool':
            raise Unsupported('truth value of a non-boolean expression: ' + ast.unparse(e))
        return s

    def int_(self, e):
        s = self.expr(e)
        if self.ty(e) != 'Z':
            raise Unsupported('boolean used as a number: ' + ast.unparse(e))
        return s

    def expr(self, e):
        key = ast.unparse(e)
        if key in self.obs:
            return self.obs[key][0]
        if isinstance(e, ast.Constant) and isinstance(e.value, bool):
            return 'true' if e.value else 'false'
        if isinstance(e, ast.Constant):
            if not isinstance(e.value, int):
                raise Unsupported('constant ' + repr(e.value))
            return str(e.value) if e.value >= 0 else '(%d)' % e.value
        if isinstance(e, ast.BoolOp):
            op = ' && ' if isinstance(e.op, ast.And) else ' || '
            return '(' + op.join(self.bool_(v) for v in e.values) + ')'
        if isinstance(e, ast.UnaryOp) and isinstance(e.op, ast.Not):
            return '(negb %s)' % self.bool_(e.operand)
        if isinstance(e, ast.Compare):
            if len(e.ops) != 1:
                raise Unsupported('chained comparison')
            a, b = self.int_(e.left), self.int_(e.comparators[0])
            if isinstance(e.ops[0], ast.NotEq):
                return '(negb (%s =? %s))' % (a, b)
            if type(e.ops[0]) not in CMP:
                raise Unsupported('comparison ' + type(e.ops[0]).__name__ + ' in ' + key)
            return '(%s %s %s)' % (a, CMP[type(e.ops[0])], b)
        if isinstance(e, ast.BinOp):
            if isinstance(e.op, ast.Mod):
                d = e.right
                if not (isinstance(d, ast.Constant) and isinstance(d.value, int) and not isinstance(d.value, bool) and d.value > 0):
                    raise Unsupported('% by something that is not a positive constant')
                return '(%s mod %d)' % (self.int_(e.left), d.value)
            ops = {ast.Add: '+', ast.Sub: '-', ast.Mult: '*'}
            if type(e.op) not in ops:
                raise Unsupported('operator ' + type(e.op).__name__)
            return '(%s %s %s)' % (self.int_(e.left), ops[type(e.op)], self.int_(e.right))
        if isinstance(e, ast.Call) and ast.unparse(e.func) == 'np.any' and len(e.args) == 1 and not e.keywords:
            return self.bool_(e.args[0])          # per-element predicate (the observation is the array's element)
        raise Unsupported('expression outside the subset: ' + key)


def _is_any(e):
    return isinstance(e, ast.Call) and ast.unparse(e.func) == 'np.any'


def _check_any(e, top):
    """`np.any(p) or np.any(q)` is translated as the per-element predicate p || q (exists distributes over `or`
    only): np.any is accepted at the top of a test or directly under a top-level `or`, nowhere else"""
    if _is_any(e):
        if not top:
            raise Unsupported('np.any below and / not / an operator: ' + ast.unparse(e))
        for a in e.args:
            _check_any(a, False)
        return
    if top and isinstance(e, ast.BoolOp) and isinstance(e.op, ast.Or):
        if any(_is_any(v) for v in e.values) and not all(_is_any(v) for v in e.values):
            raise Unsupported('np.any mixed with scalar tests: ' + ast.unparse(e))
        for v in e.values:
            _check_any(v, True)
        return
    for c in ast.iter_child_nodes(e):
        _check_any(c, False)


def translate_decisions(path, spec, prefix='gen_'):
    """spec: list of (function name (or Class.method; a trailing `!returns` also collects the returned expressions),
    observations, number of tests expected)"""
    with open(path) as fh:
        tree = ast.parse(fh.read())
    funcs = {}
    for n in tree.body:
        if isinstance(n, ast.FunctionDef):
            funcs[n.name] = n
        elif isinstance(n, ast.ClassDef):
            for m in n.body:
                if isinstance(m, ast.FunctionDef):
                    funcs['%s.%s' % (n.name, m.name)] = m
    parts = ['(* GENERATED by /verif/translate/py2gallina_c16.py from %s -- do not edit *)' % path,
             'From Coq Require Import ZArith Bool.', 'Open Scope Z_scope.', 'Open Scope bool_scope.', '']
    for fname, observations, ntests in spec:
        returns = fname.endswith('!returns')
        fname = fname[:-len('!returns')] if returns else fname
        if fname not in funcs:
            raise Unsupported('function %s not found' % fname)
        tests = tests_in_order(funcs[fname].body, returns)
        if len(tests) != ntests:
            raise Unsupported('%s has %d tests, %d expected: %s' % (fname, len(tests), ntests,
                                                                    ' | '.join(ast.unparse(t) for t in tests)))
        for t in tests:
            _check_any(t, True)
        tr = ExprTranslator(observations)
        binders = ' '.join('(%s : %s)' % (v, t) for _, v, t in observations)
        parts.append('(* ---- %s ---- *)' % fname)
        for k, t in enumerate(tests, 1):
            parts.append('(* %s *)' % ast.unparse(t).replace('*)', '* )'))
            parts.append('Definition %s%s_t%d %s : bool := %s.' % (prefix, fname.split('.')[-1].strip('_'), k, binders,
                                                                  tr.bool_(t)))
        parts.append('')
    return '\n'.join(parts)


if __name__ == '__main__':
    print(translate_decisions(sys.argv[1], eval(sys.argv[2])))
