"""Fail-closed translator for the DECISIONS of qupulse/_program/tabor.py (C16).

The restructuring code of the Tabor compiler manipulates Loop objects, which the shared translator (py2gallina.py, not
modified; `Unsupported` is taken from it) cannot express.  What decides the outcome, however, are small integer /
boolean tests over a handful of observations of those objects (`len(program[i])`, `program[i].repetition_count`,
`program[i].volatile_repetition is None`, ...).  This translator

  1. collects, in source order, the test expression of every `if` / `elif` / `while` / `assert` of a function,
  2. replaces every sub-expression that is one of the DECLARED observations of that function (compared as
     `ast.unparse` text) by a typed variable (Z or bool),
  3. translates what remains — int constants, + - *, % by a positive constant, comparisons, and / or / not,
     `np.any(e)` as the per-element predicate e — into a Gallina boolean term
        Definition gen_<function>_t<k> (<all declared variables>) : bool := ...

Anything else (an undeclared attribute, another call, a different number of tests) raises Unsupported: the obligation is
reported as broken, nothing is guessed.  coq/C16/GenEq.v (committed) proves every generated test equal to the
corresponding test of the model.
"""
import ast
import os
import sys

sys.path.insert(0, os.path.dirname(os.path.abspath(__file__)))
from py2gallina import Unsupported  # noqa: E402


def tests_in_order(body, returns=False):
    """test expressions of if / elif / while / assert statements — with returns=True also the returned expressions
    (for predicates like Loop._has_single_child_that_can_be_merged) — in source order"""
    out = []
    for s in body:
        if isinstance(s, ast.If):
            out.append(s.test)
            out.extend(tests_in_order(s.body, returns))
            out.extend(tests_in_order(s.orelse, returns))
        elif isinstance(s, ast.While):
            out.append(s.test)
            out.extend(tests_in_order(s.body, returns))
            out.extend(tests_in_order(s.orelse, returns))
        elif isinstance(s, ast.Assert):
            out.append(s.test)
        elif isinstance(s, ast.Return) and returns:
            if s.value is None:
                raise Unsupported('bare return in a predicate')
            out.append(s.value)
        elif isinstance(s, (ast.For, ast.With, ast.Try)):
            out.extend(tests_in_order(s.body, returns))
            for h in getattr(s, 'handlers', []):
                out.extend(tests_in_order(h.body, returns))
            out.extend(tests_in_order(getattr(s, 'orelse', []), returns))
            out.extend(tests_in_order(getattr(s, 'finalbody', []), returns))
    return out


CMP = {ast.Eq: '=?', ast.Lt: '<?', ast.LtE: '<=?', ast.Gt: '>?', ast.GtE: '>=?'}


class ExprTranslator:
    def __init__(self, observations):
        """observations: list of (unparsed python expression, variable name, 'Z' | 'bool')"""
        self.obs = {}
        for text, var, ty in observations:
            key = ast.unparse(ast.parse(text, mode='eval').body)
            self.obs[key] = (var, ty)

    def ty(self, e):
        key = ast.unparse(e)
        if key in self.obs:
            return self.obs[key][1]
        if isinstance(e, (ast.BoolOp, ast.Compare)) or (isinstance(e, ast.UnaryOp) and isinstance(e.op, ast.Not)):
            return 'bool'
        if isinstance(e, ast.Constant) and isinstance(e.value, bool):
            return 'bool'
        if isinstance(e, ast.Call) and ast.unparse(e.func) == 'np.any':
            return 'bool'
        return 'Z'

    def bool_(self, e):
        s = self.expr(e)
        if self.ty(e) != 'bool':
            raise Unsupported('truth value of a non-boolean expression: ' + ast.unparse(e))
        return s

    def int_(self, e):
        s = self.expr(e)
        if self.ty(e) != 'Z':
            raise Unsupported('boolean used as a number: ' + ast.unparse(e))
        return s

    def expr(self, e):
        key = ast.unparse(e)
        if key in self.obs:
            return self.obs[key][0]
        if isinstance(e, ast.Constant) and isinstance(e.value, bool):
            return 'true' if e.value else 'false'
        if isinstance(e, ast.Constant):
            if not isinstance(e.value, int):
                raise Unsupported('constant ' + repr(e.value))
            return str(e.value) if e.value >= 0 else '(%d)' % e.value
        if isinstance(e, ast.BoolOp):
            op = ' && ' if isinstance(e.op, ast.And) else ' || '
            return '(' + op.join(self.bool_(v) for v in e.values) + ')'
        if isinstance(e, ast.UnaryOp) and isinstance(e.op, ast.Not):
            return '(negb %s)' % self.bool_(e.operand)
        if isinstance(e, ast.Compare):
            if len(e.ops) != 1:
                raise Unsupported('chained comparison')
            a, b = self.int_(e.left), self.int_(e.comparators[0])
            if isinstance(e.ops[0], ast.NotEq):
                return '(negb (%s =? %s))' % (a, b)
            if type(e.ops[0]) not in CMP:
                raise Unsupported('comparison ' + type(e.ops[0]).__name__ + ' in ' + key)
            return '(%s %s %s)' % (a, CMP[type(e.ops[0])], b)
        if isinstance(e, ast.BinOp):
            if isinstance(e.op, ast.Mod):
                d = e.right
                if not (isinstance(d, ast.Constant) and isinstance(d.value, int) and not isinstance(d.value, bool) and d.value > 0):
                    raise Unsupported('% by something that is not a positive constant')
                return '(%s mod %d)' % (self.int_(e.left), d.value)
            ops = {ast.Add: '+', ast.Sub: '-', ast.Mult: '*'}
            if type(e.op) not in ops:
                raise Unsupported('operator ' + type(e.op).__name__)
            return '(%s %s %s)' % (self.int_(e.left), ops[type(e.op)], self.int_(e.right))
        if isinstance(e, ast.Call) and ast.unparse(e.func) == 'np.any' and len(e.args) == 1 and not e.keywords:
            return self.bool_(e.args[0])          # per-element predicate (the observation is the array's element)
        raise Unsupported('expression outside the subset: ' + key)


def _is_any(e):
    return isinstance(e, ast.Call) and ast.unparse(e.func) == 'np.any'


def _check_any(e, top):
    """`np.any(p) or np.any(q)` is translated as the per-element predicate p || q (exists distributes over `or`
    only): np.any is accepted at the top of a test or directly under a top-level `or`, nowhere else"""
    if _is_any(e):
        if not top:
            raise Unsupported('np.any below and / not / an operator: ' + ast.unparse(e))
        for a in e.args:
            _check_any(a, False)
        return
    if top and isinstance(e, ast.BoolOp) and isinstance(e.op, ast.Or):
        if any(_is_any(v) for v in e.values) and not all(_is_any(v) for v in e.values):
            raise Unsupported('np.any mixed with scalar tests: ' + ast.unparse(e))
        for v in e.values:
            _check_any(v, True)
        return
    for c in ast.iter_child_nodes(e):
        _check_any(c, False)


def translate_decisions(path, spec, prefix='gen_'):
    """spec: list of (function name (or Class.method; a trailing `!returns` also collects the returned expressions),
    observations, number of tests expected)"""
    with open(path) as fh:
        tree = ast.parse(fh.read())
    funcs = {}
    for n in tree.body:
        if isinstance(n, ast.FunctionDef):
            funcs[n.name] = n
        elif isinstance(n, ast.ClassDef):
            for m in n.body:
                if isinstance(m, ast.FunctionDef):
                    funcs['%s.%s' % (n.name, m.name)] = m
    parts = ['(* GENERATED by /verif/translate/py2gallina_c16.py from %s -- do not edit *)' % path,
             'From Coq Require Import ZArith Bool.', 'Open Scope Z_scope.', 'Open Scope bool_scope.', '']
    for fname, observations, ntests in spec:
        returns = fname.endswith('!returns')
        fname = fname[:-len('!returns')] if returns else fname
        if fname not in funcs:
            raise Unsupported('function %s not found' % fname)
        tests = tests_in_order(funcs[fname].body, returns)
        if len(tests) != ntests:
            raise Unsupported('%s has %d tests, %d expected: %s' % (fname, len(tests), ntests,
                                                                    ' | '.join(ast.unparse(t) for t in tests)))
        for t in tests:
            _check_any(t, True)
        tr = ExprTranslator(observations)
        binders = ' '.join('(%s : %s)' % (v, t) for _, v, t in observations)
        parts.append('(* ---- %s ---- *)' % fname)
        for k, t in enumerate(tests, 1):
            parts.append('(* %s *)' % ast.unparse(t).replace('*)', '* )'))
            parts.append('Definition %s%s_t%d %s : bool := %s.' % (prefix, fname.split('.')[-1].strip('_'), k, binders,
                                                                  tr.bool_(t)))
        parts.append('')
    return '\n'.join(parts)


if __name__ == '__main__':
    print(translate_decisions(sys.argv[1], eval(sys.argv[2])))


# =====================================================================================================================
# Second kind of kernel (round 4): the BOOKKEEPING of parse_aseq_program / parse_single_seq_program — module-level
# functions that fill local containers (lists, OrderedDicts, dicts) inside (nested) for loops.  Technique of
# py2gallina_c17.ObjTranslator (methods updating `self` -> functions on a record), carried over to "a function updating
# its own mutable locals": the declared mutable locals become the fields of a Gallina record that is threaded through
# the statements; a for loop becomes a top-level Fixpoint over the children of a Loop that threads the record; every
# statement is translated operand by operand.  Everything outside the accepted subset raises Unsupported.
#
#   statements   x = []  |  x = {}  |  x = OrderedDict()         (x a declared mutable local: record update)
#                x = tuple(x)                                    (same value: record update with itself)
#                y = D.setdefault(k, v)                          (D an OrderedDict local; y an immutable local)
#                y = <expr>                                      (immutable local: let)
#                D[k] = v   |  L.append(e)                       (dict / list local)
#                assert c   |  if c: ... [else: ...]  | return ParsedProgram(kw=...)
#                for I, X in enumerate(P):                       (P a Loop: its children)
#                for I, (A, B, C) in enumerate(((E1, E2, E3) for Y in P)):   (generator: evaluated lazily, element by
#                                                                 element, which is the order of the Fixpoint)
#                after all loops, at top level:  x = <expr of another type>  -> an immutable local that shadows x
#   expressions  names, int constants, a + b, len(container), k in D, D[k] (KeyError -> Err ECrash), tuple / list
#                displays, TableDescription(...) / TableEntry(...) with exactly the NamedTuple's keywords (checked against
#                the definition in the source), int(r) / isinstance(r, int) for a repetition definition,
#                tuple(D.keys()), list(map(list, D)), cast(T, x), and the declared observations of a Loop variable
#                (.repetition_definition .volatile_repetition .repetition_count .depth(), _get_used_waveform(x,
#                used_channels)), truth value of an Optional, `is not None`, not / and / or
# Types are Gallina types as python values: 'Z' 'bool' 'loop' 'repdef' 'wfkey' 'gdesc' 'gentry' 'gpos' 'optv',
# ('list', T), ('dict', K, V) [assoc list in insertion order].

_GT = {'Z': 'Z', 'bool': 'bool', 'loop': 'loop', 'repdef': 'repdef', 'wfkey': 'wfkey', 'gdesc': 'gdesc', 'gentry': 'gentry',
       'gpos': 'gpos', 'optv': 'option vprop', 'gtable': 'list gentry'}
_EQB = {'wfkey': 'wfkey_eqb', ('list', 'gentry'): 'gtable_eqb', 'gpos': 'gpos_eqb'}


def gt(t):
    if isinstance(t, str):
        return _GT[t]
    if t[0] == 'list':
        return 'list %s' % gtp(t[1])
    if t[0] == 'dict':
        return 'list (%s * %s)' % (gtp(t[1]), gtp(t[2]))
    raise Unsupported('type %r' % (t,))


def gtp(t):
    s = gt(t)
    return s if ' ' not in s else '(%s)' % s


def eqb_of(t):
    if t not in _EQB:
        raise Unsupported('no equality for keys of type %r' % (t,))
    return _EQB[t]


LOOP_ATTRS = {'repetition_definition': ('l_repdef', 'repdef'), 'volatile_repetition': ('l_volp', 'optv'),
              'repetition_count': ('l_rep', 'Z')}
NAMEDTUPLES = {'TableDescription': ['repetition_count', 'element_id', 'jump_flag'],
               'TableEntry': ['repetition_count', 'element_number', 'jump_flag']}
RESULT_FIELDS = [('advanced_sequencer_table', ('list', 'gdesc')), ('sequencer_tables', ('list', ('list', 'gentry'))),
                 ('waveforms', ('list', 'wfkey')), ('volatile_parameter_positions', ('dict', 'gpos', 'repdef'))]


class FuncStateTranslator:
    def __init__(self, tree, fname, params, state, short):
        """params: [(name, type | None = opaque, only usable where an observation names it)];
        state: [(mutable local, type)]; short: prefix of the generated names"""
        self.tree, self.fname, self.short = tree, fname, short
        fs = [n for n in tree.body if isinstance(n, ast.FunctionDef) and n.name == fname]
        if len(fs) != 1:
            raise Unsupported('function %s not found' % fname)
        self.f = fs[0]
        a = self.f.args
        if self.f.decorator_list or a.vararg or a.kwarg or a.kwonlyargs or a.defaults or a.posonlyargs:
            raise Unsupported('signature of ' + fname)
        if [x.arg for x in a.args] != [p for p, _ in params]:
            raise Unsupported('parameters of %s are %s' % (fname, [x.arg for x in a.args]))
        self.params, self.state = params, state
        self.stypes = dict(state)
        self.rec = 'gst_' + short
        self.aux, self.nloops, self.tmp = [], 0, 0
        self._check_namedtuples()
        self._check_state_is_complete()

    # ---- checks of the schema against the source
    def _check_namedtuples(self):
        found = {}
        for n in self.tree.body:
            if isinstance(n, ast.Assign) and len(n.targets) == 1 and isinstance(n.targets[0], ast.Name) \
                    and n.targets[0].id in NAMEDTUPLES and isinstance(n.value, ast.Call) and ast.unparse(n.value.func) == 'NamedTuple':
                fields = n.value.args[1]
                found[n.targets[0].id] = [(e.elts[0].value, ast.unparse(e.elts[1])) for e in fields.elts]
        for name, fields in NAMEDTUPLES.items():
            if found.get(name) != [(f, 'int') for f in fields]:
                raise Unsupported('%s is defined as %s' % (name, found.get(name)))
        dcs = [n for n in self.tree.body if isinstance(n, ast.ClassDef) and n.name == 'ParsedProgram']
        if len(dcs) != 1:
            raise Unsupported('ParsedProgram not found')
        got = [s.target.id for s in dcs[0].body if isinstance(s, ast.AnnAssign) and isinstance(s.target, ast.Name)]
        if got != [f for f, _ in RESULT_FIELDS]:
            raise Unsupported('fields of ParsedProgram are %s' % got)

    def _check_state_is_complete(self):
        """every local that is mutated (append / subscript store / setdefault / re-assigned inside a loop) is declared"""
        mutated = set()
        for sub in ast.walk(self.f):
            if isinstance(sub, ast.Call) and isinstance(sub.func, ast.Attribute) and isinstance(sub.func.value, ast.Name) \
                    and sub.func.attr in ('append', 'setdefault', 'extend', 'insert', 'pop', 'update', 'clear', 'remove',
                                          'popitem', 'move_to_end', 'sort', 'reverse'):
                mutated.add(sub.func.value.id)
            if isinstance(sub, (ast.Assign, ast.AugAssign)):
                for t in (sub.targets if isinstance(sub, ast.Assign) else [sub.target]):
                    if isinstance(t, ast.Subscript) and isinstance(t.value, ast.Name):
                        mutated.add(t.value.id)
            if isinstance(sub, ast.Delete):
                raise Unsupported('del')
        undeclared = mutated - set(self.stypes)
        if undeclared:
            raise Unsupported('mutated locals %s are not declared as state' % sorted(undeclared))

    # ---- state record
    def record_text(self):
        fields = ';\n  '.join('%s_%s : %s' % (self.short, f, gt(t)) for f, t in self.state)
        return 'Record %s := mk_%s {\n  %s }.' % (self.rec, self.rec, fields)

    def fget(self, f):
        return '(%s_%s st)' % (self.short, f)

    def fupd(self, f, val):
        return '(mk_%s %s)' % (self.rec, ' '.join(val if g == f else self.fget(g) for g, _ in self.state))

    def fresh(self, base='tmp'):
        self.tmp += 1
        return '%s%d' % (base, self.tmp)

    # ---- expressions.  env: python name -> (gallina text, type); state fields are looked up after env (a shadowing
    # local wins).  `pre` collects fallible sub-terms to bind first: (term of type result T, bound name)
    def lookup(self, name, env):
        if name in env:
            return env[name]
        if name in self.stypes:
            return self.fget(name), self.stypes[name]
        raise Unsupported('unknown name ' + name)

    def loop_var(self, e, env):
        """a Loop-typed variable, possibly wrapped in cast(Sequence[Loop], .)"""
        if isinstance(e, ast.Call) and isinstance(e.func, ast.Name) and e.func.id == 'cast' and len(e.args) == 2 and not e.keywords:
            e = e.args[1]
        if isinstance(e, ast.Name):
            x, t = self.lookup(e.id, env)
            if t == 'loop':
                return x
        raise Unsupported('not a Loop variable: ' + ast.unparse(e))

    def kwargs(self, call, names):
        if call.args or [k.arg for k in call.keywords] != names:
            raise Unsupported('%s must be called with the keywords %s in this order' % (ast.unparse(call.func), names))
        return [k.value for k in call.keywords]

    def expr(self, e, env, pre, want=None):
        if isinstance(e, ast.Constant):
            if isinstance(e.value, bool) or not isinstance(e.value, int):
                raise Unsupported('constant %r' % (e.value,))
            return ('%d' % e.value if e.value >= 0 else '(%d)' % e.value), 'Z'
        if isinstance(e, ast.Name):
            return self.lookup(e.id, env)
        if isinstance(e, ast.Attribute) and isinstance(e.value, ast.Name) and e.attr in LOOP_ATTRS:
            x = self.loop_var(e.value, env)
            g, t = LOOP_ATTRS[e.attr]
            return '(%s %s)' % (g, x), t
        if isinstance(e, ast.BinOp) and isinstance(e.op, ast.Add):
            a, ta = self.expr(e.left, env, pre)
            b, tb = self.expr(e.right, env, pre)
            if (ta, tb) != ('Z', 'Z'):
                raise Unsupported('+ on %r, %r' % (ta, tb))
            return '(%s + %s)' % (a, b), 'Z'
        if isinstance(e, ast.Tuple):
            if want == 'gpos':
                if len(e.elts) != 2:
                    raise Unsupported('position tuple')
                a, ta = self.expr(e.elts[0], env, pre)
                b, tb = self.expr(e.elts[1], env, pre)
                if (ta, tb) != ('Z', 'Z'):
                    raise Unsupported('position of %r, %r' % (ta, tb))
                return '(PSeq %s %s)' % (a, b), 'gpos'
            if len(e.elts) != 2:
                raise Unsupported('only pairs')
            a, ta = self.expr(e.elts[0], env, pre)
            b, tb = self.expr(e.elts[1], env, pre)
            if (ta, tb) == ('gdesc', 'optv'):
                return '(%s, %s)' % (a, b), 'gentry'
            raise Unsupported('pair of %r, %r' % (ta, tb))
        if isinstance(e, ast.List):
            if len(e.elts) != 1:
                raise Unsupported('list display')
            a, ta = self.expr(e.elts[0], env, pre)
            return '[%s]' % a, ('list', ta)
        if isinstance(e, ast.Subscript):
            d, td = self.expr(e.value, env, pre)
            if not (isinstance(td, tuple) and td[0] == 'dict'):
                raise Unsupported('subscript of %r' % (td,))
            k, tk = self.expr(e.slice, env, pre, td[1])
            if tk != td[1]:
                raise Unsupported('dict key type')
            n = self.fresh()
            pre.append(('match alookup %s %s %s with Some v => Ok v | None => Err ECrash end' % (eqb_of(td[1]), k, d), n))
            return n, td[2]
        if isinstance(e, ast.Call):
            return self.call(e, env, pre)
        if isinstance(e, (ast.Compare, ast.BoolOp)) or (isinstance(e, ast.UnaryOp) and isinstance(e.op, ast.Not)):
            return self.cond(e, env, pre), 'bool'
        raise Unsupported('expression ' + ast.unparse(e)[:60])

    def call(self, e, env, pre):
        f = e.func
        fn = ast.unparse(f)
        if fn == 'len' and len(e.args) == 1 and not e.keywords:
            if isinstance(e.args[0], ast.Name) and self.lookup(e.args[0].id, env)[1] == 'loop':
                return '(l_len %s)' % self.lookup(e.args[0].id, env)[0], 'Z'
            x, tx = self.expr(e.args[0], env, pre)
            if not (isinstance(tx, tuple) and tx[0] in ('list', 'dict')):
                raise Unsupported('len of %r' % (tx,))
            return '(Z.of_nat (length %s))' % x, 'Z'
        if fn in NAMEDTUPLES:
            vals = self.kwargs(e, NAMEDTUPLES[fn])
            parts = []
            for v in vals:
                x, tx = self.expr(v, env, pre)
                if tx != 'Z':
                    raise Unsupported('%s field of type %r' % (fn, tx))
                parts.append(x)
            return '(%s, %s, %s)' % tuple(parts), 'gdesc'
        if fn == 'int' and len(e.args) == 1 and not e.keywords:
            x, tx = self.expr(e.args[0], env, pre)
            if tx != 'repdef':
                raise Unsupported('int() of %r' % (tx,))
            return '(repdef_int %s)' % x, 'Z'
        if fn == 'isinstance' and len(e.args) == 2 and ast.unparse(e.args[1]) == 'int':
            x, tx = self.expr(e.args[0], env, pre)
            if tx != 'repdef':
                raise Unsupported('isinstance(., int) of %r' % (tx,))
            return '(repdef_is_int %s)' % x, 'bool'
        if fn == 'tuple' and len(e.args) == 1 and not e.keywords:
            a = e.args[0]
            if isinstance(a, ast.Call) and isinstance(a.func, ast.Attribute) and a.func.attr == 'keys' and not a.args:
                d, td = self.expr(a.func.value, env, pre)
                if not (isinstance(td, tuple) and td[0] == 'dict'):
                    raise Unsupported('.keys() of %r' % (td,))
                return '(map fst %s)' % d, ('list', td[1])
            x, tx = self.expr(a, env, pre)
            if not (isinstance(tx, tuple) and tx[0] == 'list'):
                raise Unsupported('tuple() of %r' % (tx,))
            return x, tx
        if fn == 'list' and len(e.args) == 1 and ast.unparse(e.args[0]).startswith('map(list, '):
            m = e.args[0]
            if len(m.args) != 2:
                raise Unsupported('map')
            d, td = self.expr(m.args[1], env, pre)
            if not (isinstance(td, tuple) and td[0] == 'dict' and isinstance(td[1], tuple) and td[1][0] == 'list'):
                raise Unsupported('list(map(list, .)) of %r' % (td,))
            return '(map fst %s)' % d, ('list', td[1])     # iterating a dict yields its keys
        if fn == 'cast' and len(e.args) == 2:
            return self.expr(e.args[1], env, pre)
        if fn == '_get_used_waveform' and len(e.args) == 2 and not e.keywords and ast.unparse(e.args[1]) == 'used_channels':
            x = self.loop_var(e.args[0], env)
            n = self.fresh('wf')
            pre.append(('used_waveform tbl %s' % x, n))
            return n, 'wfkey'
        if isinstance(f, ast.Attribute) and f.attr == 'depth' and not e.args and not e.keywords:
            return '(depth %s)' % self.loop_var(f.value, env), 'Z'
        raise Unsupported('call ' + ast.unparse(e)[:60])

    def cond(self, e, env, pre):
        if isinstance(e, ast.BoolOp):
            parts = []
            for v in e.values:
                inner = []
                parts.append(self.cond(v, env, inner))
                if inner:
                    raise Unsupported('fallible operand of and / or')
            return '(%s)' % (' || ' if isinstance(e.op, ast.Or) else ' && ').join(parts)
        if isinstance(e, ast.UnaryOp) and isinstance(e.op, ast.Not):
            return '(negb %s)' % self.cond(e.operand, env, pre)
        if isinstance(e, ast.Compare):
            if len(e.ops) != 1:
                raise Unsupported('chained comparison')
            op, rhs = e.ops[0], e.comparators[0]
            if isinstance(op, (ast.Is, ast.IsNot)) and isinstance(rhs, ast.Constant) and rhs.value is None:
                x, tx = self.expr(e.left, env, pre)
                if tx != 'optv':
                    raise Unsupported('`is None` on %r' % (tx,))
                return ('(negb (is_some %s))' if isinstance(op, ast.Is) else '(is_some %s)') % x
            if isinstance(op, (ast.In, ast.NotIn)):
                d, td = self.expr(rhs, env, pre)
                if not (isinstance(td, tuple) and td[0] == 'dict'):
                    raise Unsupported('`in` on %r' % (td,))
                k, tk = self.expr(e.left, env, pre, td[1])
                if tk != td[1]:
                    raise Unsupported('`in` key type')
                r = '(is_some (alookup %s %s %s))' % (eqb_of(td[1]), k, d)
                return r if isinstance(op, ast.In) else '(negb %s)' % r
            a, ta = self.expr(e.left, env, pre)
            b, tb = self.expr(rhs, env, pre)
            if (ta, tb) != ('Z', 'Z'):
                raise Unsupported('comparison of %r with %r' % (ta, tb))
            if isinstance(op, ast.NotEq):
                return '(negb (%s =? %s))' % (a, b)
            if type(op) not in CMP:
                raise Unsupported('comparison ' + type(op).__name__)
            return '(%s %s %s)' % (a, CMP[type(op)], b)
        x, t = self.expr(e, env, pre)
        if t == 'bool':
            return x
        if t == 'optv':           # a VolatileProperty is a NamedTuple with two fields: truthy; None: falsy
            return '(is_some %s)' % x
        raise Unsupported('truth value of %r' % (t,))

    @staticmethod
    def wrap(pre, body):
        for term, name in reversed(pre):
            body = 'match %s with\n| Err e => Err e\n| Ok %s =>\n%s\nend' % (term, name, body)
        return body

    # ---- statements (continuation passing: k(env) is the text of what follows)
    def block(self, stmts, env, k, in_loop):
        if not stmts:
            return k(env)
        s, rest = stmts[0], stmts[1:]
        nxt = lambda env2: self.block(rest, env2, k, in_loop)
        if isinstance(s, ast.Pass) or (isinstance(s, ast.Expr) and isinstance(s.value, ast.Constant) and isinstance(s.value.value, str)):
            return nxt(env)
        if isinstance(s, ast.Assert):
            pre = []
            c = self.cond(s.test, env, pre)
            return self.wrap(pre, 'if %s then\n%s\nelse Err EAssert' % (c, nxt(env)))
        if isinstance(s, ast.Return):
            if in_loop or rest:
                raise Unsupported('return inside a loop / before the end')
            return self.ret(s, env)
        if isinstance(s, ast.If):
            pre = []
            c = self.cond(s.test, env, pre)
            # both branches continue with the statements after the if (duplicated; they are short)
            return self.wrap(pre, 'if %s then\n%s\nelse\n%s' % (c, self.block(s.body, env, nxt, in_loop),
                                                              self.block(s.orelse, env, nxt, in_loop)))
        if isinstance(s, ast.For):
            return self.for_stmt(s, rest, env, k, in_loop)
        if isinstance(s, ast.Expr) and isinstance(s.value, ast.Call):
            c = s.value
            if isinstance(c.func, ast.Attribute) and c.func.attr == 'append' and isinstance(c.func.value, ast.Name) \
                    and len(c.args) == 1 and not c.keywords:
                name = c.func.value.id
                if name in env or name not in self.stypes:
                    raise Unsupported('append to ' + name)
                t = self.stypes[name]
                pre = []
                v, tv = self.expr(c.args[0], env, pre)
                if not (isinstance(t, tuple) and t[0] == 'list' and t[1] == tv):
                    raise Unsupported('append of %r to %r' % (tv, t))
                return self.wrap(pre, 'let st := %s in\n%s' % (self.fupd(name, '(%s ++ [%s])' % (self.fget(name), v)), nxt(env)))
            raise Unsupported('call statement ' + ast.unparse(c)[:60])
        if isinstance(s, ast.Assign) and len(s.targets) == 1:
            return self.assign(s.targets[0], s.value, env, nxt, in_loop)
        raise Unsupported('statement ' + ast.unparse(s)[:60])

    def assign(self, target, value, env, nxt, in_loop):
        pre = []
        if isinstance(target, ast.Subscript) and isinstance(target.value, ast.Name):
            name = target.value.id
            if name in env or name not in self.stypes:
                raise Unsupported('store into ' + name)
            t = self.stypes[name]
            if not (isinstance(t, tuple) and t[0] == 'dict'):
                raise Unsupported('subscript store into %r' % (t,))
            v, tv = self.expr(value, env, pre)                    # python: right hand side first, then the key
            if t[1] == 'gpos' and not isinstance(target.slice, ast.Tuple):
                i, ti = self.expr(target.slice, env, pre)
                if ti != 'Z':
                    raise Unsupported('position key of type %r' % (ti,))
                kk, tk = '(PAdv %s)' % i, 'gpos'
            else:
                kk, tk = self.expr(target.slice, env, pre, t[1])
            if (tk, tv) != (t[1], t[2]):
                raise Unsupported('%s[%r] = %r' % (name, tk, tv))
            return self.wrap(pre, 'let st := %s in\n%s' % (
                self.fupd(name, '(aset %s %s %s %s)' % (eqb_of(t[1]), kk, v, self.fget(name))), nxt(env)))
        if not isinstance(target, ast.Name):
            raise Unsupported('assignment target ' + ast.unparse(target))
        name = target.id
        if name in ('st', 'tbl') or name in dict(self.params):
            raise Unsupported('assignment to ' + name)
        if name in self.stypes and name not in env:
            t = self.stypes[name]
            empty = (isinstance(value, ast.List) and not value.elts and t[0] == 'list') or \
                    (isinstance(value, ast.Dict) and not value.keys and t[0] == 'dict') or \
                    (isinstance(value, ast.Call) and ast.unparse(value) == 'OrderedDict()' and t[0] == 'dict')
            if empty:
                return 'let st := %s in\n%s' % (self.fupd(name, '[]'), nxt(env))
            v, tv = self.expr(value, env, pre)
            if tv == t:
                return self.wrap(pre, 'let st := %s in\n%s' % (self.fupd(name, v), nxt(env)))
            if in_loop or not self.after_loops:
                raise Unsupported('%s : %r gets %r inside / before a loop' % (name, t, tv))
            g = name + "'"                                           # a different type, after all loops: shadowing local
            return self.wrap(pre, 'let %s := %s in\n%s' % (g, v, nxt(dict(env, **{name: (g, tv)}))))
        # y = D.setdefault(k, v)
        if isinstance(value, ast.Call) and isinstance(value.func, ast.Attribute) and value.func.attr == 'setdefault':
            d = value.func.value
            if not (isinstance(d, ast.Name) and d.id in self.stypes and d.id not in env and len(value.args) == 2 and not value.keywords):
                raise Unsupported('setdefault on ' + ast.unparse(d))
            t = self.stypes[d.id]
            if not (isinstance(t, tuple) and t[0] == 'dict'):
                raise Unsupported('setdefault on %r' % (t,))
            kk, tk = self.expr(value.args[0], env, pre, t[1])
            v, tv = self.expr(value.args[1], env, pre)
            if (tk, tv) != (t[1], t[2]):
                raise Unsupported('setdefault(%r, %r) on %r' % (tk, tv, t))
            if name in env and env[name][1] != t[2]:
                raise Unsupported('variable %s re-typed' % name)
            d2 = self.fresh('d')
            return self.wrap(pre, "let '(%s, %s) := dsetdefault %s %s %s %s in\nlet st := %s in\n%s" % (
                name, d2, eqb_of(t[1]), kk, v, self.fget(d.id), self.fupd(d.id, d2), nxt(dict(env, **{name: (name, t[2])}))))
        v, tv = self.expr(value, env, pre)
        if name in env and env[name][1] != tv:
            raise Unsupported('variable %s re-typed' % name)
        return self.wrap(pre, 'let %s := %s in\n%s' % (name, v, nxt(dict(env, **{name: (name, tv)}))))

    def ret(self, s, env):
        v = s.value
        if not (isinstance(v, ast.Call) and ast.unparse(v.func) == 'ParsedProgram'):
            raise Unsupported('return value')
        vals = self.kwargs(v, [f for f, _ in RESULT_FIELDS])
        pre, parts = [], []
        for (f, t), x in zip(RESULT_FIELDS, vals):
            g, tg = self.expr(x, env, pre)
            if tg != t:
                raise Unsupported('ParsedProgram.%s : %r gets %r' % (f, t, tg))
            parts.append(g)
        return self.wrap(pre, 'Ok (mk_gparsed %s)' % ' '.join(parts))

    def for_stmt(self, s, rest, env, k, in_loop):
        if s.orelse:
            raise Unsupported('for-else')
        it, tg = s.iter, s.target
        if not (isinstance(it, ast.Call) and ast.unparse(it.func) == 'enumerate' and len(it.args) == 1 and not it.keywords
                and isinstance(tg, ast.Tuple) and len(tg.elts) == 2 and isinstance(tg.elts[0], ast.Name)):
            raise Unsupported('only `for i, x in enumerate(...)`')
        counter = tg.elts[0].id
        src = it.args[0]
        binds = []                      # (python name, python expression over the element variable)
        if isinstance(tg.elts[1], ast.Name):
            elem = tg.elts[1].id
            lst = self.loop_var(src, env)
        elif isinstance(src, ast.GeneratorExp) and isinstance(tg.elts[1], ast.Tuple) and isinstance(src.elt, ast.Tuple) \
                and len(src.elt.elts) == len(tg.elts[1].elts) and len(src.generators) == 1 and not src.generators[0].ifs \
                and not src.generators[0].is_async and isinstance(src.generators[0].target, ast.Name) \
                and all(isinstance(x, ast.Name) for x in tg.elts[1].elts):
            elem = src.generators[0].target.id
            lst = self.loop_var(src.generators[0].iter, env)
            binds = [(n.id, x) for n, x in zip(tg.elts[1].elts, src.elt.elts)]
        else:
            raise Unsupported('loop header ' + ast.unparse(s.iter)[:80])
        new = [counter, elem] + [n for n, _ in binds]
        for n in new:
            if n in env or n in self.stypes or n in ('st', 'tbl') or new.count(n) > 1:
                raise Unsupported('loop variable shadows ' + n)
        for sub in ast.walk(s):
            if isinstance(sub, (ast.Break, ast.Continue, ast.Return, ast.While)):
                raise Unsupported(type(sub).__name__ + ' inside a loop')
            if isinstance(sub, (ast.Assign, ast.AugAssign)):
                for t in (sub.targets if isinstance(sub, ast.Assign) else [sub.target]):
                    if isinstance(t, ast.Name) and t.id in env:
                        raise Unsupported('the loop body assigns the outer local ' + t.id)
        # a state variable first assigned inside this loop must be (re)initialised before the body reads it
        self.nloops += 1
        fname = 'gen_%s_loop%d' % (self.short, self.nloops)
        outer = [(n, g, t) for n, (g, t) in env.items()]
        again = "%s tbl l' (%s + 1) st %s" % (fname, counter, ' '.join(g for _, g, _ in outer))
        benv = dict(env)
        benv[counter] = (counter, 'Z')
        benv[elem] = (elem, 'loop')
        pre = []
        lets = []
        for n, x in binds:              # the generator's tuple is built element by element, left to right
            g, t = self.expr(x, benv, pre)
            lets.append((n, g, t))
        if len(pre) > 1 or (pre and ast.unparse(binds[0][1]).find('_get_used_waveform') < 0):
            raise Unsupported('fallible generator element other than the first')
        for n, g, t in lets:
            benv[n] = (n, t)
        body = self.block(s.body, benv, lambda env2: again, True)
        for n, g, t in reversed(lets):
            body = 'let %s := %s in\n%s' % (n, g, body)
        body = self.wrap(pre, body)
        after_loops_before = self.after_loops
        if not in_loop:
            self.after_loops = not any(isinstance(x, ast.For) for r in rest for x in ast.walk(r))
        after = self.block(rest, env, k, in_loop)
        self.after_loops = after_loops_before
        text = ('Fixpoint %s (tbl : list wfdata) (l : list loop) (%s : Z) (st : %s) %s {struct l} : result %s :=\n'
                "match l with\n| [] => Ok st\n| %s :: l' =>\n%s\nend.") % (
            fname, counter, self.rec, ' '.join('(%s : %s)' % (g, gt(t)) for _, g, t in outer), self.rec, elem, body)
        self.aux.append(text)
        call = '%s tbl (l_ch %s) 0 st %s' % (fname, lst, ' '.join(g for _, g, _ in outer))
        return 'match %s with\n| Err e => Err e\n| Ok st =>\n%s\nend' % (call, after)

    def translate(self):
        env = {p: (p, t) for p, t in self.params if t is not None}
        self.after_loops = False
        init = '(mk_%s %s)' % (self.rec, ' '.join('[]' for _ in self.state))
        body = self.block(self.f.body, env, lambda env2: (_ for _ in ()).throw(Unsupported('function ends without return')), False)
        main = 'Definition gen_%s (tbl : list wfdata) %s : result gparsed :=\nlet st := %s in\n%s.' % (
            self.fname, ' '.join('(%s : %s)' % (p, gt(t)) for p, t in self.params if t is not None), init, body)
        return [self.record_text()] + self.aux + [main]


PARSE_STATE = [('volatile_parameter_positions', ('dict', 'gpos', 'repdef')), ('advanced_sequencer_table', ('list', 'gdesc')),
               ('sequencer_tables', ('dict', ('list', 'gentry'), 'Z')), ('waveforms', ('dict', 'wfkey', 'Z')),
               ('current_sequencer_table', ('list', 'gentry'))]
PARSE_SINGLE_STATE = [('sequencer_table', ('list', 'gentry')), ('waveforms', ('dict', 'wfkey', 'Z')),
                      ('volatile_parameter_positions', ('dict', 'gpos', 'repdef'))]


def translate_parsers(path):
    with open(path) as fh:
        tree = ast.parse(fh.read())
    parts = ['(* GENERATED by /verif/translate/py2gallina_c16.py (FuncStateTranslator) from %s: parse_aseq_program, '
             'parse_single_seq_program -- do not edit *)' % path,
             'From Coq Require Import ZArith List Bool.', 'Require Import QV.C16.Model QV.C16.GenLibParse.',
             'Import ListNotations.', 'Open Scope Z_scope.', 'Open Scope bool_scope.', '']
    for fname, state, short in (('parse_aseq_program', PARSE_STATE, 'pa'), ('parse_single_seq_program', PARSE_SINGLE_STATE, 'ps')):
        tr = FuncStateTranslator(tree, fname, [('program', 'loop'), ('used_channels', None)], state, short)
        parts.extend(tr.translate())
        parts.append('')
    return '\n\n'.join(parts)
