"""Extension of the fail-closed translator (py2gallina.py, not modified) for one kind of kernel: a *method of a
dataclass* doing float/int arithmetic over tuples, as `DepState.required_increment_from` in qupulse/program/linspace.py.

Accepted (anything else raises py2gallina.Unsupported; nothing is guessed):

  parameters     self / parameters annotated with the dataclass name  ->  one Gallina parameter per dataclass field
                                                                         (<param>_<field>), fields typed by their annotation
                 `Sequence[float]`, `Tuple[float, ...]`              ->  list Q        `Sequence[int]`, `Tuple[int, ...]` -> list Z
                 `float` -> Q      `int` -> Z
  result         res Q  (QV.C17.Model: Ok v | Err e);  `assert` that fails -> Err EAssert
  statements     assert len(a) == len(b)                              ->  if negb (Nat.eqb (length a) (length b)) then Err EAssert else ..
                 assert <int comparison>                              ->  if .. then .. else Err EAssert
                 x = <float expr>      x += e      x -= e             ->  let x := (..)%Q in ..
                 for a, b, c in zip(x, y, z): <body>                  ->  a top-level Fixpoint over the lists (stops at the shortest,
                                                                         like zip) that carries the float variables assigned in the body;
                                                                         the statements after the loop become its exhausted-case
                 if / elif / else, pass, comments, docstring, return <float expr>
  expressions    names, <param>.<field>, + - *, int operands inside float arithmetic are wrapped in inject_Z,
                 int comparisons == < <= > >= != between int names / int constants

The output follows the source text statement by statement and operand by operand: a changed operator, operand, comparison
or a dropped assert gives a different definition, and the committed proof `coq/C17/GenEq.v` (generated = model) fails.
"""
import ast
import os
import sys

sys.path.insert(0, os.path.dirname(os.path.abspath(__file__)))
from py2gallina import Unsupported  # noqa: E402

LIST_TYPES = {'Sequence[float]': 'list Q', 'Tuple[float, ...]': 'list Q', 'Sequence[int]': 'list Z', 'Tuple[int, ...]': 'list Z'}
SCALAR_TYPES = {'float': 'Q', 'int': 'Z'}


def _ann(node):
    if node is None:
        raise Unsupported('missing annotation')
    if isinstance(node, ast.Constant) and isinstance(node.value, str):
        return node.value
    return ast.unparse(node)


class MethodTranslator:
    def __init__(self, cls: ast.ClassDef, fdef: ast.FunctionDef, prefix='gen_'):
        self.cls, self.f, self.prefix = cls, fdef, prefix
        if fdef.decorator_list:
            raise Unsupported('decorated method')
        a = fdef.args
        if a.vararg or a.kwarg or a.kwonlyargs or a.defaults or a.posonlyargs:
            raise Unsupported('only plain positional parameters')
        self.fields = []
        for s in cls.body:
            if isinstance(s, ast.AnnAssign) and isinstance(s.target, ast.Name) and s.value is None:
                self.fields.append((s.target.id, self._type(_ann(s.annotation))))
        if not self.fields:
            raise Unsupported('no dataclass fields')
        self.types = {}          # gallina variable -> type
        self.records = set()
        self.params = []
        for i, arg in enumerate(a.args):
            if i == 0:
                if arg.arg != 'self':
                    raise Unsupported('first parameter must be self')
                rec = True
            else:
                rec = _ann(arg.annotation) == cls.name
            if rec:
                self.records.add(arg.arg)
                for fname, ftype in self.fields:
                    self.params.append(('%s_%s' % (arg.arg, fname), ftype))
            else:
                self.params.append((arg.arg, self._type(_ann(arg.annotation))))
        for n, t in self.params:
            self.types[n] = t
        if self._type(_ann(fdef.returns)) != 'Q':
            raise Unsupported('only float results')
        self.loops = []

    @staticmethod
    def _type(txt):
        txt = txt.strip().strip("'")
        if txt in LIST_TYPES:
            return LIST_TYPES[txt]
        if txt in SCALAR_TYPES:
            return SCALAR_TYPES[txt]
        raise Unsupported('type ' + txt)

    # ---- expressions
    def var(self, e):
        """(gallina name, type) of a name or <record>.<field>"""
        if isinstance(e, ast.Name):
            if e.id in self.records:
                raise Unsupported('record used as a value')
            if e.id not in self.types:
                raise Unsupported('unknown name ' + e.id)
            return e.id, self.types[e.id]
        if isinstance(e, ast.Attribute) and isinstance(e.value, ast.Name) and e.value.id in self.records:
            n = '%s_%s' % (e.value.id, e.attr)
            if n not in self.types:
                raise Unsupported('unknown field ' + e.attr)
            return n, self.types[n]
        raise Unsupported('expression ' + type(e).__name__)

    def typ(self, e):
        if isinstance(e, ast.Constant):
            if isinstance(e.value, bool) or not isinstance(e.value, int):
                raise Unsupported('constant %r' % (e.value,))
            return 'Z'
        if isinstance(e, (ast.Name, ast.Attribute)):
            return self.var(e)[1]
        if isinstance(e, ast.BinOp):
            ts = {self.typ(e.left), self.typ(e.right)}
            if not ts <= {'Q', 'Z'}:
                raise Unsupported('arithmetic on ' + '/'.join(sorted(ts)))
            return 'Q' if 'Q' in ts else 'Z'
        if isinstance(e, ast.UnaryOp) and isinstance(e.op, ast.USub):
            return self.typ(e.operand)
        raise Unsupported('expression ' + type(e).__name__)

    def zexpr(self, e):
        if self.typ(e) != 'Z':
            raise Unsupported('int expression expected')
        if isinstance(e, ast.Constant):
            return '(%d)%%Z' % e.value
        if isinstance(e, (ast.Name, ast.Attribute)):
            return self.var(e)[0]
        if isinstance(e, ast.UnaryOp):
            return '(- %s)%%Z' % self.zexpr(e.operand)
        op = {ast.Add: '+', ast.Sub: '-', ast.Mult: '*'}.get(type(e.op))
        if op is None:
            raise Unsupported('int operator ' + type(e.op).__name__)
        return '(%s %s %s)%%Z' % (self.zexpr(e.left), op, self.zexpr(e.right))

    def qexpr(self, e):
        """float expression; int sub-expressions are embedded with inject_Z"""
        if self.typ(e) == 'Z':
            return '(inject_Z %s)' % self.zexpr(e)
        if isinstance(e, (ast.Name, ast.Attribute)):
            return self.var(e)[0]
        if isinstance(e, ast.UnaryOp):
            return '(- %s)%%Q' % self.qexpr(e.operand)
        if isinstance(e, ast.BinOp):
            op = {ast.Add: '+', ast.Sub: '-', ast.Mult: '*'}.get(type(e.op))
            if op is None:
                raise Unsupported('float operator ' + type(e.op).__name__)
            return '(%s %s %s)%%Q' % (self.qexpr(e.left), op, self.qexpr(e.right))
        raise Unsupported('expression ' + type(e).__name__)

    def cond(self, e):
        if isinstance(e, ast.Compare) and len(e.ops) == 1:
            l, r = e.left, e.comparators[0]
            is_len = lambda x: (isinstance(x, ast.Call) and isinstance(x.func, ast.Name) and x.func.id == 'len'
                                and len(x.args) == 1 and not x.keywords)
            if is_len(l) and is_len(r) and isinstance(e.ops[0], ast.Eq):
                a, ta = self.var(l.args[0])
                b, tb = self.var(r.args[0])
                if not (ta.startswith('list') and tb.startswith('list')):
                    raise Unsupported('len of a non-sequence')
                return '(Nat.eqb (length %s) (length %s))' % (a, b)
            sym = {ast.Lt: '<?', ast.LtE: '<=?', ast.Gt: '>?', ast.GtE: '>=?', ast.Eq: '=?'}.get(type(e.ops[0]))
            a, b = self.zexpr(l), self.zexpr(r)
            if sym is None:
                if isinstance(e.ops[0], ast.NotEq):
                    return '(negb (%s =? %s)%%Z)' % (a, b)
                raise Unsupported('comparison ' + type(e.ops[0]).__name__)
            return '(%s %s %s)%%Z' % (a, sym, b)
        raise Unsupported('condition ' + type(e).__name__)

    # ---- statements
    @staticmethod
    def falls_through(stmts):
        for s in stmts:
            if isinstance(s, ast.Return):
                return False
            if isinstance(s, ast.If) and s.orelse and not MethodTranslator.falls_through(s.body) \
                    and not MethodTranslator.falls_through(s.orelse):
                return False
        return True

    def block(self, stmts, end):
        """Gallina term of type res Q; `end` = term used when control falls off the end of the list"""
        if not stmts:
            if end is None:
                raise Unsupported('function may end without return')
            return end
        s, rest = stmts[0], stmts[1:]
        if isinstance(s, ast.Expr) and isinstance(s.value, ast.Constant) and isinstance(s.value.value, str):
            return self.block(rest, end)
        if isinstance(s, ast.Pass):
            return self.block(rest, end)
        if isinstance(s, ast.Assert):
            if s.msg is not None:
                raise Unsupported('assert with message')
            return 'if negb %s then Err EAssert else\n%s' % (self.cond(s.test), self.block(rest, end))
        if isinstance(s, ast.Assign):
            if len(s.targets) != 1 or not isinstance(s.targets[0], ast.Name):
                raise Unsupported('assignment target')
            n = s.targets[0].id
            if self.types.get(n, 'Q') != 'Q' or n in self.records:
                raise Unsupported('re-typed variable ' + n)
            v = self.qexpr(s.value) if self.typ(s.value) == 'Q' else None
            if v is None:
                raise Unsupported('only float locals')
            self.types[n] = 'Q'
            return 'let %s := %s in\n%s' % (n, v, self.block(rest, end))
        if isinstance(s, ast.AugAssign):
            if not isinstance(s.target, ast.Name) or self.types.get(s.target.id) != 'Q':
                raise Unsupported('augmented assignment target')
            op = {ast.Add: '+', ast.Sub: '-', ast.Mult: '*'}.get(type(s.op))
            if op is None:
                raise Unsupported('augmented operator')
            n = s.target.id
            return 'let %s := (%s %s %s)%%Q in\n%s' % (n, n, op, self.qexpr(s.value), self.block(rest, end))
        if isinstance(s, ast.Return):
            if s.value is None:
                raise Unsupported('bare return')
            return 'Ok %s' % self.qexpr(s.value)
        if isinstance(s, ast.If):
            if self.falls_through([s]) and rest:
                # both branches continue with the same rest: inline it (the kernel is tiny)
                return '(if %s then\n%s\nelse\n%s)' % (self.cond(s.test), self.block(s.body + rest, end),
                                                       self.block(s.orelse + rest, end))
            return '(if %s then\n%s\nelse\n%s)' % (self.cond(s.test), self.block(s.body, end), self.block(s.orelse, end))
        if isinstance(s, ast.For):
            return self.for_zip(s, rest, end)
        raise Unsupported('statement ' + type(s).__name__)

    def for_zip(self, s, rest, end):
        if s.orelse:
            raise Unsupported('for-else')
        it = s.iter
        if not (isinstance(it, ast.Call) and isinstance(it.func, ast.Name) and it.func.id == 'zip' and not it.keywords
                and isinstance(s.target, ast.Tuple) and len(s.target.elts) == len(it.args)
                and all(isinstance(x, ast.Name) for x in s.target.elts)):
            raise Unsupported('only `for a, b, .. in zip(x, y, ..)`')
        for sub in ast.walk(s):
            if isinstance(sub, (ast.Break, ast.Continue, ast.Return)) or (isinstance(sub, ast.For) and sub is not s):
                raise Unsupported('break/continue/return/nested loop inside the loop')
        lists = [self.var(x) for x in it.args]
        elems = []
        for x, (ln, lt) in zip(s.target.elts, lists):
            if not lt.startswith('list '):
                raise Unsupported('zip over a non-sequence')
            if x.id in self.types:
                raise Unsupported('loop variable shadows ' + x.id)
            elems.append((x.id, lt[5:]))
        carried = []
        for sub in ast.walk(s):
            if isinstance(sub, ast.AugAssign) and isinstance(sub.target, ast.Name) and sub.target.id not in carried:
                carried.append(sub.target.id)
            if isinstance(sub, ast.Assign):
                raise Unsupported('plain assignment inside the loop')
        for c in carried:
            if self.types.get(c) != 'Q':
                raise Unsupported('loop-carried variable %s is not a float defined before the loop' % c)
        lname = '%s%s_loop%d' % (self.prefix, self.f.name, len(self.loops) + 1)
        self.loops.append(None)
        idx = len(self.loops) - 1
        ls = ['l%d' % (k + 1) for k in range(len(lists))]
        for (n, t) in elems:
            self.types[n] = t
        again = '%s %s %s' % (lname, ' '.join(l + "'" for l in ls), ' '.join(carried))
        body = self.block(s.body, again)
        for (n, t) in elems:
            del self.types[n]
        after = self.block(rest, end)
        pat = ', '.join("%s :: %s'" % (n, l) for (n, _), l in zip(elems, ls))
        wild = ', '.join('_' for _ in ls)
        text = ('Fixpoint %s %s %s {struct l1} : res Q :=\n  match %s with\n  | %s =>\n%s\n  | %s =>\n%s\n  end.'
                % (lname, ' '.join('(%s : %s)' % (l, lt) for l, (_, lt) in zip(ls, lists)),
                   ' '.join('(%s : Q)' % c for c in carried), ', '.join(ls), pat, body, wild, after))
        self.loops[idx] = text
        return '%s %s %s' % (lname, ' '.join(n for n, _ in lists), ' '.join(carried))

    def translate(self):
        body = self.block(self.f.body, None)
        out = list(self.loops)
        out.append('Definition %s%s %s : res Q :=\n%s.' % (
            self.prefix, self.f.name, ' '.join('(%s : %s)' % (n, t) for n, t in self.params), body))
        return '\n\n'.join(out)


def translate_method(path, cls_name, method, prefix='gen_'):
    with open(path) as fh:
        src = fh.read()
    tree = ast.parse(src)
    classes = [n for n in tree.body if isinstance(n, ast.ClassDef) and n.name == cls_name]
    if len(classes) != 1:
        raise Unsupported('class %s not found in %s' % (cls_name, path))
    methods = [n for n in classes[0].body if isinstance(n, ast.FunctionDef) and n.name == method]
    if len(methods) != 1:
        raise Unsupported('method %s.%s not found' % (cls_name, method))
    parts = ['(* GENERATED by /verif/translate/py2gallina_c17.py from %s (%s.%s) -- do not edit *)' % (path, cls_name, method),
             'From Coq Require Import ZArith QArith List Bool.', 'Require Import QV.C17.Model.', 'Import ListNotations.', '',
             MethodTranslator(classes[0], methods[0], prefix).translate(), '']
    return '\n'.join(parts)


if __name__ == '__main__':
    print(translate_method(sys.argv[1], sys.argv[2], sys.argv[3]))


# =====================================================================================================================
# Second kind of kernel (round 3): methods of a class that UPDATE THE OBJECT (LinSpaceVM.step / change_state,
# _TranslationState.set_voltage / _set_indexed_voltage).  The object becomes a Gallina record, a method becomes a function
# record -> args -> res record (Err = the python exception kind), statement by statement.  The attribute types and the
# python->Gallina primitive table (coq/C17/GenLib.v) are given by a schema; everything that is not in the accepted subset
# raises Unsupported.
#
#   statements   x = e | x += e | self.f = e | self.f += e | self.f -= e | self.f[i] = e | self.f[i] -= e | self.f[i][k] = e
#                self.f.append(e) | self.m(args) | x = obj.ext_method(kw=..) | assert c | raise NotImplementedError(..)
#                return (bare) | pass | docstring | if/elif/else where a test is isinstance(x, Cls) [-> match on the
#                constructor], `x is None` [-> match on the option], or a boolean expression
#   expressions  names, self.f, x.field (x narrowed by isinstance / a DepState), int constants, + -, tuples, x.copy(),
#                tuple(x), dataclass constructor calls, DepKey(()), DepKey.from_voltages(voltages=.., resolution=
#                self.resolution), d.get(k, None), dd.setdefault(a, {}).get(b, None), comparisons, and/or/not, truth
#                value of a float or a tuple, all(c for x in l); subscript reads l[i], d[k], l[i][k] (may raise)
# Types are Gallina types written as python tuples: 'nat' 'Z' 'Q' 'bool' 'key' 'gcmd' 'depstate', ('list', T),
# ('opt', T), ('dict', K, V), ('dict2', K1, K2, V), ('pair', A, B).

def _gt(t):
    if isinstance(t, str):
        return t
    if t[0] == 'list':
        return 'list %s' % _gtp(t[1])
    if t[0] == 'opt':
        return 'option %s' % _gtp(t[1])
    if t[0] == 'dict':
        return 'list (%s * %s)' % (_gtp(t[1]), _gtp(t[2]))
    if t[0] == 'dict2':
        return 'list ((%s * %s) * %s)' % (_gtp(t[1]), _gtp(t[2]), _gtp(t[3]))
    if t[0] == 'pair':
        return '%s * %s' % (_gtp(t[1]), _gtp(t[2]))
    raise Unsupported('type %r' % (t,))


def _gtp(t):
    s = _gt(t)
    return s if isinstance(t, str) else '(%s)' % s


EQB = {'nat': 'Nat.eqb', 'Z': 'Z.eqb', 'Q': 'Qeq_bool', 'key': 'key_eqb', ('pair', 'nat', 'key'): 'ck_eqb'}


def _eqb(t):
    if t not in EQB:
        raise Unsupported('no equality for type %r' % (t,))
    return EQB[t]


class ObjSchema:
    def __init__(self, cls, record, ctor, prefix, fields, methods, cmd_classes, externals=None):
        self.cls, self.record, self.ctor, self.prefix = cls, record, ctor, prefix
        self.fields = fields            # [(python attribute, type or None = not represented)]
        self.methods = methods          # [(method name, [(param, type)])]
        self.cmd_classes = cmd_classes  # [(class, [(field, annotation text, type or None)])]
        self.externals = externals or {}


class ObjTranslator:
    def __init__(self, tree, schema, inductive='gcmd', ctor_prefix='G'):
        self.tree, self.s = tree, schema
        self.inductive, self.cp = inductive, ctor_prefix
        self.cmds = {c: f for c, f in schema.cmd_classes}
        self.ftypes = {f: t for f, t in schema.fields}
        self.tmp = 0
        classes = [n for n in tree.body if isinstance(n, ast.ClassDef) and n.name == schema.cls]
        if len(classes) != 1:
            raise Unsupported('class %s not found' % schema.cls)
        self.cdef = classes[0]
        self._check_fields()

    # ---- schema checks against the source
    def _check_fields(self):
        ann = [s.target.id for s in self.cdef.body if isinstance(s, ast.AnnAssign) and isinstance(s.target, ast.Name)]
        if ann:
            found = ann
        else:
            init = [n for n in self.cdef.body if isinstance(n, ast.FunctionDef) and n.name == '__init__']
            if len(init) != 1:
                raise Unsupported('no __init__')
            found = []
            for sub in ast.walk(init[0]):
                if isinstance(sub, (ast.Assign, ast.AnnAssign)):
                    for t in (sub.targets if isinstance(sub, ast.Assign) else [sub.target]):
                        if isinstance(t, ast.Attribute) and isinstance(t.value, ast.Name) and t.value.id == 'self' \
                                and t.attr not in found:
                            found.append(t.attr)
        if sorted(found) != sorted(f for f, _ in self.s.fields):
            raise Unsupported('attributes of %s are %s, schema has %s' % (self.s.cls, sorted(found), sorted(f for f, _ in self.s.fields)))

    def check_cmd_classes(self):
        for cname, fields in self.s.cmd_classes:
            cl = [n for n in self.tree.body if isinstance(n, ast.ClassDef) and n.name == cname]
            if len(cl) != 1:
                raise Unsupported('command class %s not found' % cname)
            if not any((isinstance(d, ast.Name) and d.id == 'dataclass') or
                       (isinstance(d, ast.Call) and isinstance(d.func, ast.Name) and d.func.id == 'dataclass') for d in cl[0].decorator_list):
                raise Unsupported('%s is not a dataclass' % cname)
            got = [(s.target.id, _ann(s.annotation)) for s in cl[0].body if isinstance(s, ast.AnnAssign) and isinstance(s.target, ast.Name)]
            if got != [(f, a) for f, a, _ in fields]:
                raise Unsupported('fields of %s are %s' % (cname, got))

    def inductive_text(self):
        self.check_cmd_classes()
        rows = []
        for cname, fields in self.s.cmd_classes:
            args = ' '.join('(%s : %s)' % (f, _gt(t)) for f, _, t in fields if t is not None)
            rows.append('| %s%s %s' % (self.cp, cname, args))
        return 'Inductive %s :=\n%s.' % (self.inductive, '\n'.join(r.rstrip() for r in rows))

    def record_text(self):
        fs_ = ';\n  '.join('%s%s : %s' % (self.s.prefix, f, _gt(t)) for f, t in self.s.fields if t is not None)
        return 'Record %s := %s {\n  %s }.' % (self.s.record, self.s.ctor, fs_)

    # ---- state access
    def fget(self, f):
        if self.ftypes.get(f) is None:
            raise Unsupported('attribute self.%s is not represented' % f)
        return '(%s%s st)' % (self.s.prefix, f), self.ftypes[f]

    def fupd(self, f, val):
        parts = [val if g == f else '(%s%s st)' % (self.s.prefix, g) for g, t in self.s.fields if t is not None]
        return '(%s %s)' % (self.s.ctor, ' '.join(parts))

    def fresh(self, base='tmp'):
        self.tmp += 1
        return '%s%d' % (base, self.tmp)

    # ---- expressions.  env: local name -> type, or ('narrow', Cls) for a command narrowed by isinstance.
    # `pre` collects the failing reads that must be bound before the expression: (lookup text, error, bound name)
    def is_self_attr(self, e):
        return isinstance(e, ast.Attribute) and isinstance(e.value, ast.Name) and e.value.id == 'self'

    def const(self, e, want):
        if isinstance(e.value, bool) or not isinstance(e.value, int):
            raise Unsupported('constant %r' % (e.value,))
        if want == 'nat':
            return '%d%%nat' % e.value, 'nat'
        if want == 'Q':
            return '(inject_Z (%d))' % e.value, 'Q'
        return '(%d)%%Z' % e.value, 'Z'

    def expr(self, e, env, pre, want=None):
        if isinstance(e, ast.Constant):
            if e.value is None:
                raise Unsupported('None outside an accepted pattern')
            return self.const(e, want)
        if isinstance(e, ast.Name):
            if e.id not in env:
                raise Unsupported('unknown name ' + e.id)
            t = env[e.id]
            return e.id, (self.inductive if isinstance(t, tuple) and t[0] == 'narrow' else t)
        if self.is_self_attr(e):
            return self.fget(e.attr)
        if isinstance(e, ast.Attribute) and isinstance(e.value, ast.Name) and e.value.id in env:
            t = env[e.value.id]
            if isinstance(t, tuple) and t[0] == 'narrow':
                for f, _, ft in self.cmds[t[1]]:
                    if f == e.attr and ft is not None:
                        return '%s_%s' % (e.value.id, f), ft
                raise Unsupported('field %s of %s' % (e.attr, t[1]))
            if isinstance(t, tuple) and t[0] == 'rec':
                if e.attr not in t[1]:
                    raise Unsupported('field %s of %s' % (e.attr, e.value.id))
                return '%s_%s' % (e.value.id, e.attr), t[1][e.attr]
            if t == 'depstate' and e.attr in ('base', 'iterations'):
                return '(depstate_%s %s)' % (e.attr, e.value.id), ('Q' if e.attr == 'base' else ('list', 'Z'))
            if t == 'key' and e.attr == 'factors':
                return e.value.id, 'key'
            raise Unsupported('attribute %s of %s' % (e.attr, e.value.id))
        if isinstance(e, ast.Tuple):
            if len(e.elts) != 2:
                raise Unsupported('only pairs')
            a, ta = self.expr(e.elts[0], env, pre)
            b, tb = self.expr(e.elts[1], env, pre)
            return '(%s, %s)' % (a, b), ('pair', ta, tb)
        if isinstance(e, ast.BinOp):
            op = {ast.Add: '+', ast.Sub: '-'}.get(type(e.op))
            if op is None:
                raise Unsupported('operator ' + type(e.op).__name__)
            a, ta = self.expr(e.left, env, pre, want)
            b, tb = self.expr(e.right, env, pre, ta)
            if ta != tb or ta not in ('nat', 'Z', 'Q') or (ta == 'nat' and op == '-'):
                raise Unsupported('arithmetic %s %s %s' % (ta, op, tb))
            return '(%s %s %s)%%%s' % (a, op, b, ta), ta
        if isinstance(e, ast.Subscript):
            return self.read_subscript(e, env, pre)
        if isinstance(e, ast.Call):
            return self.call(e, env, pre)
        if isinstance(e, (ast.Compare, ast.BoolOp)) or (isinstance(e, ast.UnaryOp) and isinstance(e.op, ast.Not)):
            return self.cond(e, env, pre), 'bool'
        raise Unsupported('expression ' + type(e).__name__)

    def read_subscript(self, e, env, pre):
        """self.f[i] (list -> IndexError, dict -> KeyError) and self.f[i][k] (list of dicts)"""
        if self.is_self_attr(e.value):
            cont, t = self.fget(e.value.attr)
        elif isinstance(e.value, ast.Subscript):
            cont, t = self.read_subscript(e.value, env, pre)
        else:
            raise Unsupported('subscript of ' + type(e.value).__name__)
        if isinstance(t, tuple) and t[0] == 'list':
            i, ti = self.expr(e.slice, env, pre, 'nat')
            if ti != 'nat':
                raise Unsupported('list index of type %s' % ti)
            n = self.fresh()
            pre.append(('nth_error %s %s' % (cont, i), 'EIndex', n))
            return n, t[1]
        if isinstance(t, tuple) and t[0] == 'dict':
            k, tk = self.expr(e.slice, env, pre, t[1])
            if tk != t[1]:
                raise Unsupported('dict key of type %s, expected %s' % (tk, t[1]))
            n = self.fresh()
            pre.append(('alookup %s %s %s' % (_eqb(t[1]), k, cont), 'EKey', n))
            return n, t[2]
        raise Unsupported('subscript of a value of type %r' % (t,))

    def kwargs(self, call, names):
        """positional + keyword arguments of a call -> dict by parameter name (all must be given)"""
        if len(call.args) > len(names):
            raise Unsupported('too many arguments')
        got = dict(zip(names, call.args))
        for kw in call.keywords:
            if kw.arg is None or kw.arg not in names or kw.arg in got:
                raise Unsupported('keyword argument %s' % kw.arg)
            got[kw.arg] = kw.value
        if sorted(got) != sorted(names):
            raise Unsupported('arguments %s given, %s expected' % (sorted(got), names))
        return got

    def call(self, e, env, pre):
        f = e.func
        if isinstance(f, ast.Name) and f.id == 'len' and len(e.args) == 1 and not e.keywords:
            x, tx = self.expr(e.args[0], env, pre)
            if not (isinstance(tx, tuple) and tx[0] == 'list'):
                raise Unsupported('len of %r' % (tx,))
            return '(length %s)' % x, 'nat'
        # x.copy() / tuple(x): values are immutable in Gallina
        if isinstance(f, ast.Attribute) and f.attr == 'copy' and not e.args and not e.keywords:
            return self.expr(f.value, env, pre)
        if isinstance(f, ast.Name) and f.id == 'tuple' and len(e.args) == 1 and not e.keywords:
            return self.expr(e.args[0], env, pre)
        # DepKey(())
        if isinstance(f, ast.Name) and f.id == 'DepKey' and len(e.args) == 1 and not e.keywords \
                and isinstance(e.args[0], ast.Tuple) and not e.args[0].elts:
            return '(@nil Z)', 'key'
        # DepKey.from_voltages(voltages=X, resolution=self.resolution)
        if isinstance(f, ast.Attribute) and isinstance(f.value, ast.Name) and f.value.id == 'DepKey' and f.attr == 'from_voltages':
            a = self.kwargs(e, ['voltages', 'resolution'])
            if not (self.is_self_attr(a['resolution']) and a['resolution'].attr == 'resolution'):
                raise Unsupported('resolution argument')
            x, tx = self.expr(a['voltages'], env, pre)
            if tx != ('list', 'Q'):
                raise Unsupported('from_voltages of %r' % (tx,))
            return '(mk_key %s)' % x, 'key'
        # DepState(base, iterations)
        if isinstance(f, ast.Name) and f.id == 'DepState':
            a = self.kwargs(e, ['base', 'iterations'])
            b, tb = self.expr(a['base'], env, pre)
            it, ti = self.expr(a['iterations'], env, pre)
            if tb != 'Q' or ti != ('list', 'Z'):
                raise Unsupported('DepState arguments')
            return '(%s, %s)' % (b, it), 'depstate'
        # command constructors
        if isinstance(f, ast.Name) and f.id in self.cmds:
            fields = self.cmds[f.id]
            a = self.kwargs(e, [n for n, _, _ in fields])
            parts = []
            for n, _, t in fields:
                if t is None:
                    raise Unsupported('constructor with an opaque field')
                x, tx = self.expr(a[n], env, pre, t)
                if tx != t:
                    raise Unsupported('%s.%s gets %r' % (f.id, n, tx))
                parts.append(x)
            return '(%s%s %s)' % (self.cp, f.id, ' '.join(parts)), self.inductive
        # d.get(k, None)  and  dd.setdefault(a, {}).get(b, None)
        if isinstance(f, ast.Attribute) and f.attr == 'get' and len(e.args) == 2 and not e.keywords \
                and isinstance(e.args[1], ast.Constant) and e.args[1].value is None:
            if self.is_self_attr(f.value):
                d, td = self.fget(f.value.attr)
                if not (isinstance(td, tuple) and td[0] == 'dict'):
                    raise Unsupported('.get on %r' % (td,))
                k, tk = self.expr(e.args[0], env, pre, td[1])
                if tk != td[1]:
                    raise Unsupported('dict key type')
                return '(alookup %s %s %s)' % (_eqb(td[1]), k, d), ('opt', td[2])
            g = f.value
            if isinstance(g, ast.Call) and isinstance(g.func, ast.Attribute) and g.func.attr == 'setdefault' \
                    and self.is_self_attr(g.func.value) and len(g.args) == 2 and not g.keywords \
                    and isinstance(g.args[1], ast.Dict) and not g.args[1].keys:
                d, td = self.fget(g.func.value.attr)
                if not (isinstance(td, tuple) and td[0] == 'dict2'):
                    raise Unsupported('setdefault on %r' % (td,))
                a, ta = self.expr(g.args[0], env, pre, td[1])
                b, tb = self.expr(e.args[0], env, pre, td[2])
                if (ta, tb) != (td[1], td[2]):
                    raise Unsupported('dict2 key types')
                self.setdefault_seen.add((g.func.value.attr, ast.dump(g.args[0])))
                return '(alookup %s (%s, %s) %s)' % (_eqb(('pair', td[1], td[2])), a, b, d), ('opt', td[3])
        # all(c for x in l)
        if isinstance(f, ast.Name) and f.id == 'all' and len(e.args) == 1 and isinstance(e.args[0], ast.GeneratorExp):
            g = e.args[0]
            if len(g.generators) != 1 or g.generators[0].ifs or not isinstance(g.generators[0].target, ast.Name):
                raise Unsupported('generator')
            l, tl = self.expr(g.generators[0].iter, env, pre)
            if not (isinstance(tl, tuple) and tl[0] == 'list'):
                raise Unsupported('all over %r' % (tl,))
            x = g.generators[0].target.id
            if x in env:
                raise Unsupported('generator variable shadows ' + x)
            inner = []
            c = self.cond(g.elt, dict(env, **{x: tl[1]}), inner)
            if inner:
                raise Unsupported('failing read inside a generator')
            return '(forallb (fun %s => %s) %s)' % (x, c, l), 'bool'
        raise Unsupported('call ' + ast.unparse(e)[:60])

    def cond(self, e, env, pre):
        """boolean reading of an expression (python truth value)"""
        if isinstance(e, ast.BoolOp):
            # python evaluates lazily; the operands accepted here cannot fail except through `pre` reads, which are refused
            parts = []
            for v in e.values:
                inner = []
                parts.append(self.cond(v, env, inner))
                if inner and parts[:-1]:
                    raise Unsupported('failing read in a lazily evaluated operand')
                pre.extend(inner)
            return '(%s)' % (' || ' if isinstance(e.op, ast.Or) else ' && ').join(parts)
        if isinstance(e, ast.UnaryOp) and isinstance(e.op, ast.Not):
            return '(negb %s)' % self.cond(e.operand, env, pre)
        if isinstance(e, ast.Compare):
            if len(e.ops) != 1:
                raise Unsupported('chained comparison')
            op = e.ops[0]
            if isinstance(op, (ast.In, ast.NotIn)):
                d, td = self.expr(e.comparators[0], env, pre)
                if not (isinstance(td, tuple) and td[0] == 'dict'):
                    raise Unsupported('`in` on %r' % (td,))
                a, ta = self.expr(e.left, env, pre, td[1])
                if ta != td[1]:
                    raise Unsupported('`in` key type')
                r = '(is_some (alookup %s %s %s))' % (_eqb(td[1]), a, d)
                return r if isinstance(op, ast.In) else '(negb %s)' % r
            a, ta = self.expr(e.left, env, pre)
            b, tb = self.expr(e.comparators[0], env, pre, ta if isinstance(ta, str) else (ta[1] if ta[0] == 'opt' else None))
            if isinstance(op, (ast.Eq, ast.NotEq)):
                if isinstance(ta, tuple) and ta[0] == 'opt' and tb == ta[1]:
                    r = '(opt_is %s %s %s)' % (_eqb(tb), a, b)
                elif ta == tb:
                    r = '(%s %s %s)' % (_eqb(ta), a, b)
                else:
                    raise Unsupported('comparison of %r with %r' % (ta, tb))
                return r if isinstance(op, ast.Eq) else '(negb %s)' % r
            sym = {ast.Lt: '<?', ast.LtE: '<=?', ast.Gt: '>?', ast.GtE: '>=?'}.get(type(op))
            if sym is None or ta != tb or ta not in ('nat', 'Z'):
                raise Unsupported('comparison ' + type(op).__name__)
            if ta == 'nat':
                if sym != '<?':
                    raise Unsupported('nat comparison other than <')
                return '(Nat.ltb %s %s)' % (a, b)
            return '(%s %s %s)%%Z' % (a, sym, b)
        x, t = self.expr(e, env, pre)
        if t == 'bool':
            return x
        if t == 'Q':
            return '(negb (Qeq_bool %s 0))' % x
        if t == 'key' or (isinstance(t, tuple) and t[0] == 'list'):
            return '(negb (is_nil %s))' % x
        raise Unsupported('truth value of %r' % (t,))

    @staticmethod
    def wrap(pre, body):
        """bind the failing reads (in evaluation order) around body"""
        for look, err_, name in reversed(pre):
            body = 'match %s with\n| None => Err %s\n| Some %s =>\n%s\nend' % (look, err_, name, body)
        return body

    # ---- statements
    def block(self, stmts, env, k):
        """Gallina term of type res <record>; k(env) = text of the continuation (what follows the block)"""
        if not stmts:
            return k(env)
        s, rest = stmts[0], stmts[1:]
        nxt = lambda env2: self.block(rest, env2, k)
        if isinstance(s, ast.Pass) or (isinstance(s, ast.Expr) and isinstance(s.value, ast.Constant) and isinstance(s.value.value, str)):
            return nxt(env)
        if isinstance(s, ast.Return):
            if s.value is not None:
                raise Unsupported('return with a value')
            return 'Ok st'
        if isinstance(s, ast.Raise):
            if isinstance(s.exc, ast.Call) and isinstance(s.exc.func, ast.Name) and s.exc.func.id == 'NotImplementedError':
                return 'Err ENotImpl'
            raise Unsupported('raise ' + ast.unparse(s)[:40])
        if isinstance(s, ast.Assert):
            if s.msg is not None:
                raise Unsupported('assert with message')
            pre = []
            c = self.cond(s.test, env, pre)
            return self.wrap(pre, 'if %s then\n%s\nelse Err EAssert' % (c, nxt(env)))
        if isinstance(s, ast.Assign):
            if len(s.targets) != 1:
                raise Unsupported('chained assignment')
            return self.assign(s.targets[0], s.value, env, nxt, rest)
        if isinstance(s, ast.AugAssign):
            op = {ast.Add: ast.Add, ast.Sub: ast.Sub}.get(type(s.op))
            if op is None:
                raise Unsupported('augmented operator')
            # target op= value  ==  target = target op value  (the target is read once, as python does for these targets)
            read = ast.copy_location(_as_load(s.target), s.target)
            return self.assign(s.target, ast.BinOp(left=read, op=op(), right=s.value), env, nxt)
        if isinstance(s, ast.Expr) and isinstance(s.value, ast.Call):
            return self.call_stmt(s.value, env, nxt)
        if isinstance(s, ast.If):
            return self.if_stmt(s, env, nxt)
        if isinstance(s, ast.Continue):
            if not self.loop_next:
                raise Unsupported('continue outside a loop')
            return self.loop_next[-1]
        if isinstance(s, ast.For):
            return self.for_stmt(s, rest, env, k)
        raise Unsupported('statement ' + type(s).__name__)

    def mentions(self, node, attr):
        return any(self.is_self_attr(x) and x.attr == attr for x in ast.walk(node)) or \
            any(isinstance(x, ast.Call) and self.is_self_attr(x.func) for x in ast.walk(node))

    def dead_store(self, attr, rest):
        for s in rest:
            if isinstance(s, ast.Assign) and len(s.targets) == 1 and self.is_self_attr(s.targets[0]) and s.targets[0].attr == attr \
                    and not self.mentions(s.value, attr):
                return True
            if self.mentions(s, attr):
                return False
        return False

    def for_stmt(self, s, rest, env, k):
        """for x in <list>:  /  for i, (a, b) in enumerate(zip(<list>, <list>)):   ->  a Fixpoint over the list(s) that threads
        the object state; `continue` = next element; the statements after the loop are the exhausted case.  All locals that
        are in scope are passed along as parameters; the body must not assign plain locals that outlive it."""
        if s.orelse:
            raise Unsupported('for-else')
        if any(isinstance(t, tuple) and t[0] == 'narrow' for t in env.values()):
            raise Unsupported('loop inside an isinstance branch')
        pre = []
        it = s.iter
        binds = []                    # (list text, element pattern text, [(name, type)])
        counter = None
        if isinstance(it, ast.Call) and isinstance(it.func, ast.Name) and it.func.id == 'enumerate' and len(it.args) == 1 and not it.keywords:
            z = it.args[0]
            if not (isinstance(z, ast.Call) and isinstance(z.func, ast.Name) and z.func.id == 'zip' and len(z.args) == 2 and not z.keywords
                    and isinstance(s.target, ast.Tuple) and len(s.target.elts) == 2 and isinstance(s.target.elts[0], ast.Name)
                    and isinstance(s.target.elts[1], ast.Tuple) and len(s.target.elts[1].elts) == 2
                    and all(isinstance(x, ast.Name) for x in s.target.elts[1].elts)):
                raise Unsupported('only `for i, (a, b) in enumerate(zip(x, y))`')
            counter = s.target.elts[0].id
            for arg, name in zip(z.args, s.target.elts[1].elts):
                l, tl = self.expr(arg, env, pre)
                if not (isinstance(tl, tuple) and tl[0] == 'list'):
                    raise Unsupported('zip over %r' % (tl,))
                binds.append((l, name.id, tl[1]))
        elif isinstance(s.target, ast.Name):
            l, tl = self.expr(it, env, pre)
            if not (isinstance(tl, tuple) and tl[0] == 'list'):
                raise Unsupported('for over %r' % (tl,))
            binds.append((l, s.target.id, tl[1]))
        else:
            raise Unsupported('for target')
        if pre:
            raise Unsupported('failing read in the loop header')
        new = [n for _, n, _ in binds] + ([counter] if counter else [])
        for n in new:
            if n in env or n == 'st':
                raise Unsupported('loop variable shadows ' + n)
        for sub in ast.walk(s):
            if isinstance(sub, (ast.Assign, ast.AugAssign)):
                for t in (sub.targets if isinstance(sub, ast.Assign) else [sub.target]):
                    if isinstance(t, ast.Name) and t.id in env:
                        raise Unsupported('the loop body assigns the outer local ' + t.id)
            if isinstance(sub, ast.For) and sub is not s:
                raise Unsupported('nested loop')
            if isinstance(sub, ast.Break):
                raise Unsupported('break')
        self.nloops += 1
        fname = 'gen_%s_loop%d' % (self.cur_method.lstrip('_'), self.nloops)
        outer = []                   # locals in scope, passed through unchanged
        for n, t in env.items():
            if isinstance(t, tuple) and t[0] == 'rec':
                outer.extend(('%s_%s' % (n, f), ft) for f, ft in t[1].items())
            else:
                outer.append((n, t))
        ls = ['l%d' % (i + 1) for i in range(len(binds))]
        again = '%s %s %s st %s' % (fname, ' '.join(l + "'" for l in ls), '(S %s)' % counter if counter else '',
                                   ' '.join(n for n, _ in outer))
        benv = dict(env)
        for _, n, t in binds:
            benv[n] = t
        if counter:
            benv[counter] = 'nat'
        self.loop_next.append(again)
        body = self.block(s.body, benv, lambda env2: again)
        self.loop_next.pop()
        after = self.block(rest, env, k)
        pat = ', '.join("%s :: %s'" % (n, l) for (_, n, _), l in zip(binds, ls))
        text = 'Fixpoint %s %s %s (st : %s) %s {struct l1} : res %s :=\nmatch %s with\n| %s =>\n%s\n| %s =>\n%s\nend.' % (
            fname, ' '.join('(%s : list %s)' % (l, _gtp(t)) for l, (_, _, t) in zip(ls, binds)),
            '(%s : nat)' % counter if counter else '', self.s.record,
            ' '.join('(%s : %s)' % (n, _gt(t)) for n, t in outer), self.s.record,
            ', '.join(ls), pat, body, ', '.join('_' for _ in ls), after)
        self.aux.append(text)
        return '%s %s %s st %s' % (fname, ' '.join(l for l, _, _ in binds), '0%nat' if counter else '', ' '.join(n for n, _ in outer))

    def assign(self, target, value, env, nxt, rest_stmts=()):
        pre = []
        if isinstance(target, ast.Name):
            if target.id == 'st' or target.id in ('self',):
                raise Unsupported('reserved name')
            # x = obj.ext(...)  (a call that may raise: bound with the error propagated)
            if isinstance(value, ast.Call) and isinstance(value.func, ast.Attribute) and value.func.attr in self.s.externals \
                    and not self.is_self_attr(value.func):
                gname, pnames, flatten, rtype = self.s.externals[value.func.attr]
                obj, tobj = self.expr(value.func.value, env, pre)
                a = self.kwargs(value, pnames)
                args = [self.expr(a[n], env, pre) for n in pnames]
                txt = flatten(obj, tobj, args)
                body = 'match %s with\n| Err e => Err e\n| Ok %s =>\n%s\nend' % (txt, target.id, nxt(dict(env, **{target.id: rtype})))
                return self.wrap(pre, body)
            v, tv = self.expr(value, env, pre, env.get(target.id) if isinstance(env.get(target.id), str) else None)
            if target.id in env and env[target.id] != tv:
                raise Unsupported('variable %s re-typed' % target.id)
            return self.wrap(pre, 'let %s := %s in\n%s' % (target.id, v, nxt(dict(env, **{target.id: tv}))))
        if self.is_self_attr(target):
            cur, t = self.fget(target.attr)
            if isinstance(value, ast.Constant) and value.value is None:
                # `self.f = None` is accepted only as a dead store: self.f is assigned again, unconditionally, by a later
                # statement of the same block before anything reads it
                if not self.dead_store(target.attr, rest_stmts):
                    raise Unsupported('self.%s = None is not a dead store' % target.attr)
                return nxt(env)
            if (isinstance(value, ast.List) and not value.elts and isinstance(t, tuple) and t[0] == 'list') or \
                    (isinstance(value, ast.Dict) and not value.keys and isinstance(t, tuple) and t[0] == 'dict'):
                return 'let st := %s in\n%s' % (self.fupd(target.attr, '[]'), nxt(env))
            v, tv = self.expr(value, env, pre, t if isinstance(t, str) else None)
            if tv != t:
                raise Unsupported('self.%s : %r gets %r' % (target.attr, t, tv))
            return self.wrap(pre, 'let st := %s in\n%s' % (self.fupd(target.attr, v), nxt(env)))
        if isinstance(target, ast.Subscript) and self.is_self_attr(target.value):
            f = target.value.attr
            cont, t = self.fget(f)
            if isinstance(t, tuple) and t[0] == 'list':
                i, ti = self.expr(target.slice, env, pre, 'nat')
                v, tv = self.expr(value, env, pre, t[1] if isinstance(t[1], str) else None)
                if t[1] == ('opt', tv):
                    v = '(Some %s)' % v           # a float stored in a list of floats-or-nan
                elif tv != t[1]:
                    raise Unsupported('list element type')
                if ti != 'nat':
                    raise Unsupported('list index type')
                n = self.fresh('l')
                return self.wrap(pre, 'match set_nth %s %s %s with\n| None => Err EIndex\n| Some %s =>\nlet st := %s in\n%s\nend'
                                 % (i, v, cont, n, self.fupd(f, n), nxt(env)))
            if isinstance(t, tuple) and t[0] == 'dict':
                k_, tk = self.expr(target.slice, env, pre, t[1])
                v, tv = self.expr(value, env, pre, t[2] if isinstance(t[2], str) else None)
                if tk != t[1] or tv != t[2]:
                    raise Unsupported('dict store types %r %r' % (tk, tv))
                return self.wrap(pre, 'let st := %s in\n%s' % (self.fupd(f, '(aset %s %s %s %s)' % (_eqb(t[1]), k_, v, cont)), nxt(env)))
            raise Unsupported('store into %r' % (t,))
        if isinstance(target, ast.Subscript) and isinstance(target.value, ast.Subscript) and self.is_self_attr(target.value.value):
            f = target.value.value.attr
            cont, t = self.fget(f)
            if isinstance(t, tuple) and t[0] == 'list' and isinstance(t[1], tuple) and t[1][0] == 'dict':
                # python evaluates the right hand side, then self.f[i] (IndexError), then stores into that dict
                v, tv = self.expr(value, env, pre, t[1][2] if isinstance(t[1][2], str) else None)
                i, ti = self.expr(target.value.slice, env, pre, 'nat')
                k_, tk = self.expr(target.slice, env, pre, t[1][1])
                if (ti, tk, tv) != ('nat', t[1][1], t[1][2]):
                    raise Unsupported('nested store types')
                d, n = self.fresh('d'), self.fresh('l')
                body = ('match nth_error %s %s with\n| None => Err EIndex\n| Some %s =>\nmatch set_nth %s (aset %s %s %s %s) %s with\n'
                        '| None => Err EIndex\n| Some %s =>\nlet st := %s in\n%s\nend\nend'
                        % (cont, i, d, i, _eqb(t[1][1]), k_, v, d, cont, n, self.fupd(f, n), nxt(env)))
                return self.wrap(pre, body)
            if isinstance(t, tuple) and t[0] == 'dict2':
                a, ta = self.expr(target.value.slice, env, pre, t[1])
                if (f, ast.dump(target.value.slice)) not in self.setdefault_seen:
                    raise Unsupported('self.%s[a][b] = v without a preceding self.%s.setdefault(a, {})' % (f, f))
                b, tb = self.expr(target.slice, env, pre, t[2])
                v, tv = self.expr(value, env, pre)
                if (ta, tb, tv) != (t[1], t[2], t[3]):
                    raise Unsupported('dict2 store types')
                new = '(aset %s (%s, %s) %s %s)' % (_eqb(('pair', t[1], t[2])), a, b, v, cont)
                return self.wrap(pre, 'let st := %s in\n%s' % (self.fupd(f, new), nxt(env)))
        raise Unsupported('assignment target ' + ast.unparse(target)[:40])

    def call_stmt(self, c, env, nxt):
        f = c.func
        pre = []
        if isinstance(f, ast.Attribute) and f.attr == 'append' and self.is_self_attr(f.value) and len(c.args) == 1 and not c.keywords:
            cont, t = self.fget(f.value.attr)
            if not (isinstance(t, tuple) and t[0] == 'list'):
                raise Unsupported('append to %r' % (t,))
            v, tv = self.expr(c.args[0], env, pre)
            if tv != t[1]:
                raise Unsupported('append of %r to %r' % (tv, t))
            return self.wrap(pre, 'let st := %s in\n%s' % (self.fupd(f.value.attr, '(%s ++ [%s])' % (cont, v)), nxt(env)))
        if self.is_self_attr(f) and f.attr in dict(self.s.methods):
            params = dict(self.s.methods)[f.attr]
            a = self.kwargs(c, [p for p, _ in params])
            args = []
            for p, t in params:
                if isinstance(t, tuple) and t[0] == 'rec':
                    raise Unsupported('call with a record argument')
                x, tx = self.expr(a[p], env, pre, t if isinstance(t, str) else None)
                if tx != t:
                    raise Unsupported('argument %s : %r gets %r' % (p, t, tx))
                args.append(x)
            return self.wrap(pre, 'match gen_%s st %s with\n| Err e => Err e\n| Ok st =>\n%s\nend'
                             % (f.attr.lstrip('_'), ' '.join(args), nxt(env)))
        raise Unsupported('call statement ' + ast.unparse(c)[:60])

    def if_stmt(self, s, env, nxt):
        t = s.test
        # isinstance(x, Cls)
        if isinstance(t, ast.Call) and isinstance(t.func, ast.Name) and t.func.id == 'isinstance' and len(t.args) == 2 \
                and isinstance(t.args[0], ast.Name) and isinstance(t.args[1], ast.Name) and t.args[1].id in self.cmds:
            x = t.args[0].id
            if env.get(x) != self.inductive:
                raise Unsupported('isinstance on %s' % x)
            cname = t.args[1].id
            binders = ' '.join('%s_%s' % (x, f) for f, _, ft in self.cmds[cname] if ft is not None)
            yes = self.block(s.body, dict(env, **{x: ('narrow', cname)}), nxt)
            no = self.block(s.orelse, env, nxt)
            return 'match %s with\n| %s%s %s =>\n%s\n| _ =>\n%s\nend' % (x, self.cp, cname, binders, yes, no)
        # x is None
        if isinstance(t, ast.Compare) and len(t.ops) == 1 and isinstance(t.ops[0], ast.Is) and isinstance(t.left, ast.Name) \
                and isinstance(t.comparators[0], ast.Constant) and t.comparators[0].value is None:
            x = t.left.id
            tx = env.get(x)
            if not (isinstance(tx, tuple) and tx[0] == 'opt'):
                raise Unsupported('`is None` on %r' % (tx,))
            yes = self.block(s.body, env, nxt)
            no = self.block(s.orelse, dict(env, **{x: tx[1]}), nxt)
            return 'match %s with\n| None =>\n%s\n| Some %s =>\n%s\nend' % (x, yes, x, no)
        pre = []
        c = self.cond(t, env, pre)
        return self.wrap(pre, 'if %s then\n%s\nelse\n%s' % (c, self.block(s.body, env, nxt), self.block(s.orelse, env, nxt)))

    def method_text(self, name, params):
        ms = [n for n in self.cdef.body if isinstance(n, ast.FunctionDef) and n.name == name]
        if len(ms) != 1:
            raise Unsupported('method %s.%s not found' % (self.s.cls, name))
        m = ms[0]
        a = m.args
        if m.decorator_list or a.vararg or a.kwarg or a.kwonlyargs or a.defaults or a.posonlyargs:
            raise Unsupported('method signature of ' + name)
        if [x.arg for x in a.args] != ['self'] + [p for p, _ in params]:
            raise Unsupported('parameters of %s are %s' % (name, [x.arg for x in a.args]))
        self.setdefault_seen = set()
        self.cur_method, self.nloops, self.aux, self.loop_next = name, 0, [], []
        env = {p: t for p, t in params}
        body = self.block(m.body, env, lambda env2: 'Ok st')
        flat = []
        for p, t in params:
            if isinstance(t, tuple) and t[0] == 'rec':
                flat.extend(('%s_%s' % (p, f), ft) for f, ft in t[1].items())
            else:
                flat.append((p, t))
        return '\n\n'.join(self.aux + ['Definition gen_%s (st : %s) %s : res %s :=\n%s.' % (
            name.lstrip('_'), self.s.record, ' '.join('(%s : %s)' % (p, _gt(t)) for p, t in flat), self.s.record, body)])

    def translate(self):
        return [self.record_text()] + [self.method_text(n, p) for n, p in self.s.methods]


def _as_load(target):
    t = ast.parse(ast.unparse(target), mode='eval').body
    return t


CMD_CLASSES = [
    ('LoopLabel', [('idx', 'int', 'Z'), ('count', 'int', 'Z')]),
    ('Increment', [('channel', 'int', 'nat'), ('value', 'float', 'Q'), ('dependency_key', 'DepKey', 'key')]),
    ('Set', [('channel', 'int', 'nat'), ('value', 'float', 'Q'), ('key', 'DepKey', 'key')]),
    ('Wait', [('duration', 'TimeType', 'Q')]),
    ('LoopJmp', [('idx', 'int', 'Z')]),
    ('Play', [('waveform', 'Waveform', None), ('channels', 'Tuple[ChannelID]', None)]),
]

VM_SCHEMA = ObjSchema(
    'LinSpaceVM', 'gvm', 'mkGvm', 'gvm_',
    [('current_values', ('list', ('opt', 'Q'))), ('time', 'Q'), ('registers', ('list', ('dict', 'key', 'Q'))),
     ('history', ('list', ('pair', 'Q', ('list', ('opt', 'Q'))))), ('commands', ('list', 'gcmd')),
     ('label_targets', ('dict', 'Z', 'nat')), ('label_counts', ('dict', 'Z', 'Z')), ('current_command', 'nat')],
    [('change_state', [('cmd', 'gcmd')]), ('step', []), ('set_commands', [('commands', ('list', 'gcmd'))])], CMD_CLASSES)


def _req_inc(obj, tobj, args):
    (prev, tprev), (fs_, tfs) = args
    if tobj != 'depstate' or tprev != 'depstate' or tfs != ('list', 'Q'):
        raise Unsupported('required_increment_from arguments')
    return 'gen_required_increment_from (depstate_base %s) (depstate_iterations %s) (depstate_base %s) (depstate_iterations %s) %s' % (
        obj, obj, prev, prev, fs_)


TS_SCHEMA = ObjSchema(
    '_TranslationState', 'gts', 'mkGts', 'gts_',
    [('label_num', 'Z'), ('commands', ('list', 'gcmd')), ('iterations', ('list', 'Z')), ('active_dep', ('dict', 'nat', 'key')),
     ('dep_states', ('dict2', 'nat', 'key', 'depstate')), ('plain_voltage', ('dict', 'nat', 'Q')), ('resolution', None)],
    [('set_voltage', [('channel', 'nat'), ('value', 'Q')]),
     ('_set_indexed_voltage', [('channel', 'nat'), ('base', 'Q'), ('factors', ('list', 'Q'))]),
     # LinSpaceHold: duration_factors is None or a mapping; both None and {} are falsy -> represented by a list
     ('_add_hold_node', [('node', ('rec', {'bases': ('list', 'Q'), 'factors': ('list', ('opt', ('list', 'Q'))),
                                          'duration_base': 'Q', 'duration_factors': ('list', 'Q')}))])],
    CMD_CLASSES, externals={'required_increment_from': ('gen_required_increment_from', ['previous', 'factors'], _req_inc, 'Q')})


def translate_objects(path):
    with open(path) as fh:
        tree = ast.parse(fh.read())
    vm = ObjTranslator(tree, VM_SCHEMA)
    ts = ObjTranslator(tree, TS_SCHEMA)
    parts = ['(* GENERATED by /verif/translate/py2gallina_c17.py (ObjTranslator) from %s: the command dataclasses, '
             'LinSpaceVM.change_state/step/set_commands, _TranslationState.set_voltage/_set_indexed_voltage/_add_hold_node -- do not edit *)' % path,
             'From Coq Require Import ZArith QArith List Bool.',
             'Require Import QV.C17.Model QV.C17.GenLib QV.C17.Gen_linspace.', 'Import ListNotations.', '',
             vm.inductive_text(), ''] + vm.translate() + [''] + ts.translate() + ['']
    return '\n\n'.join(p for p in parts)


if __name__ == '__main__' and len(sys.argv) == 2:
    print(translate_objects(sys.argv[1]))


# =====================================================================================================================
# Third kernel (round 3): ProgramEntry._transform_linspace_commands (qupulse/hardware/awgs/base.py), a loop that mutates
# the elements of its argument list in place.  Accepted shape (anything else: Unsupported):
#
#     NAME = [ChannelTransformation(amplitude, offset, trafo)
#             for ch, trafo, amplitude, offset in zip(self._channels, self._voltage_transformations, self._amplitudes, self._offsets)
#             if ch is not None]
#     for command in command_list:
#         if / elif isinstance(command, Cls | (Cls, ..)): ... else: ...        with the statements
#             continue | T = NAME[command.channel] | if T.voltage_transformation: ... | raise RuntimeError/NotImplementedError(..)
#             command.value /= T.amplitude | command.value -= T.offset | command.value = float(T.voltage_transformation(command.value))
#     return command_list
#
# Output: gtrafo record, gen_trafos (the comprehension), gen_transform_cmd (one element, the mutated command is rebuilt),
# gen_transform_commands (the loop: first failing element decides the exception).  `x /= a` on floats raises
# ZeroDivisionError for a == 0 (-> Err EDiv).

class TransformTranslator:
    ZIP = ['_channels', '_voltage_transformations', '_amplitudes', '_offsets']

    def __init__(self, tree, aliases):
        self.aliases = aliases           # local class name -> command dataclass name (Set as LSPSet)
        self.cmds = {c: f for c, f in CMD_CLASSES}
        cl = [n for n in tree.body if isinstance(n, ast.ClassDef) and n.name == 'ProgramEntry']
        if len(cl) != 1:
            raise Unsupported('ProgramEntry not found')
        ms = [n for n in cl[0].body if isinstance(n, ast.FunctionDef) and n.name == '_transform_linspace_commands']
        if len(ms) != 1:
            raise Unsupported('_transform_linspace_commands not found')
        self.m = ms[0]
        ct = [n for n in tree.body if isinstance(n, ast.ClassDef) and n.name == 'ChannelTransformation']
        if len(ct) != 1 or [(s.target.id, _ann(s.annotation)) for s in ct[0].body if isinstance(s, ast.AnnAssign)] != \
                [('amplitude', 'float'), ('offset', 'float'), ('voltage_transformation', 'Optional[callable]')]:
            raise Unsupported('ChannelTransformation fields')
        for node in tree.body:
            if isinstance(node, ast.ImportFrom) and node.module == 'qupulse.program.linspace':
                for a in node.names:
                    if (a.asname or a.name) in aliases and aliases[a.asname or a.name] != a.name:
                        raise Unsupported('import alias %s' % (a.asname or a.name))
                got = {(a.asname or a.name) for a in node.names}
                if not set(aliases) <= got:
                    raise Unsupported('command classes are not imported from qupulse.program.linspace')

    def cls(self, e):
        names = [e] if isinstance(e, ast.Name) else list(e.elts) if isinstance(e, ast.Tuple) else None
        if not names or not all(isinstance(n, ast.Name) and n.id in self.aliases for n in names):
            raise Unsupported('isinstance classes')
        return [self.aliases[n.id] for n in names]

    def translate(self):
        a = self.m.args
        if [x.arg for x in a.args] != ['self', 'command_list'] or a.vararg or a.kwarg or a.kwonlyargs or a.defaults:
            raise Unsupported('signature')
        body = [s for s in self.m.body if not (isinstance(s, ast.Expr) and isinstance(s.value, ast.Constant))]
        if len(body) != 3:
            raise Unsupported('expected: comprehension, loop, return')
        comp, loop, ret = body
        # 1. the comprehension
        ok = (isinstance(comp, ast.Assign) and len(comp.targets) == 1 and isinstance(comp.targets[0], ast.Name)
              and isinstance(comp.value, ast.ListComp) and len(comp.value.generators) == 1)
        if not ok:
            raise Unsupported('first statement must be the transformation list comprehension')
        self.tname = comp.targets[0].id
        g = comp.value.generators[0]
        if ast.unparse(g.target) != '(ch, trafo, amplitude, offset)' or \
                ast.unparse(g.iter) != 'zip(%s)' % ', '.join('self.' + z for z in self.ZIP) or \
                [ast.unparse(i) for i in g.ifs] != ['ch is not None'] or \
                ast.unparse(comp.value.elt) != 'ChannelTransformation(amplitude, offset, trafo)':
            raise Unsupported('comprehension shape: ' + ast.unparse(comp.value)[:120])
        trafos = ('Record gtrafo := mkGtrafo { gt_amplitude : Q; gt_offset : Q; gt_voltage_transformation : option (Q -> Q) }.\n\n'
                  'Fixpoint gen_trafos (l1 : list (option N)) (l2 : list (option (Q -> Q))) (l3 l4 : list Q) {struct l1} : list gtrafo :=\n'
                  "match l1, l2, l3, l4 with\n| ch :: l1', trafo :: l2', amplitude :: l3', offset :: l4' =>\n"
                  "if is_some ch then mkGtrafo amplitude offset trafo :: gen_trafos l1' l2' l3' l4' else gen_trafos l1' l2' l3' l4'\n"
                  '| _, _, _, _ => []\nend.')
        # 2. the loop
        if not (isinstance(loop, ast.For) and isinstance(loop.target, ast.Name) and loop.target.id == 'command'
                and isinstance(loop.iter, ast.Name) and loop.iter.id == 'command_list' and not loop.orelse):
            raise Unsupported('loop header')
        if not (isinstance(ret, ast.Return) and isinstance(ret.value, ast.Name) and ret.value.id == 'command_list'):
            raise Unsupported('return')
        elem = self.block(loop.body, None, {})
        cmd = ('Definition gen_transform_cmd (%s : list gtrafo) (command : gcmd) : res gcmd :=\n%s.' % (self.tname, elem))
        lp = ('Fixpoint gen_transform_commands (%s : list gtrafo) (command_list : list gcmd) : res (list gcmd) :=\n'
              'match command_list with\n| [] => Ok []\n| command :: rest =>\n'
              'match gen_transform_cmd %s command with\n| Err e => Err e\n| Ok command =>\n'
              'match gen_transform_commands %s rest with\n| Err e => Err e\n| Ok rest => Ok (command :: rest)\nend\nend\nend.'
              % (self.tname, self.tname, self.tname))
        return '\n\n'.join([trafos, cmd, lp])

    def done(self, narrowed, fields):
        """the (possibly mutated) element"""
        if narrowed is None:
            return 'Ok command'
        return 'Ok (G%s %s)' % (narrowed, ' '.join(fields[f] for f, _, t in self.cmds[narrowed] if t is not None))

    def block(self, stmts, narrowed, fields, locs=()):
        if not stmts:
            return self.done(narrowed, fields)
        s, rest = stmts[0], stmts[1:]
        if isinstance(s, ast.Expr) and isinstance(s.value, ast.Constant) and isinstance(s.value.value, str):
            return self.block(rest, narrowed, fields, locs)
        if isinstance(s, ast.Continue):
            return self.done(narrowed, fields)
        if isinstance(s, ast.Raise):
            if isinstance(s.exc, ast.Call) and isinstance(s.exc.func, ast.Name) and s.exc.func.id in ('RuntimeError', 'NotImplementedError'):
                return 'Err ' + {'RuntimeError': 'ERuntime', 'NotImplementedError': 'ENotImpl'}[s.exc.func.id]
            raise Unsupported('raise')
        if isinstance(s, ast.If):
            t = s.test
            if isinstance(t, ast.Call) and isinstance(t.func, ast.Name) and t.func.id == 'isinstance' and len(t.args) == 2 \
                    and isinstance(t.args[0], ast.Name) and t.args[0].id == 'command':
                if narrowed is not None or rest:
                    raise Unsupported('isinstance chain must be the whole loop body')
                arms = []
                for c in self.cls(t.args[1]):
                    fl = {f: 'command_%s' % f for f, _, ft in self.cmds[c] if ft is not None}
                    arms.append('| G%s %s =>\n%s' % (c, ' '.join(fl.values()), self.block(s.body, c, fl, locs)))
                return 'match command with\n%s\n| _ =>\n%s\nend' % ('\n'.join(arms), self.block(s.orelse, None, {}, locs))
            # if T.voltage_transformation:
            if isinstance(t, ast.Attribute) and isinstance(t.value, ast.Name) and t.value.id in locs and t.attr == 'voltage_transformation':
                yes = self.block(s.body + rest, narrowed, fields, locs + (('vt', t.value.id),))
                no = self.block(s.orelse + rest, narrowed, fields, locs)
                return 'match gt_voltage_transformation %s with\n| Some %s_vt =>\n%s\n| None =>\n%s\nend' % (t.value.id, t.value.id, yes, no)
            raise Unsupported('if ' + ast.unparse(t)[:60])
        if isinstance(s, ast.Assign) and len(s.targets) == 1 and isinstance(s.targets[0], ast.Name):
            # T = NAME[command.channel]
            v = s.value
            if isinstance(v, ast.Subscript) and isinstance(v.value, ast.Name) and v.value.id == self.tname \
                    and ast.unparse(v.slice) == 'command.channel' and narrowed and 'channel' in fields:
                n = s.targets[0].id
                return 'match nth_error %s %s with\n| None => Err EIndex\n| Some %s =>\n%s\nend' % (
                    self.tname, fields['channel'], n, self.block(rest, narrowed, fields, locs + (n,)))
            raise Unsupported('assignment ' + ast.unparse(s)[:60])
        if narrowed and 'value' in fields:
            def trafo_attr(e, attr):
                return isinstance(e, ast.Attribute) and e.attr == attr and isinstance(e.value, ast.Name) and e.value.id in locs
            if isinstance(s, ast.AugAssign) and ast.unparse(s.target) == 'command.value':
                if isinstance(s.op, ast.Div) and trafo_attr(s.value, 'amplitude'):
                    a = '(gt_amplitude %s)' % s.value.value.id
                    return 'if Qeq_bool %s 0 then Err EDiv else\n%s' % (
                        a, self.block(rest, narrowed, dict(fields, value='(%s / %s)%%Q' % (fields['value'], a)), locs))
                if isinstance(s.op, ast.Sub) and trafo_attr(s.value, 'offset'):
                    o = '(gt_offset %s)' % s.value.value.id
                    return self.block(rest, narrowed, dict(fields, value='(%s - %s)%%Q' % (fields['value'], o)), locs)
            if isinstance(s, ast.Assign) and len(s.targets) == 1 and ast.unparse(s.targets[0]) == 'command.value':
                v = s.value
                if isinstance(v, ast.Call) and isinstance(v.func, ast.Name) and v.func.id == 'float' and len(v.args) == 1 \
                        and isinstance(v.args[0], ast.Call) and trafo_attr(v.args[0].func, 'voltage_transformation') \
                        and [ast.unparse(x) for x in v.args[0].args] == ['command.value'] and not v.args[0].keywords \
                        and ('vt', v.args[0].func.value.id) in locs:
                    return self.block(rest, narrowed, dict(fields, value='(%s_vt %s)' % (v.args[0].func.value.id, fields['value'])), locs)
        raise Unsupported('statement ' + ast.unparse(s)[:80])


def translate_transform(path):
    with open(path) as fh:
        tree = ast.parse(fh.read())
    aliases = {'Increment': 'Increment', 'LSPSet': 'Set', 'LoopLabel': 'LoopLabel', 'LoopJmp': 'LoopJmp', 'Wait': 'Wait', 'Play': 'Play'}
    parts = ['(* GENERATED by /verif/translate/py2gallina_c17.py (TransformTranslator) from %s: '
             'ProgramEntry._transform_linspace_commands -- do not edit *)' % path,
             'From Coq Require Import ZArith QArith List Bool.',
             'Require Import QV.C17.Model QV.C17.GenLib QV.C17.Gen_linspace_obj.', 'Import ListNotations.', '',
             TransformTranslator(tree, aliases).translate(), '']
    return '\n'.join(parts)


# =====================================================================================================================
# Round 4: the rest of the translator and the VM constructor.
#
#   DepKey.from_voltages                    (KeyTranslator)   -> gen_from_voltages          (while loop with the list length as fuel)
#   LinSpaceHold/Repeat/Iter.dependencies   (DepsTranslator)  -> gen_dependencies           (Fixpoint over the node tree, one arm per class)
#   _TranslationState.new_loop / get_dependency_state / _entry_state_unchanged_since / _add_repetition_node /
#   _add_iteration_node / add_node          (TrTranslator, an extension of ObjTranslator)
#   to_increment_commands, LinSpaceVM.__init__                 -> gen_to_increment_commands, gen_vm_init
#
# New in TrTranslator: methods that return a value (`res (record * T)`), pure methods (a single `return <expr>` -> a plain
# function of the record), tuple targets, 3-tuples and `*args`, set / dict comprehensions over `.items()`, `dict(x)` (copy =
# identity under value semantics), `l.pop(i)` / `l.pop()` / `l[-1] = v`, sets as lists compared with `set_eqb`, the open
# recursion `self.add_node(node.body)` (parameter add_node_seq), mutation of a local command object (`label.count -= 1` ->
# the local is rebuilt; refused while the object is known to sit in a list of self: python would mutate the list element).

EQB.update({'depstate': 'depstate_eqb', ('set', ('opt', 'depstate')): 'set_eqb'})

NODE_CLASSES = [
    ('LinSpaceHold', [('bases', 'Tuple[float, ...]', ('list', 'Q')),
                      ('factors', 'Tuple[Optional[Tuple[float, ...]], ...]', ('list', ('opt', ('list', 'Q')))),
                      ('duration_base', 'TimeType', 'Q'),
                      # Optional[Tuple[TimeType, ...]] by annotation, a mapping (SimpleExpression.offsets) or None in fact; only its
                      # truth value is used: represented by a list
                      ('duration_factors', 'Optional[Tuple[TimeType, ...]]', ('list', 'Q'))]),
    ('LinSpaceArbitraryWaveform', [('waveform', 'Waveform', None), ('channels', 'Tuple[ChannelID, ...]', None)]),
    ('LinSpaceRepeat', [('body', 'Tuple[LinSpaceNode, ...]', ('list', 'gnode')), ('count', 'int', 'Z')]),
    ('LinSpaceIter', [('body', 'Tuple[LinSpaceNode, ...]', ('list', 'gnode')), ('length', 'int', 'Z')]),
]
GDEPS = ('dict', 'nat', ('set', ('list', 'Q')))


def _gt4(t):
    if isinstance(t, tuple) and t[0] == 'set':
        return 'list %s' % _gtp4(t[1])
    if isinstance(t, tuple) and t[0] == 'tuple':
        return ' * '.join(_gtp4(x) for x in t[1])
    if isinstance(t, tuple) and t[0] in ('list', 'opt', 'dict', 'dict2', 'pair'):
        if t[0] == 'list':
            return 'list %s' % _gtp4(t[1])
        if t[0] == 'opt':
            return 'option %s' % _gtp4(t[1])
        if t[0] == 'dict':
            return 'list (%s * %s)' % (_gtp4(t[1]), _gtp4(t[2]))
        if t[0] == 'dict2':
            return 'list ((%s * %s) * %s)' % (_gtp4(t[1]), _gtp4(t[2]), _gtp4(t[3]))
        return '%s * %s' % (_gtp4(t[1]), _gtp4(t[2]))
    return _gt(t)


def _gtp4(t):
    s = _gt4(t)
    return s if isinstance(t, str) else '(%s)' % s


def _class(tree, name):
    cl = [n for n in tree.body if isinstance(n, ast.ClassDef) and n.name == name]
    if len(cl) != 1:
        raise Unsupported('class %s not found' % name)
    return cl[0]


def _method(cdef, name):
    ms = [n for n in cdef.body if isinstance(n, ast.FunctionDef) and n.name == name]
    if len(ms) != 1:
        raise Unsupported('method %s.%s not found' % (cdef.name, name))
    return ms[0]


def _body(fdef):
    return [s for s in fdef.body if not (isinstance(s, ast.Expr) and isinstance(s.value, ast.Constant) and isinstance(s.value.value, str))]


def _is_dataclass(cdef):
    return any((isinstance(d, ast.Name) and d.id == 'dataclass') or
               (isinstance(d, ast.Call) and isinstance(d.func, ast.Name) and d.func.id == 'dataclass') for d in cdef.decorator_list)


def node_inductive(tree):
    rows = []
    for cname, fields in NODE_CLASSES:
        cl = _class(tree, cname)
        if not _is_dataclass(cl) or [ast.unparse(b) for b in cl.bases] != ['LinSpaceNode']:
            raise Unsupported('%s is not a dataclass derived from LinSpaceNode' % cname)
        got = [(s.target.id, _ann(s.annotation)) for s in cl.body if isinstance(s, ast.AnnAssign) and isinstance(s.target, ast.Name)]
        if got != [(f, a) for f, a, _ in fields]:
            raise Unsupported('fields of %s are %s' % (cname, got))
        rows.append(('| G%s %s' % (cname, ' '.join('(%s : %s)' % (f, _gt4(t)) for f, _, t in fields if t is not None))).rstrip())
    return 'Inductive gnode :=\n%s.' % '\n'.join(rows)


def _u(e):
    return ast.unparse(e)


class KeyTranslator:
    """DepKey.from_voltages:  while <seq> and <seq>[-1] == 0: <seq> = <seq>[:-1]   then   return cls(tuple(int(round(E)) for x in <seq>))"""

    def __init__(self, tree):
        cl = _class(tree, 'DepKey')
        fields = [(s.target.id, _ann(s.annotation)) for s in cl.body if isinstance(s, ast.AnnAssign)]
        if fields != [('factors', 'Tuple[int, ...]')]:
            raise Unsupported('DepKey fields %s' % fields)
        self.m = _method(cl, 'from_voltages')
        if [_u(d) for d in self.m.decorator_list] != ['classmethod']:
            raise Unsupported('from_voltages is not a classmethod')
        a = self.m.args
        if [x.arg for x in a.args] != ['cls', 'voltages', 'resolution'] or a.vararg or a.kwarg or a.kwonlyargs or a.defaults:
            raise Unsupported('from_voltages signature')
        if _ann(a.args[1].annotation) != 'Sequence[float]' or _ann(a.args[2].annotation) != 'float':
            raise Unsupported('from_voltages annotations')

    def qexpr(self, e, names):
        if isinstance(e, ast.Name) and e.id in names:
            return e.id
        if isinstance(e, ast.BinOp) and type(e.op) in (ast.Div, ast.Mult, ast.Add, ast.Sub):
            return '(%s %s %s)%%Q' % (self.qexpr(e.left, names), {ast.Div: '/', ast.Mult: '*', ast.Add: '+', ast.Sub: '-'}[type(e.op)],
                                     self.qexpr(e.right, names))
        raise Unsupported('float expression ' + _u(e))

    def translate(self):
        body = _body(self.m)
        if len(body) != 2 or not isinstance(body[0], ast.While) or not isinstance(body[1], ast.Return) or body[0].orelse:
            raise Unsupported('from_voltages: expected a while loop and a return')
        w, r = body
        t = w.test
        ok = (isinstance(t, ast.BoolOp) and isinstance(t.op, ast.And) and len(t.values) == 2 and isinstance(t.values[0], ast.Name)
              and isinstance(t.values[1], ast.Compare) and len(t.values[1].ops) == 1)
        if not ok:
            raise Unsupported('while test ' + _u(t))
        v = t.values[0].id
        if v != 'voltages':
            raise Unsupported('while variable')
        cmp_ = t.values[1]
        if _u(cmp_.left) != '%s[-1]' % v or not (isinstance(cmp_.comparators[0], ast.Constant) and type(cmp_.comparators[0].value) is int):
            raise Unsupported('while test ' + _u(t))
        c = '(Qeq_bool (last %s 0%%Q) (inject_Z (%d)))' % (v, cmp_.comparators[0].value)
        if isinstance(cmp_.ops[0], ast.NotEq):
            c = '(negb %s)' % c
        elif not isinstance(cmp_.ops[0], ast.Eq):
            raise Unsupported('while comparison')
        if len(w.body) != 1 or _u(w.body[0]) != '%s = %s[:-1]' % (v, v):
            raise Unsupported('while body ' + _u(w.body[0])[:60])
        loop = ('(* `while %s`: every pass removes one element, so len(%s) passes suffice *)\n'
                'Fixpoint gen_from_voltages_while1 (fuel : nat) (%s : list Q) {struct fuel} : list Q :=\nmatch fuel with\n| O => %s\n| S fuel\' =>\n'
                'if ((negb (is_nil %s)) && %s) then\nlet %s := (removelast %s) in\ngen_from_voltages_while1 fuel\' %s\nelse\n%s\nend.'
                % (_u(t), v, v, v, v, c, v, v, v, v))
        rv = r.value
        ok = (isinstance(rv, ast.Call) and _u(rv.func) == 'cls' and len(rv.args) == 1 and isinstance(rv.args[0], ast.Call)
              and _u(rv.args[0].func) == 'tuple' and len(rv.args[0].args) == 1 and isinstance(rv.args[0].args[0], ast.GeneratorExp))
        if not ok:
            raise Unsupported('return ' + _u(rv)[:80])
        g = rv.args[0].args[0]
        if len(g.generators) != 1 or g.generators[0].ifs or not isinstance(g.generators[0].target, ast.Name) or _u(g.generators[0].iter) != v:
            raise Unsupported('generator ' + _u(g)[:80])
        x = g.generators[0].target.id
        el = g.elt
        if not (isinstance(el, ast.Call) and _u(el.func) == 'int' and len(el.args) == 1 and isinstance(el.args[0], ast.Call)
                and _u(el.args[0].func) == 'round' and len(el.args[0].args) == 1 and not el.args[0].keywords):
            raise Unsupported('element ' + _u(el))
        e = self.qexpr(el.args[0].args[0], {x, 'resolution'})
        main = ('Definition gen_from_voltages (%s : list Q) (resolution : Q) : key :=\nlet %s := gen_from_voltages_while1 (length %s) %s in\n'
                '(map (fun %s => py_int_round %s) %s).' % (v, v, v, v, x, e, v))
        return loop + '\n\n' + main


def resolution_constant(tree):
    """self.resolution: the field's default (DEFAULT_INCREMENT_RESOLUTION, a decimal literal read exactly); nothing stores into it"""
    val = None
    for n in tree.body:
        if isinstance(n, ast.AnnAssign) and isinstance(n.target, ast.Name) and n.target.id == 'DEFAULT_INCREMENT_RESOLUTION':
            if not (isinstance(n.value, ast.Constant) and isinstance(n.value.value, float)):
                raise Unsupported('DEFAULT_INCREMENT_RESOLUTION is not a float literal')
            val = n.value.value
    if val is None:
        raise Unsupported('DEFAULT_INCREMENT_RESOLUTION not found')
    from fractions import Fraction
    from decimal import Decimal
    fr = Fraction(Decimal(repr(val)))
    if float(fr) != val or fr <= 0:
        raise Unsupported('resolution literal')
    ts = _class(tree, '_TranslationState')
    fld = [s for s in ts.body if isinstance(s, ast.AnnAssign) and isinstance(s.target, ast.Name) and s.target.id == 'resolution']
    if len(fld) != 1 or _u(fld[0].value) != 'dataclasses.field(default_factory=lambda: DEFAULT_INCREMENT_RESOLUTION)':
        raise Unsupported('default of _TranslationState.resolution')
    for sub in ast.walk(tree):
        if isinstance(sub, ast.Attribute) and sub.attr == 'resolution' and isinstance(sub.ctx, (ast.Store, ast.Del)):
            raise Unsupported('a store into .resolution')
    return 'Definition gen_resolution : Q := (%d # %d).' % (fr.numerator, fr.denominator)


class DepsTranslator:
    """dependencies() of the node classes -> one Fixpoint over gnode (dynamic dispatch = match on the constructor)."""

    def __init__(self, tree):
        self.tree = tree
        base = _class(tree, 'LinSpaceNode')
        m = _method(base, 'dependencies')
        if [_u(s) for s in _body(m)] != ['raise NotImplementedError']:
            raise Unsupported('LinSpaceNode.dependencies')
        self.aux = []

    def inner_stmts(self, stmts, env, again):
        """body of `for idx, deps in node.dependencies().items()`; the accumulator `dependencies` is threaded"""
        if not stmts:
            return again
        s, rest = stmts[0], stmts[1:]
        if isinstance(s, ast.Assign) and len(s.targets) == 1 and isinstance(s.targets[0], ast.Name) and isinstance(s.value, ast.SetComp):
            c = s.value
            if len(c.generators) != 1 or c.generators[0].ifs or not isinstance(c.generators[0].target, ast.Name):
                raise Unsupported('set comprehension ' + _u(c))
            x, it = c.generators[0].target.id, _u(c.generators[0].iter)
            if env.get(it) != 'qset' or _u(c.elt) != '%s[:-1]' % x:
                raise Unsupported('set comprehension ' + _u(c))
            n = s.targets[0].id
            if n in env:
                raise Unsupported('rebinding ' + n)
            return 'let %s := (map (fun %s => removelast %s) %s) in\n%s' % (n, x, x, it, self.inner_stmts(rest, dict(env, **{n: 'qset'}), again))
        if isinstance(s, ast.If) and isinstance(s.test, ast.Compare) and len(s.test.ops) == 1 and isinstance(s.test.ops[0], (ast.Eq, ast.NotEq)):
            l, r = s.test.left, s.test.comparators[0]
            if not (isinstance(l, ast.Name) and env.get(l.id) == 'qset' and _u(r) == '{()}'):
                raise Unsupported('if ' + _u(s.test))
            c = '(qset_eqb %s [[]])' % l.id
            if isinstance(s.test.ops[0], ast.NotEq):
                c = '(negb %s)' % c
            return 'if %s then\n%s\nelse\n%s' % (c, self.inner_stmts(s.body + rest, env, again), self.inner_stmts(s.orelse + rest, env, again))
        if isinstance(s, ast.Expr) and isinstance(s.value, ast.Call):
            c = s.value
            f = c.func
            if isinstance(f, ast.Attribute) and f.attr == 'update' and len(c.args) == 1 and not c.keywords and isinstance(c.args[0], ast.Name) \
                    and env.get(c.args[0].id) == 'qset' and isinstance(f.value, ast.Call) and _u(f.value.func) == 'dependencies.setdefault' \
                    and len(f.value.args) == 2 and _u(f.value.args[1]) == 'set()' and isinstance(f.value.args[0], ast.Name) \
                    and env.get(f.value.args[0].id) == 'nat':
                return 'let dependencies := (dict_setdefault_update Nat.eqb %s %s dependencies) in\n%s' % (
                    f.value.args[0].id, c.args[0].id, self.inner_stmts(rest, env, again))
        raise Unsupported('statement ' + _u(s)[:80])

    def loop_arm(self, cname):
        m = _method(_class(self.tree, cname), 'dependencies')
        if [x.arg for x in m.args.args] != ['self']:
            raise Unsupported('signature')
        body = _body(m)
        if len(body) != 3 or _u(body[0]) != 'dependencies = {}' or _u(body[2]) != 'return dependencies' or not isinstance(body[1], ast.For):
            raise Unsupported('%s.dependencies: expected `dependencies = {}`, a loop, `return dependencies`' % cname)
        o = body[1]
        if not (isinstance(o.target, ast.Name) and o.target.id == 'node' and _u(o.iter) == 'self.body' and not o.orelse
                and len(o.body) == 1 and isinstance(o.body[0], ast.For)):
            raise Unsupported('%s.dependencies: outer loop' % cname)
        i = o.body[0]
        if _u(i.target) != '(idx, deps)' or _u(i.iter) != 'node.dependencies().items()' or i.orelse:
            raise Unsupported('%s.dependencies: inner loop' % cname)
        lname = 'gen_%s_dependencies_loop2' % cname
        again = "%s l' dependencies" % lname
        inner = self.inner_stmts(i.body, {'idx': 'nat', 'deps': 'qset'}, again)
        self.aux.append('Fixpoint %s (l : list (nat * list (list Q))) (dependencies : list (nat * list (list Q))) {struct l} '
                        ': list (nat * list (list Q)) :=\nmatch l with\n| (idx, deps) :: l\' =>\n%s\n| [] => dependencies\nend.' % (lname, inner))
        return ('let dependencies := (@nil (nat * list (list Q))) in\n'
                '(fix loop1 (l : list gnode) (dependencies : list (nat * list (list Q))) {struct l} : res (list (nat * list (list Q))) :=\n'
                'match l with\n| node :: l\' =>\nmatch gen_dependencies node with\n| Err e => Err e\n| Ok tmp =>\nloop1 l\' (%s tmp dependencies)\nend\n'
                '| [] => Ok dependencies\nend) self_body dependencies' % lname)

    def hold_arm(self):
        m = _method(_class(self.tree, 'LinSpaceHold'), 'dependencies')
        body = _body(m)
        if len(body) != 1 or not isinstance(body[0], ast.Return) or not isinstance(body[0].value, ast.DictComp):
            raise Unsupported('LinSpaceHold.dependencies')
        c = body[0].value
        g = c.generators
        if len(g) != 1 or _u(g[0].target) != '(idx, factors)' or _u(g[0].iter) != 'enumerate(self.factors)' \
                or [_u(x) for x in g[0].ifs] != ['factors'] or _u(c.key) != 'idx' or _u(c.value) != '{factors}':
            raise Unsupported('LinSpaceHold.dependencies: ' + _u(c))
        self.aux.append("(* {idx: {factors} for idx, factors in enumerate(self.factors) if factors}: None and () are falsy *)\n"
                        "Fixpoint gen_LinSpaceHold_dependencies_comp (l : list (option (list Q))) (idx : nat) {struct l} : list (nat * list (list Q)) :=\n"
                        "match l with\n| factors :: l' =>\nmatch factors with\n| Some factors =>\nif (negb (is_nil factors)) then\n"
                        "(idx, [factors]) :: gen_LinSpaceHold_dependencies_comp l' (S idx)\nelse\ngen_LinSpaceHold_dependencies_comp l' (S idx)\n"
                        "| None =>\ngen_LinSpaceHold_dependencies_comp l' (S idx)\nend\n| [] => []\nend.")
        return 'Ok (gen_LinSpaceHold_dependencies_comp self_factors 0%nat)'

    def translate(self):
        arms = []
        for cname, fields in NODE_CLASSES:
            cl = _class(self.tree, cname)
            binders = ' '.join('self_%s' % f for f, _, t in fields if t is not None)
            has = [n for n in cl.body if isinstance(n, ast.FunctionDef) and n.name == 'dependencies']
            if not has:
                body = 'Err ENotImpl'             # inherited LinSpaceNode.dependencies
            elif cname == 'LinSpaceHold':
                body = self.hold_arm()
            else:
                body = self.loop_arm(cname)
            arms.append('| G%s %s =>\n%s' % (cname, binders, body))
        main = 'Fixpoint gen_dependencies (self : gnode) {struct self} : res (list (nat * list (list Q))) :=\nmatch self with\n%s\nend.' % '\n'.join(arms)
        return '\n\n'.join(self.aux + [main])


class TrTranslator(ObjTranslator):
    """ObjTranslator + the constructs of new_loop / get_dependency_state / _entry_state_unchanged_since /
    _add_repetition_node / _add_iteration_node (see the round-4 header above)."""

    def __init__(self, tree, schema, rets, pure, rec_cls):
        super().__init__(tree, schema)
        self.rets, self.pure, self.rec_cls = rets, pure, rec_cls
        self.nodes = {c: f for c, f in NODE_CLASSES}
        self.cur_ret = None
        self.in_lists = set()            # (local, attribute): the local object was appended to self.<attribute>
        self.uses_add_node = False

    # ---- types / binds
    @staticmethod
    def wrap(pre, body):
        for look, err_, name in reversed(pre):
            if err_ is None:
                body = 'match %s with\n| Err e => Err e\n| Ok %s =>\n%s\nend' % (look, name, body)
            else:
                body = 'match %s with\n| None => Err %s\n| Some %s =>\n%s\nend' % (look, err_, name, body)
        return body

    def comp_binders(self, gens, env, pre):
        """accepted generator clauses of a comprehension -> (list text, lambda pattern, env of the element expression, nested?)
        returns a function body -> text given the combinators for the outer / inner level"""
        if any(g.ifs or g.is_async for g in gens):
            raise Unsupported('comprehension with a condition')

        def items_of(it):
            if isinstance(it, ast.Call) and isinstance(it.func, ast.Attribute) and it.func.attr == 'items' and not it.args and not it.keywords:
                return it.func.value
            return None
        if len(gens) == 1:
            g = gens[0]
            d = items_of(g.iter)
            if d is not None and isinstance(g.target, ast.Tuple) and len(g.target.elts) == 2 and all(isinstance(x, ast.Name) for x in g.target.elts):
                l, tl = self.expr(d, env, pre)
                a, b = (x.id for x in g.target.elts)
                if not (isinstance(tl, tuple) and tl[0] == 'dict') or a in env or b in env or a == b:
                    raise Unsupported('comprehension over %r' % (tl,))
                return [(l, "'(%s, %s)" % (a, b))], dict(env, **{a: tl[1], b: tl[2]})
            if isinstance(g.target, ast.Name):
                l, tl = self.expr(g.iter, env, pre)
                if not (isinstance(tl, tuple) and tl[0] in ('list', 'set')) or g.target.id in env:
                    raise Unsupported('comprehension over %r' % (tl,))
                return [(l, g.target.id)], dict(env, **{g.target.id: tl[1]})
            raise Unsupported('comprehension target')
        if len(gens) == 2:
            g1, g2 = gens
            d = items_of(g1.iter)
            if d is None or not (isinstance(g1.target, ast.Tuple) and len(g1.target.elts) == 2 and all(isinstance(x, ast.Name) for x in g1.target.elts)):
                raise Unsupported('first generator')
            l, tl = self.expr(d, env, pre)
            a, b = (x.id for x in g1.target.elts)
            if a in env or b in env or a == b:
                raise Unsupported('generator variable shadows')
            d2 = items_of(g2.iter)
            if isinstance(tl, tuple) and tl[0] == 'dict2' and d2 is not None and isinstance(d2, ast.Name) and d2.id == b \
                    and isinstance(g2.target, ast.Tuple) and len(g2.target.elts) == 2 and all(isinstance(x, ast.Name) for x in g2.target.elts):
                c, e = (x.id for x in g2.target.elts)
                if len({a, b, c, e}) != 4 or c in env or e in env:
                    raise Unsupported('generator variable shadows')
                # dict of dicts kept flat: one element per (outer key, inner key)
                return [(l, "'((%s, %s), %s)" % (a, c, e))], dict(env, **{a: tl[1], c: tl[2], e: tl[3]})
            if isinstance(tl, tuple) and tl[0] == 'dict' and isinstance(tl[2], tuple) and tl[2][0] in ('list', 'set') \
                    and isinstance(g2.iter, ast.Name) and g2.iter.id == b and isinstance(g2.target, ast.Name):
                c = g2.target.id
                if c in env or c in (a, b):
                    raise Unsupported('generator variable shadows')
                return [(l, "'(%s, %s)" % (a, b)), (b, c)], dict(env, **{a: tl[1], b: tl[2], c: tl[2][1]})
        raise Unsupported('comprehension generators')

    # ---- expressions
    def expr(self, e, env, pre, want=None):
        if self.is_self_attr(e) and e.attr == 'resolution' and self.ftypes.get('resolution', 0) is None:
            return 'gen_resolution', 'Q'
        if isinstance(e, ast.Tuple) and len(e.elts) == 3:
            parts = [self.expr(x, env, pre) for x in e.elts]
            return '(%s)' % ', '.join(p for p, _ in parts), ('tuple', tuple(t for _, t in parts))
        if isinstance(e, ast.SetComp):
            levels, env2 = self.comp_binders(e.generators, env, pre)
            inner = []
            x, tx = self.expr(e.elt, env2, inner)
            if inner:
                raise Unsupported('failing read inside a comprehension')
            if len(levels) == 1:
                return '(map (fun %s => %s) %s)' % (levels[0][1], x, levels[0][0]), ('set', tx)
            return '(flat_map (fun %s => (map (fun %s => %s) %s)) %s)' % (levels[0][1], levels[1][1], x, levels[1][0], levels[0][0]), ('set', tx)
        if isinstance(e, ast.DictComp):
            # {a: dict(b) for a, b in self.f.items()} on a dict of dicts: a copy (identity under value semantics)
            g = e.generators
            if len(g) == 1 and not g[0].ifs and isinstance(g[0].target, ast.Tuple) and len(g[0].target.elts) == 2 \
                    and all(isinstance(x, ast.Name) for x in g[0].target.elts):
                a, b = (x.id for x in g[0].target.elts)
                it = g[0].iter
                if _u(e.key) == a and _u(e.value) == 'dict(%s)' % b and isinstance(it, ast.Call) and isinstance(it.func, ast.Attribute) \
                        and it.func.attr == 'items' and not it.args and self.is_self_attr(it.func.value) and a != b and a not in env and b not in env:
                    d, td = self.fget(it.func.value.attr)
                    if isinstance(td, tuple) and td[0] == 'dict2':
                        return d, td
            raise Unsupported('dict comprehension ' + _u(e)[:60])
        if isinstance(e, ast.Name) and e.id in env and isinstance(env[e.id], tuple) and env[e.id][0] == 'rec':
            cname = self.rec_cls.get(e.id)
            if cname is None:
                raise Unsupported('record %s used as a value' % e.id)
            return '(G%s %s)' % (cname, ' '.join('%s_%s' % (e.id, f) for f, _, t in self.nodes[cname] if t is not None)), 'gnode'
        return super().expr(e, env, pre, want)

    def call(self, e, env, pre):
        f = e.func
        # dict(x): a copy
        if isinstance(f, ast.Name) and f.id == 'dict' and len(e.args) == 1 and not e.keywords:
            x, tx = self.expr(e.args[0], env, pre)
            if not (isinstance(tx, tuple) and tx[0] in ('dict', 'dict2')):
                raise Unsupported('dict() of %r' % (tx,))
            return x, tx
        # DepKey.from_voltages(X, self.resolution): the translated classmethod
        if isinstance(f, ast.Attribute) and isinstance(f.value, ast.Name) and f.value.id == 'DepKey' and f.attr == 'from_voltages':
            a = self.kwargs(e, ['voltages', 'resolution'])
            x, tx = self.expr(a['voltages'], env, pre)
            r, tr_ = self.expr(a['resolution'], env, pre)
            if tx != ('list', 'Q') or tr_ != 'Q':
                raise Unsupported('from_voltages of %r' % (tx,))
            return '(gen_from_voltages %s %s)' % (x, r), 'key'
        # dd.get(a, {}).get(b, None) on a dict of dicts
        if isinstance(f, ast.Attribute) and f.attr == 'get' and len(e.args) == 2 and not e.keywords \
                and isinstance(e.args[1], ast.Constant) and e.args[1].value is None:
            g = f.value
            if isinstance(g, ast.Call) and isinstance(g.func, ast.Attribute) and g.func.attr == 'get' and self.is_self_attr(g.func.value) \
                    and len(g.args) == 2 and not g.keywords and isinstance(g.args[1], ast.Dict) and not g.args[1].keys:
                d, td = self.fget(g.func.value.attr)
                if not (isinstance(td, tuple) and td[0] == 'dict2'):
                    raise Unsupported('.get(.., {}) on %r' % (td,))
                a, ta = self.expr(g.args[0], env, pre, td[1])
                b, tb = self.expr(e.args[0], env, pre, td[2])
                if (ta, tb) != (td[1], td[2]):
                    raise Unsupported('dict2 key types')
                return '(alookup %s (%s, %s) %s)' % (_eqb(('pair', td[1], td[2])), a, b, d), ('opt', td[3])
        # x.dependencies() on a node
        if isinstance(f, ast.Attribute) and f.attr == 'dependencies' and not e.args and not e.keywords:
            x, tx = self.expr(f.value, env, pre)
            if tx != 'gnode':
                raise Unsupported('dependencies() of %r' % (tx,))
            n = self.fresh()
            pre.append(('gen_dependencies %s' % x, None, n))
            return n, GDEPS
        # pure methods of self
        if self.is_self_attr(f) and f.attr in self.pure:
            params, rt = self.pure[f.attr]
            if len(e.args) == 1 and isinstance(e.args[0], ast.Starred) and not e.keywords:
                s = e.args[0].value
                if not (isinstance(s, ast.Name) and isinstance(env.get(s.id), tuple) and env[s.id][0] == 'tuple' and len(env[s.id][1]) == 3):
                    raise Unsupported('*argument')
                if tuple(t for _, t in params) != env[s.id][1]:
                    raise Unsupported('*argument types %r' % (env[s.id][1],))
                args = ['(fst (fst %s))' % s.id, '(snd (fst %s))' % s.id, '(snd %s)' % s.id]
            else:
                a = self.kwargs(e, [p for p, _ in params])
                args = []
                for p, t in params:
                    x, tx = self.expr(a[p], env, pre, t if isinstance(t, str) else None)
                    if tx != t:
                        raise Unsupported('argument %s : %r gets %r' % (p, t, tx))
                    args.append(x)
            return '(gen_%s st %s)' % (f.attr.lstrip('_'), ' '.join(args)), rt
        # all(c for <generators>) with tuple targets / two generators
        if isinstance(f, ast.Name) and f.id == 'all' and len(e.args) == 1 and isinstance(e.args[0], ast.GeneratorExp):
            g = e.args[0]
            simple = len(g.generators) == 1 and isinstance(g.generators[0].target, ast.Name)
            if not simple:
                levels, env2 = self.comp_binders(g.generators, env, pre)
                inner = []
                c = self.cond(g.elt, env2, inner)
                if inner:
                    raise Unsupported('failing read inside a generator')
                if len(levels) == 1:
                    return '(forallb (fun %s => %s) %s)' % (levels[0][1], c, levels[0][0]), 'bool'
                return '(forallb (fun %s => (forallb (fun %s => %s) %s)) %s)' % (levels[0][1], levels[1][1], c, levels[1][0], levels[0][0]), 'bool'
        # a command whose fields are all opaque (Play)
        if isinstance(f, ast.Name) and f.id in self.cmds and all(t is None for _, _, t in self.cmds[f.id]):
            self.kwargs(e, [n for n, _, _ in self.cmds[f.id]])
            return '%s%s' % (self.cp, f.id), self.inductive
        return super().call(e, env, pre)

    # ---- statements
    def block(self, stmts, env, k):
        if stmts and isinstance(stmts[0], ast.Return) and stmts[0].value is not None:
            if self.cur_ret is None:
                raise Unsupported('return with a value')
            pre = []
            v, tv = self.expr(stmts[0].value, env, pre)
            if tv != self.cur_ret:
                raise Unsupported('return type %r, declared %r' % (tv, self.cur_ret))
            return self.wrap(pre, 'Ok (st, %s)' % v)
        if stmts and isinstance(stmts[0], ast.AugAssign) and isinstance(stmts[0].target, ast.Attribute) \
                and isinstance(stmts[0].target.value, ast.Name) and stmts[0].target.value.id in env \
                and env[stmts[0].target.value.id] in (self.inductive, ) + tuple(('narrow', c) for c in self.cmds):
            return self.mutate_local(stmts[0], stmts[1:], env, k)
        return super().block(stmts, env, k)

    def mutate_local(self, s, rest, env, k):
        """x.f op= e on a local command object: python mutates the object; under value semantics the local is rebuilt.  Refused while
        the object is known to be an element of a list of self (the element would change as well)."""
        x, fld = s.target.value.id, s.target.attr
        if any(n == x for n, _ in self.in_lists):
            raise Unsupported('mutation of %s while it is an element of self.%s' % (x, [a for n, a in self.in_lists if n == x][0]))
        op = {ast.Add: '+', ast.Sub: '-'}.get(type(s.op))
        if op is None:
            raise Unsupported('augmented operator')
        cands = [c for c, fs_ in self.cmds.items() if any(f == fld and t is not None for f, _, t in fs_)]
        t = env[x]
        if isinstance(t, tuple):
            cands = [c for c in cands if c == t[1]]
        if len(cands) != 1:
            raise Unsupported('field %s is not the field of exactly one command class' % fld)
        cname = cands[0]
        ft = [ft_ for f, _, ft_ in self.cmds[cname] if f == fld][0]
        if ft not in ('Z', 'Q'):
            raise Unsupported('mutation of a %r field' % (ft,))
        env2 = dict(env, **{x: ('narrow', cname)})
        pre = []
        v, tv = self.expr(s.value, env2, pre, ft)
        if tv != ft:
            raise Unsupported('mutation value type')
        binders = ['%s_%s' % (x, f) for f, _, t_ in self.cmds[cname] if t_ is not None]
        body = 'let %s_%s := (%s_%s %s %s)%%%s in\nlet %s := (%s%s %s) in\n%s' % (
            x, fld, x, fld, op, v, ft, x, self.cp, cname, ' '.join(binders), self.block(rest, env2, k))
        body = self.wrap(pre, body)
        if isinstance(t, tuple):
            return body
        # attribute access on an object of another class: AttributeError
        return 'match %s with\n| %s%s %s =>\n%s\n| _ => Err EAttr\nend' % (x, self.cp, cname, ' '.join(binders), body)

    def assign(self, target, value, env, nxt, rest_stmts=()):
        # a, b = self.m(args)   (m returns a pair)
        if isinstance(target, ast.Tuple) and isinstance(value, ast.Call) and self.is_self_attr(value.func) and value.func.attr in self.rets:
            rt = self.rets[value.func.attr]
            if not (isinstance(rt, tuple) and rt[0] == 'pair' and len(target.elts) == 2 and all(isinstance(x, ast.Name) for x in target.elts)):
                raise Unsupported('tuple target')
            a, b = (x.id for x in target.elts)
            if a in env or b in env or a == b or 'st' in (a, b):
                raise Unsupported('tuple target rebinds a local')
            pre = []
            args = self.method_args(value, env, pre)
            return self.wrap(pre, 'match gen_%s st %s with\n| Err e => Err e\n| Ok (st, (%s, %s)) =>\n%s\nend' % (
                value.func.attr.lstrip('_'), ' '.join(args), a, b, nxt(dict(env, **{a: rt[1], b: rt[2]}))))
        # self.f[-1] = v
        if isinstance(target, ast.Subscript) and self.is_self_attr(target.value) and _u(target.slice) == '-1':
            cont, t = self.fget(target.value.attr)
            if not (isinstance(t, tuple) and t[0] == 'list'):
                raise Unsupported('[-1] store into %r' % (t,))
            pre = []
            v, tv = self.expr(value, env, pre, t[1] if isinstance(t[1], str) else None)
            if tv != t[1]:
                raise Unsupported('list element type')
            n = self.fresh('l')
            return self.wrap(pre, 'match set_last %s %s with\n| None => Err EIndex\n| Some %s =>\nlet st := %s in\n%s\nend'
                             % (v, cont, n, self.fupd(target.value.attr, n), nxt(env)))
        if isinstance(target, ast.Name) and target.id in env:
            raise Unsupported('local %s assigned twice' % target.id)
        return super().assign(target, value, env, nxt, rest_stmts)

    def method_args(self, c, env, pre):
        params = dict(self.s.methods)[c.func.attr]
        a = self.kwargs(c, [p for p, _ in params])
        args = []
        for p, t in params:
            if isinstance(t, tuple) and t[0] == 'rec':
                raise Unsupported('call with a record argument')
            x, tx = self.expr(a[p], env, pre, t if isinstance(t, str) else None)
            if tx != t:
                raise Unsupported('argument %s : %r gets %r' % (p, t, tx))
            args.append(x)
        return args

    def call_stmt(self, c, env, nxt):
        f = c.func
        pre = []
        if isinstance(f, ast.Attribute) and f.attr == 'pop' and self.is_self_attr(f.value) and not c.keywords and len(c.args) <= 1:
            cont, t = self.fget(f.value.attr)
            if not (isinstance(t, tuple) and t[0] == 'list'):
                raise Unsupported('pop on %r' % (t,))
            n = self.fresh('l')
            if c.args:
                i, ti = self.expr(c.args[0], env, pre, 'nat')
                if ti != 'nat':
                    raise Unsupported('pop index type')
                look = 'remove_nth %s %s' % (i, cont)
            else:
                look = 'pop_last %s' % cont
            # the popped element may be any local that was appended to this list: the marks are dropped only for this attribute
            self.in_lists = {(x, a) for x, a in self.in_lists if a != f.value.attr}
            return self.wrap(pre, 'match %s with\n| None => Err EIndex\n| Some %s =>\nlet st := %s in\n%s\nend'
                             % (look, n, self.fupd(f.value.attr, n), nxt(env)))
        if self.is_self_attr(f) and f.attr == 'add_node':
            # the recursion of add_node through a node's body: open recursion
            if len(c.args) != 1 or c.keywords:
                raise Unsupported('add_node arguments')
            x, tx = self.expr(c.args[0], env, pre)
            if tx != ('list', 'gnode'):
                raise Unsupported('self.add_node on %r (only a node body)' % (tx,))
            self.uses_add_node = True
            return self.wrap(pre, 'match add_node_seq %s st with\n| Err e => Err e\n| Ok st =>\n%s\nend' % (x, nxt(env)))
        if isinstance(f, ast.Attribute) and f.attr == 'append' and self.is_self_attr(f.value) and len(c.args) == 1 \
                and isinstance(c.args[0], ast.Name):
            saved = set(self.in_lists)
            self.in_lists = saved | {(c.args[0].id, f.value.attr)}
            return super().call_stmt(c, env, nxt)
        return super().call_stmt(c, env, nxt)

    def if_stmt(self, s, env, nxt):
        # the marks of appended locals are flow sensitive: both branches start from the marks before the `if`
        saved = set(self.in_lists)
        t = s.test
        pre = []
        special = (isinstance(t, ast.Call) and isinstance(t.func, ast.Name) and t.func.id == 'isinstance') or \
                  (isinstance(t, ast.Compare) and len(t.ops) == 1 and isinstance(t.ops[0], ast.Is))
        if special:
            return super().if_stmt(s, env, nxt)
        c = self.cond(t, env, pre)
        self.in_lists = set(saved)
        yes = self.block(s.body, env, nxt)
        self.in_lists = set(saved)
        no = self.block(s.orelse, env, nxt)
        self.in_lists = saved
        return self.wrap(pre, 'if %s then\n%s\nelse\n%s' % (c, yes, no))

    def method_text(self, name, params):
        m = _method(self.cdef, name)
        a = m.args
        if m.decorator_list or a.vararg or a.kwarg or a.kwonlyargs or a.defaults or a.posonlyargs:
            raise Unsupported('method signature of ' + name)
        if [x.arg for x in a.args] != ['self'] + [p for p, _ in params]:
            raise Unsupported('parameters of %s are %s' % (name, [x.arg for x in a.args]))
        for x, (p, t) in zip(a.args[1:], params):
            if isinstance(t, tuple) and t[0] == 'rec' and _ann(x.annotation) != self.rec_cls.get(p):
                raise Unsupported('%s: parameter %s is annotated %s' % (name, p, _ann(x.annotation)))
        self.setdefault_seen = set()
        self.cur_method, self.nloops, self.aux, self.loop_next = name, 0, [], []
        self.in_lists, self.uses_add_node = set(), False
        env = {p: t for p, t in params}
        flat = []
        for p, t in params:
            if isinstance(t, tuple) and t[0] == 'rec':
                flat.extend(('%s_%s' % (p, f), ft) for f, ft in t[1].items())
            else:
                flat.append((p, t))
        ptxt = ' '.join('(%s : %s)' % (p, _gt4(t)) for p, t in flat)
        gname = 'gen_%s' % name.lstrip('_')
        if name in self.pure:
            body = _body(m)
            if len(body) != 1 or not isinstance(body[0], ast.Return) or body[0].value is None:
                raise Unsupported('%s is not a single return' % name)
            pre = []
            v, tv = self.expr(body[0].value, env, pre)
            if pre:
                raise Unsupported('%s: failing read in a pure method' % name)
            if tv != self.pure[name][1]:
                raise Unsupported('%s returns %r' % (name, tv))
            return 'Definition %s (st : %s) %s : %s :=\n%s.' % (gname, self.s.record, ptxt, _gt4(tv), v)
        self.cur_ret = self.rets.get(name)
        if self.cur_ret is None:
            body = self.block(m.body, env, lambda env2: 'Ok st')
            rtxt = 'res %s' % self.s.record
        else:
            def fall(env2):
                raise Unsupported('%s may end without a return' % name)
            body = self.block(m.body, env, fall)
            rtxt = 'res (%s * (%s))' % (self.s.record, _gt4(self.cur_ret))
        self.cur_ret = None
        rec = '(add_node_seq : list gnode -> %s -> res %s) ' % (self.s.record, self.s.record) if self.uses_add_node else ''
        self.open_rec[name] = self.uses_add_node
        return '\n\n'.join(self.aux + ['Definition %s %s(st : %s) %s : %s :=\n%s.' % (gname, rec, self.s.record, ptxt, rtxt, body)])

    # ---- add_node: the isinstance chain over the node classes; the Sequence arm is the loop over a body
    def add_node_text(self):
        m = _method(self.cdef, 'add_node')
        if [x.arg for x in m.args.args] != ['self', 'node'] or m.decorator_list:
            raise Unsupported('add_node signature')
        body = _body(m)
        if len(body) != 1 or not isinstance(body[0], ast.If):
            raise Unsupported('add_node: expected one if/elif chain')
        arms, seq_seen, s = [], False, body[0]
        seen = []
        while True:
            t = s.test
            if not (isinstance(t, ast.Call) and _u(t.func) == 'isinstance' and len(t.args) == 2 and _u(t.args[0]) == 'node'
                    and isinstance(t.args[1], ast.Name)):
                raise Unsupported('add_node test ' + _u(t))
            cname = t.args[1].id
            if cname == 'Sequence':
                if seen or [_u(x) for x in s.body] != ['for lin_node in node:\n    self.add_node(lin_node)']:
                    raise Unsupported('add_node: Sequence arm')
                seq_seen = True
            elif cname in self.nodes and cname not in seen:
                seen.append(cname)
                binders = ' '.join('node_%s' % f for f, _, ft in self.nodes[cname] if ft is not None)
                if len(s.body) == 1 and isinstance(s.body[0], ast.Expr) and isinstance(s.body[0].value, ast.Call) \
                        and self.is_self_attr(s.body[0].value.func) and [_u(x) for x in s.body[0].value.args] == ['node'] \
                        and not s.body[0].value.keywords and s.body[0].value.func.attr in dict(self.s.methods):
                    mname = s.body[0].value.func.attr
                    params = dict(self.s.methods)[mname]
                    if len(params) != 1 or self.rec_for.get(mname) != cname:
                        raise Unsupported('add_node: %s does not take a %s' % (mname, cname))
                    txt = 'gen_%s %sst %s' % (mname.lstrip('_'), 'add_node_seq ' if self.open_rec.get(mname) else '', binders)
                else:
                    self.cur_method, self.nloops, self.aux, self.loop_next, self.cur_ret = 'add_node', 0, [], [], None
                    self.in_lists = set()
                    self.rec_cls = dict(self.rec_cls, node=cname)
                    env = {'node': ('rec', {f: ft for f, _, ft in self.nodes[cname] if ft is not None})}
                    txt = self.block(s.body, env, lambda env2: 'Ok st')
                    if self.aux:
                        raise Unsupported('loop in an add_node arm')
                arms.append('| G%s %s =>\n%s' % (cname, binders, txt))
            else:
                raise Unsupported('add_node: class ' + cname)
            if len(s.orelse) == 1 and isinstance(s.orelse[0], ast.If):
                s = s.orelse[0]
                continue
            if len(s.orelse) != 1 or not isinstance(s.orelse[0], ast.Raise) or not _u(s.orelse[0]).startswith('raise TypeError('):
                raise Unsupported('add_node: final else')
            break
        if not seq_seen or sorted(seen) != sorted(self.nodes):
            raise Unsupported('add_node: arms %s' % seen)
        seq = ('fix add_node_seq (l : list gnode) (st : %s) {struct l} : res %s :=\nmatch l with\n| lin_node :: l\' =>\n'
               'match gen_add_node lin_node st with\n| Err e => Err e\n| Ok st => add_node_seq l\' st\nend\n| [] => Ok st\nend' % (self.s.record, self.s.record))
        main = ('(* add_node(node) for a node; the `isinstance(node, Sequence)` arm (for lin_node in node: self.add_node(lin_node)) is add_node_seq *)\n'
                'Fixpoint gen_add_node (node : gnode) (st : %s) {struct node} : res %s :=\nlet add_node_seq := (%s) in\nmatch node with\n%s\nend.'
                % (self.s.record, self.s.record, seq, '\n'.join(arms)))
        return main + '\n\nDefinition gen_add_node_seq : list gnode -> %s -> res %s :=\n%s.' % (self.s.record, self.s.record, seq)


def _rec(cname):
    return ('rec', {f: t for f, _, t in dict(NODE_CLASSES)[cname] if t is not None})


TS4_SCHEMA = ObjSchema(
    '_TranslationState', 'gts', 'mkGts', 'gts_', TS_SCHEMA.fields,
    [('new_loop', [('count', 'Z')]),
     ('get_dependency_state', [('dependencies', GDEPS)]),
     ('_entry_state_unchanged_since', [('active_dep', ('dict', 'nat', 'key')), ('plain_voltage', ('dict', 'nat', 'Q')),
                                       ('dep_states', ('dict2', 'nat', 'key', 'depstate'))]),
     ('_add_repetition_node', [('node', _rec('LinSpaceRepeat'))]),
     ('_add_iteration_node', [('node', _rec('LinSpaceIter'))]),
     ('_add_hold_node', [('node', _rec('LinSpaceHold'))])],
    CMD_CLASSES)


def translation_state_default(tree):
    cl = _class(tree, '_TranslationState')
    vals = []
    for f, t in TS_SCHEMA.fields:
        if t is None:
            continue
        fld = [s for s in cl.body if isinstance(s, ast.AnnAssign) and isinstance(s.target, ast.Name) and s.target.id == f]
        if len(fld) != 1 or fld[0].value is None:
            raise Unsupported('default of %s' % f)
        d = _u(fld[0].value)
        if d == 'dataclasses.field(default=0)' and t == 'Z':
            vals.append('(0)%Z')
        elif d in ('dataclasses.field(default_factory=list)', 'dataclasses.field(default_factory=dict)') and isinstance(t, tuple):
            vals.append('[]')
        else:
            raise Unsupported('default of %s: %s' % (f, d))
    return 'Definition gen_translation_state_default : gts := (mkGts %s).' % ' '.join(vals)


def to_increment_commands_text(tree):
    fs_ = [n for n in tree.body if isinstance(n, ast.FunctionDef) and n.name == 'to_increment_commands']
    if len(fs_) != 1 or [x.arg for x in fs_[0].args.args] != ['linspace_nodes']:
        raise Unsupported('to_increment_commands')
    if [_u(s) for s in _body(fs_[0])] != ['state = _TranslationState()', 'state.add_node(linspace_nodes)', 'return state.commands']:
        raise Unsupported('to_increment_commands body')
    if _ann(fs_[0].args.args[0].annotation) != 'Sequence[LinSpaceNode]':
        raise Unsupported('to_increment_commands annotation')
    return ('Definition gen_to_increment_commands (linspace_nodes : list gnode) : res (list gcmd) :=\nlet state := gen_translation_state_default in\n'
            'match gen_add_node_seq linspace_nodes state with\n| Err e => Err e\n| Ok state =>\nOk (gts_commands state)\nend.')


def vm_init_text(tree):
    """LinSpaceVM.__init__.  `self.f = None` is represented by the empty value of the field's type: accepted only for the attributes
    that set_commands assigns, unconditionally and before reading anything, in its first statements."""
    cl = _class(tree, 'LinSpaceVM')
    m = _method(cl, '__init__')
    if [x.arg for x in m.args.args] != ['self', 'channels'] or _ann(m.args.args[1].annotation) != 'int':
        raise Unsupported('LinSpaceVM.__init__ signature')
    sc = _body(_method(cl, 'set_commands'))
    early = []
    for s in sc:
        if isinstance(s, ast.Assign) and len(s.targets) == 1 and isinstance(s.targets[0], ast.Attribute) and _u(s.targets[0].value) == 'self' \
                and not any(isinstance(x, ast.Name) and x.id == 'self' for x in ast.walk(s.value)):
            early.append(s.targets[0].attr)
        else:
            break
    ftypes = dict(VM_SCHEMA.fields)
    vals = {}
    for s in _body(m):
        if isinstance(s, ast.AnnAssign) and s.value is not None:
            tgt, val = s.target, s.value
        elif isinstance(s, ast.Assign) and len(s.targets) == 1:
            tgt, val = s.targets[0], s.value
        else:
            raise Unsupported('__init__ statement ' + _u(s)[:60])
        if not (isinstance(tgt, ast.Attribute) and _u(tgt.value) == 'self') or tgt.attr in vals or tgt.attr not in ftypes:
            raise Unsupported('__init__ target ' + _u(tgt))
        f, t, v = tgt.attr, ftypes[tgt.attr], _u(val)
        if v == '[np.nan] * channels' and t == ('list', ('opt', 'Q')):
            vals[f] = '(repeat None channels)'
        elif v == 'TimeType(0)' and t == 'Q':
            vals[f] = '(inject_Z (0))'
        elif v == 'tuple(({} for _ in range(channels)))' and t == ('list', ('dict', 'key', 'Q')):
            vals[f] = '(repeat [] channels)'
        elif v == '[]' and isinstance(t, tuple) and t[0] == 'list':
            vals[f] = '[]'
        elif v == 'None' and f in early:
            vals[f] = '0%nat' if t == 'nat' else '[]'
        else:
            raise Unsupported('__init__: self.%s = %s' % (f, v))
    if sorted(vals) != sorted(ftypes):
        raise Unsupported('__init__ assigns %s' % sorted(vals))
    return ('(* the attributes set to None (%s) are assigned by set_commands before it reads anything *)\n'
            'Definition gen_vm_init (channels : nat) : gvm :=\n(mkGvm %s).' % (', '.join(f for f in ftypes if f in early and _u_none(m, f)),
                                                                             ' '.join(vals[f] for f, _ in VM_SCHEMA.fields)))


def _u_none(m, f):
    return any(isinstance(s, ast.Assign) and _u(s.targets[0]) == 'self.' + f and _u(s.value) == 'None' for s in m.body)



# =====================================================================================================================
# Round 4: LinSpaceBuilder.hold_voltage, the part that turns one voltage into (base, factors): the loop over the open
# iterations (self._ranges, outermost first; names may repeat = shadowing).
#
#   for value in voltages:
#       if not isinstance(value, SimpleExpression): bases.append(float(value)); factors.append(None); continue
#       offsets = value.offsets;  base = value.base;  incs = []
#       for level, (rng_name, rng) in enumerate(ranges):  <float statements>          -> Fixpoint gen_hold_voltage_loop2
#       factors.append(tuple(incs));  bases.append(base)
#
# Index names are an abstract type with decidable equality (nat); a python range is a triple (GenLib grange; only .start/.step may be
# used); `ranges[level + 1:]` inside `for level, .. in enumerate(ranges)` is the part of the list not yet visited; `if o and c`
# on an Optional[float] o narrows o in the branch.

class HoldVoltageTranslator:
    def __init__(self, tree):
        cl = _class(tree, 'LinSpaceBuilder')
        self.m = _method(cl, 'hold_voltage')
        if [x.arg for x in self.m.args.args] != ['self', 'duration', 'voltages']:
            raise Unsupported('hold_voltage signature')

    def q(self, e, env):
        """float expression over the locals"""
        if isinstance(e, ast.Constant) and type(e.value) is float and e.value == 0.0:
            return '0%Q'
        if isinstance(e, ast.Name) and env.get(e.id) == 'Q':
            return e.id
        if isinstance(e, ast.Attribute) and isinstance(e.value, ast.Name) and env.get(e.value.id) == 'range' and e.attr in ('start', 'step'):
            return '(inject_Z (range_%s %s))' % (e.attr, e.value.id)
        if isinstance(e, ast.BinOp) and type(e.op) in (ast.Add, ast.Sub, ast.Mult):
            return '(%s %s %s)%%Q' % (self.q(e.left, env), {ast.Add: '+', ast.Sub: '-', ast.Mult: '*'}[type(e.op)], self.q(e.right, env))
        raise Unsupported('float expression ' + _u(e))

    def stmts(self, ss, env, again):
        if not ss:
            return again
        s, rest = ss[0], ss[1:]
        if isinstance(s, ast.Assign) and len(s.targets) == 1 and isinstance(s.targets[0], ast.Name):
            n = s.targets[0].id
            if _u(s.value) == 'offsets.get(rng_name, None)' and env.get('offsets') == 'offsets' and env.get('rng_name') == 'name' and n not in env:
                return 'let %s := (alookup Nat.eqb rng_name offsets) in\n%s' % (n, self.stmts(rest, dict(env, **{n: 'optQ'}), again))
            if n in env and env[n] != 'Q':
                raise Unsupported('assignment to ' + n)
            return 'let %s := %s in\n%s' % (n, self.q(s.value, env), self.stmts(rest, dict(env, **{n: 'Q'}), again))
        if isinstance(s, ast.AugAssign) and isinstance(s.target, ast.Name) and env.get(s.target.id) == 'Q' and type(s.op) in (ast.Add, ast.Sub):
            n = s.target.id
            return 'let %s := (%s %s %s)%%Q in\n%s' % (n, n, '+' if isinstance(s.op, ast.Add) else '-', self.q(s.value, env), self.stmts(rest, env, again))
        if isinstance(s, ast.Expr) and _u(s.value).startswith('incs.append(') and len(s.value.args) == 1:
            return 'let incs := (incs ++ [%s]) in\n%s' % (self.q(s.value.args[0], env), self.stmts(rest, env, again))
        if isinstance(s, ast.If) and isinstance(s.test, ast.BoolOp) and isinstance(s.test.op, ast.And) and len(s.test.values) == 2 and not s.orelse:
            o, c = s.test.values
            if not (isinstance(o, ast.Name) and env.get(o.id) == 'optQ'):
                raise Unsupported('if ' + _u(s.test))
            want = 'all((inner_name != rng_name for inner_name, _ in ranges[level + 1:]))'
            if _u(c) != want or env.get('level') != 'counter':
                raise Unsupported('if ' + _u(c))
            cond = "(forallb (fun '(inner_name, _) => (negb (Nat.eqb inner_name rng_name))) l')"
            for sub in s.body:
                if not isinstance(sub, ast.AugAssign):
                    raise Unsupported('statement in the branch: ' + _u(sub))
            no = self.stmts(rest, env, again)
            yes = self.stmts(s.body + rest, dict(env, **{o.id: 'Q'}), again)
            # `o and c`: None and 0.0 are falsy
            return ('match %s with\n| Some %s =>\nif ((negb (Qeq_bool %s 0)) && %s) then\n%s\nelse\n%s\n| None =>\n%s\nend'
                    % (o.id, o.id, o.id, cond, yes, no, no))
        raise Unsupported('statement ' + _u(s)[:80])

    def translate(self):
        body = _body(self.m)
        if not any(_u(s) == 'ranges = self._ranges' for s in body):
            raise Unsupported('hold_voltage: ranges = self._ranges')
        loops = [s for s in body if isinstance(s, ast.For)]
        if len(loops) != 1 or _u(loops[0].target) != 'value' or _u(loops[0].iter) != 'voltages':
            raise Unsupported('hold_voltage: loop over the voltages')
        b = loops[0].body
        if len(b) != 7:
            raise Unsupported('hold_voltage: loop body')
        plain = b[0]
        if not (isinstance(plain, ast.If) and _u(plain.test) == 'not isinstance(value, SimpleExpression)' and not plain.orelse
                and [_u(x) for x in plain.body] == ['bases.append(float(value))', 'factors.append(None)', 'continue']):
            raise Unsupported('hold_voltage: plain number branch')
        if [_u(x) for x in b[1:4]] != ['offsets = value.offsets', 'base = value.base', 'incs = []'] or \
                [_u(x) for x in b[5:]] != ['factors.append(tuple(incs))', 'bases.append(base)']:
            raise Unsupported('hold_voltage: statements around the inner loop')
        inner = b[4]
        if not (isinstance(inner, ast.For) and _u(inner.target) == '(level, (rng_name, rng))' and _u(inner.iter) == 'enumerate(ranges)' and not inner.orelse):
            raise Unsupported('hold_voltage: inner loop header')
        for sub in ast.walk(inner):
            if isinstance(sub, ast.Attribute) and isinstance(sub.value, ast.Name) and sub.value.id == 'rng' and sub.attr not in ('start', 'step'):
                raise Unsupported('rng.%s' % sub.attr)
        env = {'offsets': 'offsets', 'base': 'Q', 'rng_name': 'name', 'rng': 'range', 'level': 'counter'}
        again = "gen_hold_voltage_loop2 l' offsets base incs"
        txt = self.stmts(inner.body, env, again)
        loop = ('Fixpoint gen_hold_voltage_loop2 (l : list (nat * grange)) (offsets : list (nat * Q)) (base : Q) (incs : list Q) {struct l} : Q * list Q :=\n'
                "match l with\n| (rng_name, rng) :: l' =>\n%s\n| [] => (base, incs)\nend." % txt)
        main = ('(* one voltage of hold_voltage: a plain number (float(value), factors None) or a SimpleExpression (base, offsets by index name) *)\n'
                'Definition gen_hold_voltage_plain (value : Q) : Q * option (list Q) := (value, None).\n\n'
                'Definition gen_hold_voltage_expr (ranges : list (nat * grange)) (value_offsets : list (nat * Q)) (value_base : Q) : Q * option (list Q) :=\n'
                'let offsets := value_offsets in\nlet base := value_base in\nlet incs := (@nil Q) in\n'
                "let '(base, incs) := gen_hold_voltage_loop2 ranges offsets base incs in\n(base, Some incs).")
        return loop + '\n\n' + main



def vm_run_text(tree):
    """LinSpaceVM.run:  while self.current_command < len(self.commands): self.step()   -> a loop with fuel (None = fuel exhausted;
    the loop has no variant: a program may jump back forever)"""
    cl = _class(tree, 'LinSpaceVM')
    m = _method(cl, 'run')
    body = _body(m)
    if [x.arg for x in m.args.args] != ['self'] or len(body) != 1 or not isinstance(body[0], ast.While) or body[0].orelse:
        raise Unsupported('LinSpaceVM.run: expected one while loop')
    w = body[0]
    t = w.test
    if not (isinstance(t, ast.Compare) and len(t.ops) == 1 and _u(t.left) == 'self.current_command' and _u(t.comparators[0]) == 'len(self.commands)'):
        raise Unsupported('run: loop test ' + _u(t))
    ft = dict(VM_SCHEMA.fields)
    if ft['current_command'] != 'nat' or ft['commands'] != ('list', 'gcmd'):
        raise Unsupported('run: schema')
    a, b = '(gvm_current_command st)', '(length (gvm_commands st))'
    c = {ast.Lt: '(Nat.ltb %s %s)' % (a, b), ast.LtE: '(Nat.leb %s %s)' % (a, b), ast.NotEq: '(negb (Nat.eqb %s %s))' % (a, b)}.get(type(t.ops[0]))
    if c is None:
        raise Unsupported('run: comparison')
    if [_u(s) for s in w.body] != ['self.step()']:
        raise Unsupported('run: loop body')
    return ('Fixpoint gen_run (fuel : nat) (st : gvm) {struct fuel} : option (res gvm) :=\nmatch fuel with\n| O => None\n| S fuel\' =>\n'
            'if %s then\nmatch gen_step st with\n| Err e => Some (Err e)\n| Ok st => gen_run fuel\' st\nend\nelse\nSome (Ok st)\nend.' % c)



# =====================================================================================================================
# Round 4: LinSpaceBuilder as a state machine.  Record gbuilder (the frame stack, the open ranges, the frame indices; the
# channel name tables are not represented: hold_voltage gets its voltages in channel order, which is what its first two
# statements produce).  A generator method `... yield self ...` (the protocol `for b in builder.with_x(..): <body>`) is split
# at the yield: gen_<m>_enter returns (state, entered?) — a `return` before the yield means the body is skipped — and
# gen_<m>_exit is the part after the yield.  A python range is a triple (start, stop, step) (GenLib: range_start/range_step/
# range_length).

BUILDER_FIELDS = [('_name_to_idx', None), ('_idx_to_name', None), ('_stack', 'list (list gnode)'),
                  ('_ranges', 'list (nat * grange)'), ('_frame_index', 'list (option nat)')]


class BuilderTranslator:
    def __init__(self, tree):
        self.cl = _class(tree, 'LinSpaceBuilder')
        init = _method(self.cl, '__init__')
        got = [_u(s) for s in _body(init)]
        want = ['super().__init__()', 'self._name_to_idx = {name: idx for idx, name in enumerate(channels)}', 'self._idx_to_name = channels',
                'self._stack = [[]]', 'self._ranges = []', 'self._frame_index = [None]']
        if got != want:
            raise Unsupported('LinSpaceBuilder.__init__: %s' % got)
        self.fields = [(f, t) for f, t in BUILDER_FIELDS if t is not None]

    def upd(self, f, val):
        return '(mkGb %s)' % ' '.join(val if g == f else '(gb%s st)' % g for g, _ in self.fields)

    def expr(self, e, env, opt=False):
        s = _u(e)
        if s == '[]':
            return '[]'
        if s == 'None':
            return 'None'
        if isinstance(e, ast.Name) and e.id in env:
            return ('(Some %s)' % e.id) if opt else e.id
        if isinstance(e, ast.Tuple) and len(e.elts) == 2:
            return '(%s, %s)' % (self.expr(e.elts[0], env), self.expr(e.elts[1], env))
        raise Unsupported('expression ' + s)

    def node_ctor(self, e, env):
        """LinSpaceRepeat(body=tuple(x), count=n) / LinSpaceIter(body=tuple(x), length=len(rng))"""
        if not (isinstance(e, ast.Call) and isinstance(e.func, ast.Name) and e.func.id in dict(NODE_CLASSES) and not e.args):
            raise Unsupported('node constructor ' + _u(e))
        fields = [(f, t) for f, _, t in dict(NODE_CLASSES)[e.func.id] if t is not None]
        kw = {k.arg: k.value for k in e.keywords}
        if sorted(kw) != sorted(f for f, _ in fields):
            raise Unsupported('node constructor keywords ' + _u(e))
        parts = []
        for f, t in fields:
            v = kw[f]
            if t == ('list', 'gnode'):
                if not (isinstance(v, ast.Call) and _u(v.func) == 'tuple' and len(v.args) == 1 and isinstance(v.args[0], ast.Name)
                        and env.get(v.args[0].id) == 'nodes'):
                    raise Unsupported('node body ' + _u(v))
                parts.append(v.args[0].id)
            elif t == 'Z':
                if isinstance(v, ast.Name) and env.get(v.id) == 'Z':
                    parts.append(v.id)
                elif isinstance(v, ast.Call) and _u(v.func) == 'len' and len(v.args) == 1 and isinstance(v.args[0], ast.Name) and env.get(v.args[0].id) == 'range':
                    parts.append('(range_length %s)' % v.args[0].id)
                else:
                    raise Unsupported('node field ' + _u(v))
            else:
                raise Unsupported('node field type')
        return '(G%s %s)' % (e.func.id, ' '.join(parts))

    def stmts(self, ss, env, end):
        if not ss:
            return end
        s, rest = ss[0], ss[1:]
        # self.F.append(E)
        if isinstance(s, ast.Expr) and isinstance(s.value, ast.Call) and isinstance(s.value.func, ast.Attribute) and s.value.func.attr == 'append' \
                and len(s.value.args) == 1 and isinstance(s.value.func.value, ast.Attribute) and _u(s.value.func.value.value) == 'self' \
                and s.value.func.value.attr in dict(self.fields):
            f = s.value.func.value.attr
            return 'let st := %s in\n%s' % (self.upd(f, '((gb%s st) ++ [%s])' % (f, self.expr(s.value.args[0], env, dict(self.fields)[f] == 'list (option nat)'))), self.stmts(rest, env, end))
        # [x =] self.F.pop()
        call = s.value if isinstance(s, (ast.Expr, ast.Assign)) else None
        if isinstance(call, ast.Call) and isinstance(call.func, ast.Attribute) and call.func.attr == 'pop' and not call.args \
                and isinstance(call.func.value, ast.Attribute) and _u(call.func.value.value) == 'self' and call.func.value.attr in dict(self.fields):
            f = call.func.value.attr
            if isinstance(s, ast.Assign):
                if len(s.targets) != 1 or not isinstance(s.targets[0], ast.Name) or s.targets[0].id in env or f != '_stack':
                    raise Unsupported('pop target')
                x = s.targets[0].id
                env = dict(env, **{x: 'nodes'})
            else:
                x = '_'
            return ('match pop_last_v (gb%s st) with\n| None => Err EIndex\n| Some (l, %s) =>\nlet st := %s in\n%s\nend'
                    % (f, x, self.upd(f, 'l'), self.stmts(rest, env, end)))
        # if x: self._stack[-1].append(Node(..))
        if isinstance(s, ast.If) and isinstance(s.test, ast.Name) and env.get(s.test.id) == 'nodes' and not s.orelse and len(s.body) == 1:
            b = s.body[0]
            if isinstance(b, ast.Expr) and isinstance(b.value, ast.Call) and _u(b.value.func) == 'self._stack[-1].append' and len(b.value.args) == 1:
                node = self.node_ctor(b.value.args[0], env)
                nxt = self.stmts(rest, env, end)
                return ('if (negb (is_nil %s)) then\nmatch stack_top_append %s (gb_stack st) with\n| None => Err EIndex\n| Some l =>\nlet st := %s in\n%s\nend\nelse\n%s'
                        % (s.test.id, node, self.upd('_stack', 'l'), nxt, nxt))
        raise Unsupported('statement ' + _u(s)[:80])

    def generator(self, name, params, env):
        m = _method(self.cl, name)
        if [x.arg for x in m.args.args][:1 + len(params)] != ['self'] + params or (m.decorator_list and [_u(d) for d in m.decorator_list] != ['contextlib.contextmanager']):
            raise Unsupported('%s signature' % name)
        for x in m.args.args[1 + len(params):]:
            if x.arg != 'measurements':
                raise Unsupported('%s: extra parameter %s' % (name, x.arg))
        body = _body(m)
        ys = [i for i, s in enumerate(body) if _u(s) == 'yield self']
        if len(ys) != 1 or any(isinstance(x, (ast.Yield, ast.YieldFrom)) for i, s in enumerate(body) if i != ys[0] for x in ast.walk(s)):
            raise Unsupported('%s: exactly one top-level `yield self` expected' % name)
        before, after = body[:ys[0]], body[ys[0] + 1:]
        ptxt = ' '.join('(%s : %s)' % (p, {'Z': 'Z', 'range': 'grange', 'name': 'nat'}[env[p]]) for p in params)
        # early return: `if <test>: return` as the first statement
        guard = None
        if before and isinstance(before[0], ast.If) and [_u(x) for x in before[0].body] == ['return'] and not before[0].orelse:
            t = before[0].test
            if isinstance(t, ast.Compare) and len(t.ops) == 1 and isinstance(t.ops[0], ast.Eq) and _u(t.comparators[0]) == '0':
                l = t.left
                if isinstance(l, ast.Name) and env.get(l.id) == 'Z':
                    guard = '(%s =? 0)%%Z' % l.id
                elif isinstance(l, ast.Call) and _u(l.func) == 'len' and len(l.args) == 1 and isinstance(l.args[0], ast.Name) and env.get(l.args[0].id) == 'range':
                    guard = '(range_length %s =? 0)%%Z' % l.args[0].id
            if guard is None:
                raise Unsupported('%s: early return test %s' % (name, _u(t)))
            before = before[1:]
        enter = self.stmts(before, env, 'Ok (st, true)')
        if guard:
            enter = 'if %s then\nOk (st, false)\nelse\n%s' % (guard, enter)
        ex = self.stmts(after, env, 'Ok st')
        return ('Definition gen_%s_enter (st : gbuilder) %s : res (gbuilder * bool) :=\n%s.\n\n'
                'Definition gen_%s_exit (st : gbuilder) %s : res gbuilder :=\n%s.' % (name, ptxt, enter, name, ptxt, ex))

    def hold_voltage(self):
        m = _method(self.cl, 'hold_voltage')
        body = [_u(s) for s in _body(m)]
        head = ['voltages = sorted(((self._name_to_idx[ch_name], value) for ch_name, value in voltages.items()))',
                'voltages = [value for _, value in voltages]', 'ranges = self._ranges', 'factors = []', 'bases = []']
        tail = ['if isinstance(duration, SimpleExpression):\n    duration_factors = duration.offsets\n    duration_base = duration.base\n'
                'else:\n    duration_base = duration\n    duration_factors = None',
                'set_cmd = LinSpaceHold(bases=tuple(bases), factors=tuple(factors), duration_base=duration_base, duration_factors=duration_factors)',
                'self._stack[-1].append(set_cmd)']
        if body[:5] != head or body[6:] != tail or not body[5].startswith('for value in voltages:'):
            raise Unsupported('hold_voltage: statements around the loop over the voltages: %s' % [b[:50] for b in body])
        return ('(* the loop over the voltages (given in channel order: that is what the first two statements of hold_voltage produce) *)\n'
                'Fixpoint gen_hold_voltage_loop1 (l : list gvalue) (ranges : list (nat * grange)) (bases : list Q) (factors : list (option (list Q))) {struct l} '
                ': list Q * list (option (list Q)) :=\nmatch l with\n| value :: l\' =>\nmatch value with\n| GNum value =>\n'
                'let bases := (bases ++ [value]) in\nlet factors := (factors ++ [None]) in\ngen_hold_voltage_loop1 l\' ranges bases factors\n'
                '| GExpr value_base value_offsets =>\nlet offsets := value_offsets in\nlet base := value_base in\nlet incs := (@nil Q) in\n'
                "let '(base, incs) := gen_hold_voltage_loop2 ranges offsets base incs in\nlet factors := (factors ++ [Some incs]) in\nlet bases := (bases ++ [base]) in\n"
                'gen_hold_voltage_loop1 l\' ranges bases factors\nend\n| [] => (bases, factors)\nend.\n\n'
                'Definition gen_hold_voltage (st : gbuilder) (duration : gvalue) (voltages : list gvalue) : res gbuilder :=\n'
                'let ranges := (gb_ranges st) in\nlet factors := (@nil (option (list Q))) in\nlet bases := (@nil Q) in\n'
                "let '(bases, factors) := gen_hold_voltage_loop1 voltages ranges bases factors in\n"
                "let '(duration_base, duration_factors) := match duration with\n| GExpr duration_base duration_offsets => (duration_base, map snd duration_offsets)\n"
                '| GNum duration => (duration, [])\nend in\n'
                'let set_cmd := (GLinSpaceHold bases factors duration_base duration_factors) in\n'
                'match stack_top_append set_cmd (gb_stack st) with\n| None => Err EIndex\n| Some l =>\nlet st := %s in\nOk st\nend.' % self.upd('_stack', 'l'))

    def to_program(self):
        if [_u(s) for s in _body(_method(self.cl, '_root'))] != ['return self._stack[0]'] or \
                [_u(s) for s in _body(_method(self.cl, 'to_program'))] != ['if self._root():\n    return self._root()']:
            raise Unsupported('to_program / _root')
        return ('Definition gen_to_program (st : gbuilder) : res (option (list gnode)) :=\nmatch nth_error (gb_stack st) 0 with\n| None => Err EIndex\n'
                '| Some root =>\nif (negb (is_nil root)) then\nOk (Some root)\nelse\nOk None\nend.')

    def translate(self):
        rec = ('(* a voltage / duration handed to the builder: a plain number (python/numpy float or int, TimeType) or a SimpleExpression(base, offsets by index name) *)\n'
               'Inductive gvalue :=\n| GNum (value : Q)\n| GExpr (base : Q) (offsets : list (nat * Q)).\n\n'
               'Record gbuilder := mkGb {\n  %s }.\n\n'
               'Definition gen_builder_init : gbuilder := (mkGb [[]] [] [None]).' % ';\n  '.join('gb%s : %s' % (f, t) for f, t in self.fields))
        seq = _body(_method(self.cl, 'with_sequence'))
        if [_u(s) for s in seq] != ['yield self']:
            raise Unsupported('with_sequence')
        return '\n\n'.join([rec, self.hold_voltage(),
                            self.generator('with_repetition', ['repetition_count'], {'repetition_count': 'Z'}),
                            self.generator('with_iteration', ['index_name', 'rng'], {'index_name': 'name', 'rng': 'range'}),
                            '(* with_sequence: `yield self` only *)\nDefinition gen_with_sequence_enter (st : gbuilder) : res (gbuilder * bool) := Ok (st, true).\n'
                            'Definition gen_with_sequence_exit (st : gbuilder) : res gbuilder := Ok st.',
                            self.to_program()])


def translate_translator(path):
    with open(path) as fh:
        tree = ast.parse(fh.read())
    pure = {'get_dependency_state': ([('dependencies', GDEPS)], ('set', ('opt', 'depstate'))),
            '_entry_state_unchanged_since': (TS4_SCHEMA.methods[2][1], 'bool')}
    rets = {'new_loop': ('pair', 'gcmd', 'gcmd')}
    tr = TrTranslator(tree, TS4_SCHEMA, rets, pure, {'node': None})
    tr.open_rec, tr.rec_for = {}, {'_add_repetition_node': 'LinSpaceRepeat', '_add_iteration_node': 'LinSpaceIter', '_add_hold_node': 'LinSpaceHold'}
    tr.check_cmd_classes()
    texts = []
    for name, params in TS4_SCHEMA.methods:
        if name == '_add_hold_node':
            tr.open_rec[name] = False          # translated in Gen_linspace_obj.v
            continue
        tr.rec_cls = {'node': tr.rec_for.get(name)}
        texts.append(tr.method_text(name, params))
    texts.append(tr.add_node_text())
    parts = ['(* GENERATED by /verif/translate/py2gallina_c17.py (KeyTranslator, DepsTranslator, TrTranslator, HoldVoltageTranslator, BuilderTranslator) from %s: the node dataclasses, '
             'DepKey.from_voltages, dependencies(), _TranslationState.new_loop/get_dependency_state/_entry_state_unchanged_since/'
             '_add_repetition_node/_add_iteration_node/add_node, to_increment_commands, LinSpaceVM.__init__/run, LinSpaceBuilder (hold_voltage, with_repetition/with_iteration/with_sequence split at the yield, to_program) -- do not edit *)' % path,
             'From Coq Require Import ZArith QArith List Bool.',
             'Require Import QV.C17.Model QV.C17.GenLib QV.C17.Gen_linspace QV.C17.Gen_linspace_obj.', 'Import ListNotations.', '',
             node_inductive(tree), resolution_constant(tree), KeyTranslator(tree).translate(), DepsTranslator(tree).translate()] + texts + \
            [translation_state_default(tree), to_increment_commands_text(tree), vm_init_text(tree), vm_run_text(tree), HoldVoltageTranslator(tree).translate(), BuilderTranslator(tree).translate(), '']
    return '\n\n'.join(parts)


# =====================================================================================================================
# Round 4: SimpleExpression (qupulse/program/__init__.py).  A SimpleExpression is (base, offsets) = QV.C17.SExpr.sexpr; the other
# operand of a binary operator is a python number (SNum) or a SimpleExpression (SExp) (= sval; for any other type the methods
# return NotImplemented: None).  Accepted method bodies: `if isinstance(other, (float, int, TimeType)): return <ctor>`,
# `if type(other) == type(self): <copy + merge loop> return <ctor>`, `return NotImplemented`, `return self.<m>(<expr>)`,
# `return (-self).<m>(other)`, `x = 1 / other`, value(): accumulate loop.

class SExprTranslator:
    def __init__(self, tree):
        self.cl = _class(tree, 'SimpleExpression')
        fields = [(s.target.id, _ann(s.annotation)) for s in self.cl.body if isinstance(s, ast.AnnAssign)]
        if fields != [('base', 'NumVal'), ('offsets', 'Mapping[str, NumVal]')] or not _is_dataclass(self.cl):
            raise Unsupported('SimpleExpression fields %s' % fields)

    def q(self, e, env):
        """number valued expression; env: name -> 'Q' | 'se'"""
        if isinstance(e, ast.Constant) and type(e.value) is int:
            return '(inject_Z (%d))' % e.value
        if isinstance(e, ast.Name) and env.get(e.id) == 'Q':
            return e.id
        if isinstance(e, ast.Attribute) and isinstance(e.value, ast.Name) and env.get(e.value.id) == 'se' and e.attr == 'base':
            return '(fst %s)' % e.value.id
        if isinstance(e, ast.UnaryOp) and isinstance(e.op, ast.USub):
            return '(- %s)%%Q' % self.q(e.operand, env)
        if isinstance(e, ast.BinOp) and type(e.op) in (ast.Add, ast.Sub, ast.Mult, ast.Div):
            return '(%s %s %s)%%Q' % (self.q(e.left, env), {ast.Add: '+', ast.Sub: '-', ast.Mult: '*', ast.Div: '/'}[type(e.op)], self.q(e.right, env))
        if isinstance(e, ast.Call) and isinstance(e.func, ast.Attribute) and e.func.attr == 'get' and isinstance(e.func.value, ast.Name) \
                and env.get(e.func.value.id) == 'dict' and len(e.args) == 2 and _u(e.args[1]) == '0' and isinstance(e.args[0], ast.Name) \
                and env.get(e.args[0].id) == 'name':
            return '(oget %s %s)' % (e.args[0].id, e.func.value.id)
        raise Unsupported('number expression ' + _u(e))

    def offsets(self, e, env):
        if isinstance(e, ast.Attribute) and isinstance(e.value, ast.Name) and env.get(e.value.id) == 'se' and e.attr == 'offsets':
            return '(snd %s)' % e.value.id
        if isinstance(e, ast.Name) and env.get(e.id) == 'dict':
            return e.id
        if isinstance(e, ast.DictComp) and len(e.generators) == 1 and not e.generators[0].ifs and _u(e.generators[0].target) == '(name, value)' \
                and _u(e.key) == 'name':
            it = e.generators[0].iter
            if isinstance(it, ast.Call) and isinstance(it.func, ast.Attribute) and it.func.attr == 'items' and not it.args:
                src = self.offsets(it.func.value, env)
                return '(map (fun nv => (fst nv, %s)) %s)' % (self.q(e.value, dict(env, value='Q')).replace('value', '(snd nv)'), src)
        raise Unsupported('offsets expression ' + _u(e))

    def ctor(self, e, env):
        if not (isinstance(e, ast.Call) and _u(e.func) == 'SimpleExpression' and len(e.args) == 2 and not e.keywords):
            raise Unsupported('constructor ' + _u(e))
        return '(%s, %s)' % (self.q(e.args[0], env), self.offsets(e.args[1], env))

    def binary(self, name):
        """__add__ / __mul__: isinstance chain on `other`"""
        m = _method(self.cl, name)
        if [x.arg for x in m.args.args] != ['self', 'other']:
            raise Unsupported(name + ' signature')
        body = _body(m)
        arms = {'SNum': None, 'SExp': None}
        aux = []
        for s in body[:-1]:
            if not isinstance(s, ast.If) or s.orelse:
                raise Unsupported('%s: statement %s' % (name, _u(s)[:60]))
            t = _u(s.test)
            if t == 'isinstance(other, (float, int, TimeType))' and arms['SNum'] is None:
                if len(s.body) != 1 or not isinstance(s.body[0], ast.Return):
                    raise Unsupported(name + ': number arm')
                arms['SNum'] = 'Some (SExp %s)' % self.ctor(s.body[0].value, {'self': 'se', 'other': 'Q'})
            elif t == 'type(other) == type(self)' and arms['SExp'] is None:
                b = s.body
                if len(b) != 3 or _u(b[0]) != 'offsets = self.offsets.copy()' or not isinstance(b[1], ast.For) or not isinstance(b[2], ast.Return):
                    raise Unsupported(name + ': expression arm')
                lp = b[1]
                if _u(lp.target) != '(name, value)' or _u(lp.iter) != 'other.offsets.items()' or len(lp.body) != 1 or lp.orelse:
                    raise Unsupported(name + ': merge loop')
                st = lp.body[0]
                if not (isinstance(st, ast.Assign) and _u(st.targets[0]) == 'offsets[name]'):
                    raise Unsupported(name + ': merge statement')
                v = self.q(st.value, {'value': 'Q', 'offsets': 'dict', 'name': 'name'})
                aux.append('Fixpoint gen_se%s_loop (l : list (nat * Q)) (offsets : list (nat * Q)) {struct l} : list (nat * Q) :=\nmatch l with\n'
                           "| (name, value) :: l' =>\nlet offsets := (aset Nat.eqb name %s offsets) in\ngen_se%s_loop l' offsets\n| [] => offsets\nend." % (name.strip('_').join(['_', '']), v, name.strip('_').join(['_', ''])))
                arms['SExp'] = ('let offsets := (snd self) in\nlet offsets := gen_se%s_loop (snd other) offsets in\nSome (SExp %s)'
                                % (name.strip('_').join(['_', '']), self.ctor(b[2].value, {'self': 'se', 'other': 'se', 'offsets': 'dict'})))
            else:
                raise Unsupported('%s: test %s' % (name, t))
        if _u(body[-1]) != 'return NotImplemented' or arms['SNum'] is None:
            raise Unsupported(name + ': final return')
        return '\n\n'.join(aux + ['Definition gen_se_%s (self : sexpr) (other : sval) : option sval :=\nmatch other with\n| SNum other =>\n%s\n| SExp other =>\n%s\nend.'
                                   % (name.strip('_'), arms['SNum'], arms['SExp'] or 'None')])

    def translate(self):
        out = [self.binary('__add__'), self.binary('__mul__')]
        want = {'__radd__': 'return self.__add__(other)', '__rmul__': 'return self.__mul__(other)', '__sub__': 'return self.__add__(-other)',
                '__rsub__': 'return (-self).__add__(other)'}
        for n, w in want.items():
            if [_u(s) for s in _body(_method(self.cl, n))] != [w]:
                raise Unsupported('%s: %s' % (n, [_u(s) for s in _body(_method(self.cl, n))]))
        neg = _body(_method(self.cl, '__neg__'))
        if len(neg) != 1 or not isinstance(neg[0], ast.Return):
            raise Unsupported('__neg__')
        out.append('Definition gen_se_neg (self : sexpr) : sexpr :=\n%s.' % self.ctor(neg[0].value, {'self': 'se'}))
        out.append('Definition gen_se_radd (self : sexpr) (other : sval) : option sval := gen_se_add self other.\n'
                   'Definition gen_se_rmul (self : sexpr) (other : sval) : option sval := gen_se_mul self other.\n'
                   '(* -other on a number / on a SimpleExpression (its __neg__) *)\n'
                   'Definition gen_se_sub (self : sexpr) (other : sval) : option sval :=\n'
                   'gen_se_add self (match other with SNum other => SNum (- other)%Q | SExp other => SExp (gen_se_neg other) end).\n'
                   'Definition gen_se_rsub (self : sexpr) (other : sval) : option sval := gen_se_add (gen_se_neg self) other.')
        td = [_u(s) for s in _body(_method(self.cl, '__truediv__'))]
        if td != ['inv = 1 / other', 'return self.__mul__(inv)']:
            raise Unsupported('__truediv__: %s' % td)
        out.append('(* x / 0 raises ZeroDivisionError: None *)\nDefinition gen_se_truediv (self : sexpr) (other : Q) : option sval :=\n'
                   'if Qeq_bool other 0 then None else\nlet inv := ((inject_Z (1)) / other)%Q in\ngen_se_mul self (SNum inv).')
        v = _body(_method(self.cl, 'value'))
        if [_u(s) for s in v] != ['value = self.base', 'for name, factor in self.offsets.items():\n    value += scope[name] * factor', 'return value']:
            raise Unsupported('value: %s' % [_u(s) for s in v])
        out.append('Fixpoint gen_se_value_loop (l : list (nat * Q)) (scope : nat -> Q) (value : Q) {struct l} : Q :=\nmatch l with\n'
                   "| (name, factor) :: l' =>\nlet value := (value + (scope name) * factor)%Q in\ngen_se_value_loop l' scope value\n| [] => value\nend.\n\n"
                   'Definition gen_se_value (self : sexpr) (scope : nat -> Q) : Q :=\nlet value := (fst self) in\ngen_se_value_loop (snd self) scope value.')
        return '\n\n'.join(out)


def translate_simple_expression(path):
    with open(path) as fh:
        tree = ast.parse(fh.read())
    parts = ['(* GENERATED by /verif/translate/py2gallina_c17.py (SExprTranslator) from %s: SimpleExpression.__add__/__radd__/__sub__/__rsub__/'
             '__neg__/__mul__/__rmul__/__truediv__/value -- do not edit *)' % path,
             'From Coq Require Import ZArith QArith List Bool.', 'Require Import QV.C17.Model QV.C17.SExpr.', 'Import ListNotations.', '',
             SExprTranslator(tree).translate(), '']
    return '\n'.join(parts)
