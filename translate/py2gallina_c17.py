"""Extension of the fail-closed translator (py2gallina.py, not modified) for one kind of kernel: a *method of a
dataclass* doing float/int arithmetic over tuples, as `DepState.required_increment_from` in qupulse/program/linspace.py.

Accepted (anything else raises py2gallina.Unsupported; nothing is guessed):

  parameters     self / parameters annotated with the dataclass name  ->  one Gallina parameter per dataclass field
                                                                         (<param>_<field>), fields typed by their annotation
                 `Sequence[float]`, `Tuple[float, ...]`              ->  list Q        `Sequence[int]`, `Tuple[int, ...]` -> list Z
                 `float` -> Q      `int` -> Z
  result         res Q  (QV.C17.Model: Ok v | Err e);  `assert` that fails -> Err EAssert
  statements     assert len(a) == len(b)                              ->  if negb (Nat.eqb (length a) (length b)) then Err EAssert else ..
                 assert <int comparison>                              ->  if .. then .. else Err EAssert
                 x = <float expr>      x += e      x -= e             ->  let x := (..)%Q in ..
                 for a, b, c in zip(x, y, z): <body>                  ->  a top-level Fixpoint over the lists (stops at the shortest,
                                                                         like zip) that carries the float variables assigned in the body;
                                                                         the statements after the loop become its exhausted-case
                 if / elif / else, pass, comments, docstring, return <float expr>
  expressions    names, <param>.<field>, + - *, int operands inside float arithmetic are wrapped in inject_Z,
                 int comparisons == < <= > >= != between int names / int constants

The output follows the source text statement by statement and operand by operand: a changed operator, operand, comparison
or a dropped assert gives a different definition, and the committed proof `coq/C17/GenEq.v` (generated = model) fails.
"""
import ast
import os
import sys

sys.path.insert(0, os.path.dirname(os.path.abspath(__file__)))
from py2gallina import Unsupported  # noqa: E402

LIST_TYPES = {'Sequence[float]': 'list Q', 'Tuple[float, ...]': 'list Q', 'Sequence[int]': 'list Z', 'Tuple[int, ...]': 'list Z'}
SCALAR_TYPES = {'float': 'Q', 'int': 'Z'}


def _ann(node):
    if node is None:
        raise Unsupported('missing annotation')
    if isinstance(node, ast.Constant) and isinstance(node.value, str):
        return node.value
    return ast.unparse(node)


class MethodTranslator:
    def __init__(self, cls: ast.ClassDef, fdef: ast.FunctionDef, prefix='gen_'):
        self.cls, self.f, self.prefix = cls, fdef, prefix
        if fdef.decorator_list:
            raise Unsupported('decorated method')
        a = fdef.args
        if a.vararg or a.kwarg or a.kwonlyargs or a.defaults or a.posonlyargs:
            raise Unsupported('only plain positional parameters')
        self.fields = []
        for s in cls.body:
            if isinstance(s, ast.AnnAssign) and isinstance(s.target, ast.Name) and s.value is None:
                self.fields.append((s.target.id, self._type(_ann(s.annotation))))
        if not self.fields:
            raise Unsupported('no dataclass fields')
        self.types = {}          # gallina variable -> type
        self.records = set()
        self.params = []
        for i, arg in enumerate(a.args):
            if i == 0:
                if arg.arg != 'self':
                    raise Unsupported('first parameter must be self')
                rec = True
            else:
                rec = _ann(arg.annotation) == cls.name
            if rec:
                self.records.add(arg.arg)
                for fname, ftype in self.fields:
                    self.params.append(('%s_%s' % (arg.arg, fname), ftype))
            else:
                self.params.append((arg.arg, self._type(_ann(arg.annotation))))
        for n, t in self.params:
            self.types[n] = t
        if self._type(_ann(fdef.returns)) != 'Q':
            raise Unsupported('only float results')
        self.loops = []

    @staticmethod
    def _type(txt):
        txt = txt.strip().strip("'")
        if txt in LIST_TYPES:
            return LIST_TYPES[txt]
        if txt in SCALAR_TYPES:
            return SCALAR_TYPES[txt]
        raise Unsupported('type ' + txt)

    # ---- expressions
    def var(self, e):
        """(gallina name, type) of a name or <record>.<field>"""
        if isinstance(e, ast.Name):
            if e.id in self.records:
                raise Unsupported('record used as a value')
            if e.id not in self.types:
                raise Unsupported('unknown name ' + e.id)
            return e.id, self.types[e.id]
        if isinstance(e, ast.Attribute) and isinstance(e.value, ast.Name) and e.value.id in self.records:
            n = '%s_%s' % (e.value.id, e.attr)
            if n not in self.types:
                raise Unsupported('unknown field ' + e.attr)
            return n, self.types[n]
        raise Unsupported('expression ' + type(e).__name__)

    def typ(self, e):
        if isinstance(e, ast.Constant):
            if isinstance(e.value, bool) or not isinstance(e.value, int):
                raise Unsupported('constant %r' % (e.value,))
            return 'Z'
        if isinstance(e, (ast.Name, ast.Attribute)):
            return self.var(e)[1]
        if isinstance(e, ast.BinOp):
            ts = {self.typ(e.left), self.typ(e.right)}
            if not ts <= {'Q', 'Z'}:
                raise Unsupported('arithmetic on ' + '/'.join(sorted(ts)))
            return 'Q' if 'Q' in ts else 'Z'
        if isinstance(e, ast.UnaryOp) and isinstance(e.op, ast.USub):
            return self.typ(e.operand)
        raise Unsupported('expression ' + type(e).__name__)

    def zexpr(self, e):
        if self.typ(e) != 'Z':
            raise Unsupported('int expression expected')
        if isinstance(e, ast.Constant):
            return '(%d)%%Z' % e.value
        if isinstance(e, (ast.Name, ast.Attribute)):
            return self.var(e)[0]
        if isinstance(e, ast.UnaryOp):
            return '(- %s)%%Z' % self.zexpr(e.operand)
        op = {ast.Add: '+', ast.Sub: '-', ast.Mult: '*'}.get(type(e.op))
        if op is None:
            raise Unsupported('int operator ' + type(e.op).__name__)
        return '(%s %s %s)%%Z' % (self.zexpr(e.left), op, self.zexpr(e.right))

    def qexpr(self, e):
        """float expression; int sub-expressions are embedded with inject_Z"""
        if self.typ(e) == 'Z':
            return '(inject_Z %s)' % self.zexpr(e)
        if isinstance(e, (ast.Name, ast.Attribute)):
            return self.var(e)[0]
        if isinstance(e, ast.UnaryOp):
            return '(- %s)%%Q' % self.qexpr(e.operand)
        if isinstance(e, ast.BinOp):
            op = {ast.Add: '+', ast.Sub: '-', ast.Mult: '*'}.get(type(e.op))
            if op is None:
                raise Unsupported('float operator ' + type(e.op).__name__)
            return '(%s %s %s)%%Q' % (self.qexpr(e.left), op, self.qexpr(e.right))
        raise Unsupported('expression ' + type(e).__name__)

    def cond(self, e):
        if isinstance(e, ast.Compare) and len(e.ops) == 1:
            l, r = e.left, e.comparators[0]
            is_len = lambda x: (isinstance(x, ast.Call) and isinstance(x.func, ast.Name) and x.func.id == 'len'
                                and len(x.args) == 1 and not x.keywords)
            if is_len(l) and is_len(r) and isinstance(e.ops[0], ast.Eq):
                a, ta = self.var(l.args[0])
                b, tb = self.var(r.args[0])
                if not (ta.startswith('list') and tb.startswith('list')):
                    raise Unsupported('len of a non-sequence')
                return '(Nat.eqb (length %s) (length %s))' % (a, b)
            sym = {ast.Lt: '<?', ast.LtE: '<=?', ast.Gt: '>?', ast.GtE: '>=?', ast.Eq: '=?'}.get(type(e.ops[0]))
            a, b = self.zexpr(l), self.zexpr(r)
            if sym is None:
                if isinstance(e.ops[0], ast.NotEq):
                    return '(negb (%s =? %s)%%Z)' % (a, b)
                raise Unsupported('comparison ' + type(e.ops[0]).__name__)
            return '(%s %s %s)%%Z' % (a, sym, b)
        raise Unsupported('condition ' + type(e).__name__)

    # ---- statements
    @staticmethod
    def falls_through(stmts):
        for s in stmts:
            if isinstance(s, ast.Return):
                return False
            if isinstance(s, ast.If) and s.orelse and not MethodTranslator.falls_through(s.body) \
                    and not MethodTranslator.falls_through(s.orelse):
                return False
        return True

    def block(self, stmts, end):
        """Gallina term of type res Q; `end` = term used when control falls off the end of the list"""
        if not stmts:
            if end is None:
                raise Unsupported('function may end without return')
            return end
        s, rest = stmts[0], stmts[1:]
        if isinstance(s, ast.Expr) and isinstance(s.value, ast.Constant) and isinstance(s.value.value, str):
            return self.block(rest, end)
        if isinstance(s, ast.Pass):
            return self.block(rest, end)
        if isinstance(s, ast.Assert):
            if s.msg is not None:
                raise Unsupported('assert with message')
            return 'if negb %s then Err EAssert else\n%s' % (self.cond(s.test), self.block(rest, end))
        if isinstance(s, ast.Assign):
            if len(s.targets) != 1 or not isinstance(s.targets[0], ast.Name):
                raise Unsupported('assignment target')
            n = s.targets[0].id
            if self.types.get(n, 'Q') != 'Q' or n in self.records:
                raise Unsupported('re-typed variable ' + n)
            v = self.qexpr(s.value) if self.typ(s.value) == 'Q' else None
            if v is None:
                raise Unsupported('only float locals')
            self.types[n] = 'Q'
            return 'let %s := %s in\n%s' % (n, v, self.block(rest, end))
        if isinstance(s, ast.AugAssign):
            if not isinstance(s.target, ast.Name) or self.types.get(s.target.id) != 'Q':
                raise Unsupported('augmented assignment target')
            op = {ast.Add: '+', ast.Sub: '-', ast.Mult: '*'}.get(type(s.op))
            if op is None:
                raise Unsupported('augmented operator')
            n = s.target.id
            return 'let %s := (%s %s %s)%%Q in\n%s' % (n, n, op, self.qexpr(s.value), self.block(rest, end))
        if isinstance(s, ast.Return):
            if s.value is None:
                raise Unsupported('bare return')
            return 'Ok %s' % self.qexpr(s.value)
        if isinstance(s, ast.If):
            if self.falls_through([s]) and rest:
                # both branches continue with the same rest: inline it (the kernel is tiny)
                return '(if %s then\n%s\nelse\n%s)' % (self.cond(s.test), self.block(s.body + rest, end),
                                                       self.block(s.orelse + rest, end))
            return '(if %s then\n%s\nelse\n%s)' % (self.cond(s.test), self.block(s.body, end), self.block(s.orelse, end))
        if isinstance(s, ast.For):
            return self.for_zip(s, rest, end)
        raise Unsupported('statement ' + type(s).__name__)

    def for_zip(self, s, rest, end):
        if s.orelse:
            raise Unsupported('for-else')
        it = s.iter
        if not (isinstance(it, ast.Call) and isinstance(it.func, ast.Name) and it.func.id == 'zip' and not it.keywords
                and isinstance(s.target, ast.Tuple) and len(s.target.elts) == len(it.args)
                and all(isinstance(x, ast.Name) for x in s.target.elts)):
            raise Unsupported('only `for a, b, .. in zip(x, y, ..)`')
        for sub in ast.walk(s):
            if isinstance(sub, (ast.Break, ast.Continue, ast.Return)) or (isinstance(sub, ast.For) and sub is not s):
                raise Unsupported('break/continue/return/nested loop inside the loop')
        lists = [self.var(x) for x in it.args]
        elems = []
        for x, (ln, lt) in zip(s.target.elts, lists):
            if not lt.startswith('list '):
                raise Unsupported('zip over a non-sequence')
            if x.id in self.types:
                raise Unsupported('loop variable shadows ' + x.id)
            elems.append((x.id, lt[5:]))
        carried = []
        for sub in ast.walk(s):
            if isinstance(sub, ast.AugAssign) and isinstance(sub.target, ast.Name) and sub.target.id not in carried:
                carried.append(sub.target.id)
            if isinstance(sub, ast.Assign):
                raise Unsupported('plain assignment inside the loop')
        for c in carried:
            if self.types.get(c) != 'Q':
                raise Unsupported('loop-carried variable %s is not a float defined before the loop' % c)
        lname = '%s%s_loop%d' % (self.prefix, self.f.name, len(self.loops) + 1)
        self.loops.append(None)
        idx = len(self.loops) - 1
        ls = ['l%d' % (k + 1) for k in range(len(lists))]
        for (n, t) in elems:
            self.types[n] = t
        again = '%s %s %s' % (lname, ' '.join(l + "'" for l in ls), ' '.join(carried))
        body = self.block(s.body, again)
        for (n, t) in elems:
            del self.types[n]
        after = self.block(rest, end)
        pat = ', '.join("%s :: %s'" % (n, l) for (n, _), l in zip(elems, ls))
        wild = ', '.join('_' for _ in ls)
        text = ('Fixpoint %s %s %s {struct l1} : res Q :=\n  match %s with\n  | %s =>\n%s\n  | %s =>\n%s\n  end.'
                % (lname, ' '.join('(%s : %s)' % (l, lt) for l, (_, lt) in zip(ls, lists)),
                   ' '.join('(%s : Q)' % c for c in carried), ', '.join(ls), pat, body, wild, after))
        self.loops[idx] = text
        return '%s %s %s' % (lname, ' '.join(n for n, _ in lists), ' '.join(carried))

    def translate(self):
        body = self.block(self.f.body, None)
        out = list(self.loops)
        out.append('Definition %s%s %s : res Q :=\n%s.' % (
            self.prefix, self.f.name, ' '.join('(%s : %s)' % (n, t) for n, t in self.params), body))
        return '\n\n'.join(out)


def translate_method(path, cls_name, method, prefix='gen_'):
    with open(path) as fh:
        src = fh.read()
    tree = ast.parse(src)
    classes = [n for n in tree.body if isinstance(n, ast.ClassDef) and n.name == cls_name]
    if len(classes) != 1:
        raise Unsupported('class %s not found in %s' % (cls_name, path))
    methods = [n for n in classes[0].body if isinstance(n, ast.FunctionDef) and n.name == method]
    if len(methods) != 1:
        raise Unsupported('method %s.%s not found' % (cls_name, method))
    parts = ['(* GENERATED by /verif/translate/py2gallina_c17.py from %s (%s.%s) -- do not edit *)' % (path, cls_name, method),
             'From Coq Require Import ZArith QArith List Bool.', 'Require Import QV.C17.Model.', 'Import ListNotations.', '',
             MethodTranslator(classes[0], methods[0], prefix).translate(), '']
    return '\n'.join(parts)


if __name__ == '__main__':
    print(translate_method(sys.argv[1], sys.argv[2], sys.argv[3]))
